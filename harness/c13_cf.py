"""C13 nested-emission tie: the statement STRUCTURE the real proto2python prints for models / functions with If and
Loop (depth <= 2), under each export option that changes the structure, parsed back (Python `ast`) into an
OV.Script.Syntax `func` literal, against Export/EmitCF.v `export_cf` applied to the same graph -- compared inside Coq
(`disagreeing_cf`), on the AST, never on the text.

    graph_lit(proto) / ivals_lit(proto)      protos -> Coq (omitted node outputs kept as "", nested graphs recursively)
    parse_program(code)                      generated source -> (Coq `func` literal, skipped-initializer names, #statements)
    observe(case, opts)                      run the real exporter; None when it raised
    coq_body(items)                          one Coq file for a shard of (case, opts, observation)
    nested_cases(rng, ...)                   generated + hand-made models / functions with control flow
"""
from __future__ import annotations

import ast
import struct

import numpy as np
import onnx
from onnx import TensorProto as TP
from onnx import helper as h
from onnx import numpy_helper as nh

from harness import c13_emit as M
from harness import c13_gen as G
from harness import c13_variants as VR
from harness import graphlit
from harness.common import cbool, clist, cstr, cz

ParseError = M.ParseError
OutOfScope = M.OutOfScope

OPT_NAMES = ("rename", "use_operators", "inline_const", "skip_initializers")


# ----------------------------------------------------------------------------------------------- protos -> Coq

def node_lit(n):
    ins = clist(n.input, lambda x: "None" if x == "" else f"(Some {cstr(x)})")
    outs = clist(list(n.output), cstr)  # omitted outputs stay as "" (position matters)
    attrs, subs = [], []
    for a in n.attribute:
        if a.type == onnx.AttributeProto.GRAPH and not a.ref_attr_name:
            subs.append(f"({cstr(a.name)}, {subgraph_lit(a.g)})")
            continue
        if a.type == onnx.AttributeProto.GRAPHS:
            raise OutOfScope("GRAPHS attribute")
        kind, txt = graphlit.attr_lit(a)
        if kind != "attr":
            raise OutOfScope("graph-valued attribute form")
        attrs.append(f"({cstr(a.name)}, {txt})")
    return f"(Node {cstr(n.domain if n.domain != 'ai.onnx' else '')} {cstr(n.op_type)} {ins} {outs} {clist(attrs)} {clist(subs)})"


def subgraph_lit(g):
    """a subgraph that owns initializers (Export/SubInits.v): g_inits = their names, and the Constant nodes the exporter
    makes for them (make_node("Constant", [], [init.name], value=init)) in front of the nodes"""
    if len(g.sparse_initializer):
        raise OutOfScope("subgraph with sparse initializers")
    consts = []
    for i in g.initializer:
        if onnx.external_data_helper.uses_external_data(i):
            raise OutOfScope("external initializer")
        if i.data_type in (TP.FLOAT, TP.INT64) and len(i.dims) <= 1 and nh.to_array(i).nbytes > 64:
            raise OutOfScope("long rank-1 initializer (payload digested)")
        consts.append(f'(Node {cstr("")} {cstr("Constant")} [] [{cstr(i.name)}] [({cstr("value")}, {M._tensor_attr_lit(i)})] [])')
    return (f"(Graph {clist([i.name for i in g.input], cstr)} {clist([i.name for i in g.initializer], cstr)} "
            f"{clist(consts + [node_lit(n) for n in g.node])} {clist([o.name for o in g.output], cstr)})")


def nested_initializers(proto):
    """the initializers owned by subgraphs, in the exporter's traversal order"""
    out = []

    def walk(nodes):
        for n in nodes:
            subs = [a for a in n.attribute if a.type == onnx.AttributeProto.GRAPH]
            if n.op_type == "If" and len(subs) == 2:
                subs = sorted(subs, key=lambda a: a.name != "then_branch")
            for a in subs:
                out.extend(a.g.initializer)
                walk(a.g.node)
    walk(proto.graph.node if isinstance(proto, onnx.ModelProto) else proto.node)
    return out


def graph_lit(proto):
    lit = _graph_lit(proto)
    return f"(ph_graph {lit})" if M.ph_reserved() else lit  # Export/Placeholders.v: the reserved-placeholder variant


def _graph_lit(proto):
    if isinstance(proto, onnx.ModelProto):
        g = proto.graph
        if proto.functions or g.sparse_initializer:
            raise OutOfScope("model with local functions / sparse initializers")
        ins, inits, outs, nodes = [i.name for i in g.input], [i.name for i in g.initializer], [o.name for o in g.output], g.node
    else:
        if proto.attribute_proto:
            raise OutOfScope("function with attribute parameters that have default values")
        ins, inits, outs, nodes = list(proto.input), [], list(proto.output), proto.node
    return f"(Graph {clist(ins, cstr)} {clist(inits, cstr)} {clist([node_lit(n) for n in nodes])} {clist(outs, cstr)})"


def ivals_lit(proto):
    if not isinstance(proto, onnx.ModelProto):
        return "[]"
    rows = []
    for i in proto.graph.initializer:
        if onnx.external_data_helper.uses_external_data(i):
            raise OutOfScope("external initializer")
        if i.data_type in (TP.FLOAT, TP.INT64) and len(i.dims) <= 1 and nh.to_array(i).nbytes > 64:
            raise OutOfScope("long rank-1 initializer (payload digested)")
        rows.append(f"({cstr(i.name)}, {M._tensor_attr_lit(i)})")
    return clist(rows)


def all_nodes(proto):
    def walk(nodes):
        for n in nodes:
            yield n
            for a in n.attribute:
                if a.type == onnx.AttributeProto.GRAPH:
                    yield from walk(a.g.node)
    yield from walk(proto.graph.node if isinstance(proto, onnx.ModelProto) else proto.node)


def has_control_flow(proto):
    return any(n.op_type in ("If", "Loop") for n in all_nodes(proto))


def depth_of(proto):
    def d(nodes):
        best = 0
        for n in nodes:
            for a in n.attribute:
                if a.type == onnx.AttributeProto.GRAPH:
                    best = max(best, 1 + d(a.g.node))
        return best
    return d(proto.graph.node if isinstance(proto, onnx.ModelProto) else proto.node)


# ----------------------------------------------------------------------------------------------- source -> Coq

def f32_bits(x):
    try:
        return struct.unpack("<I", struct.pack("<f", x))[0]
    except OverflowError:
        return struct.unpack("<I", struct.pack("<f", float("inf") if x > 0 else float("-inf")))[0]


_BIN = {ast.Add: "Add", ast.Sub: "Sub", ast.Mult: "Mult", ast.MatMult: "MatMult", ast.Div: "Div", ast.Pow: "Pow",
        ast.BitAnd: "BitAnd", ast.BitOr: "BitOr", ast.Mod: "Mod"}
_CMP = {ast.Gt: "Gt", ast.Eq: "Eq", ast.Lt: "Lt", ast.GtE: "GtE", ast.LtE: "LtE", ast.NotEq: "NotEq"}


def _num_lit(v):
    if isinstance(v, bool):
        raise ParseError("bool literal")
    if isinstance(v, int):
        return f"(ELit (LInt {cz(v)}))"
    if isinstance(v, float):
        return f"(ELit (LFloat {cz(f32_bits(v))}))"
    raise ParseError(f"literal {v!r}")


def _is_num(node):
    return isinstance(node, ast.Constant) and isinstance(node.value, (int, float)) and not isinstance(node.value, bool)


def expr_lit(e, opsets):
    """an expression in operand / right-hand-side position -> Coq `expr`"""
    if isinstance(e, ast.Name):
        return f"(EVar {cstr(e.id)})"
    if isinstance(e, ast.Constant):
        if e.value is None:
            return '(EVar "None")'
        return _num_lit(e.value)
    if isinstance(e, ast.UnaryOp):
        if isinstance(e.op, ast.USub):
            if _is_num(e.operand):  # a negative literal is one literal
                return _num_lit(-e.operand.value)
            return f'(EUn "USub" {expr_lit(e.operand, opsets)})'
        if isinstance(e.op, ast.Not):
            return f'(EUn "Not" {expr_lit(e.operand, opsets)})'
        raise ParseError(f"unary operator {type(e.op).__name__}")
    if isinstance(e, ast.List):
        if all(_is_num(x) and isinstance(x.value, int) for x in e.elts) or \
                all((_is_num(x) and isinstance(x.value, int)) or (isinstance(x, ast.UnaryOp) and isinstance(x.op, ast.USub) and _is_num(x.operand)
                                                                   and isinstance(x.operand.value, int)) for x in e.elts):
            vals = [x.value if isinstance(x, ast.Constant) else -x.operand.value for x in e.elts]
            return f"(ELit (LInts {clist(vals, cz)}))"
        return f'(ECall (CFun "[]") {clist(["(Some " + expr_lit(x, opsets) + ")" for x in e.elts])} [])'
    if isinstance(e, ast.BinOp):
        if type(e.op) not in _BIN:
            raise ParseError(f"binary operator {type(e.op).__name__}")
        return f"(EBin {cstr(_BIN[type(e.op)])} {expr_lit(e.left, opsets)} {expr_lit(e.right, opsets)})"
    if isinstance(e, ast.Compare):
        if len(e.ops) != 1 or type(e.ops[0]) not in _CMP:
            raise ParseError("comparison chain")
        return f"(ECmp {cstr(_CMP[type(e.ops[0])])} {expr_lit(e.left, opsets)} {expr_lit(e.comparators[0], opsets)})"
    if isinstance(e, ast.Call):
        return call_lit(e, opsets)
    raise ParseError(f"expression {type(e).__name__}")


def call_lit(call, opsets):
    f = call.func
    if not (isinstance(f, ast.Attribute) and isinstance(f.value, ast.Name)):
        raise ParseError("callee is not <opset>.<Op>")
    if f.value.id not in opsets:
        raise OutOfScope(f"callee opset {f.value.id}")
    args = []
    for a in call.args:
        if isinstance(a, ast.Constant) and a.value is None:
            args.append("None")
        else:
            args.append(f"(Some {expr_lit(a, opsets)})")
    kws = []
    for k in call.keywords:
        if k.arg is None:
            raise ParseError("**kwargs")
        kws.append(f"({cstr(k.arg)}, {M._attr_value_lit(k.arg, k.value)})")
    return f"(ECall (COp {cstr(f.attr)}) {clist(args)} {clist(kws)})"


def _name(t):
    if isinstance(t, ast.Constant) and t.value is None:
        return "None"
    if not isinstance(t, ast.Name):
        raise ParseError(f"name expected, got {type(t).__name__}")
    return t.id


def stmts_lit(body, opsets, count):
    out = []
    for s in body:
        count[0] += 1
        if isinstance(s, ast.Assign):
            if len(s.targets) != 1:
                raise ParseError("chained assignment")
            t = s.targets[0]
            if isinstance(t, ast.Tuple):
                out.append(f"(STuple {clist([_name(e) for e in t.elts], cstr)} {expr_lit(s.value, opsets)})")
            else:
                out.append(f"(SAssign {cstr(_name(t))} {expr_lit(s.value, opsets)})")
        elif isinstance(s, ast.If):
            out.append(f"(SIf {expr_lit(s.test, opsets)} {clist(stmts_lit(s.body, opsets, count))} {clist(stmts_lit(s.orelse, opsets, count))})")
        elif isinstance(s, ast.For):
            it = s.iter
            if s.orelse or not (isinstance(it, ast.Call) and isinstance(it.func, ast.Name) and it.func.id == "range" and len(it.args) == 1 and not it.keywords):
                raise ParseError("for loop that is not `for i in range(n)`")
            out.append(f"(SFor {cstr(_name(s.target))} {expr_lit(it.args[0], opsets)} {clist(stmts_lit(s.body, opsets, count))})")
        elif isinstance(s, ast.While):
            if s.orelse or not isinstance(s.test, ast.Name):
                raise ParseError("while loop whose test is not a name")
            out.append(f"(SWhile {cstr(s.test.id)} {clist(stmts_lit(s.body, opsets, count))})")
        elif isinstance(s, ast.Break):
            out.append("SBreak")
        elif isinstance(s, ast.Return):
            v = s.value
            es = [] if v is None else ([expr_lit(e, opsets) for e in v.elts] if isinstance(v, ast.Tuple) else [expr_lit(v, opsets)])
            out.append(f"(SReturn {clist(es)})")
        else:
            raise ParseError(f"statement {type(s).__name__}")
    return out


LAST_APARAMS = []  # attribute parameters of the function parsed last (compared with the proto by observe)


def parse_program(code):
    """-> (Coq `func` literal, skipped-initializer parameter names of make_model, number of statements)"""
    tree = ast.parse(code)
    opsets = set()
    for s in tree.body:
        if isinstance(s, ast.ImportFrom) and s.module == "onnxscript.onnx_opset":
            opsets.update(a.asname or a.name for a in s.names)
    defs = [s for s in tree.body if isinstance(s, ast.FunctionDef)]
    skipped = []
    if len(defs) == 2 and defs[0].name == "make_model" and defs[1].name == "make_model_with_random_weights":
        mm = defs[0]
        skipped = [a.arg for a in mm.args.args]
        inner = [s for s in mm.body if isinstance(s, ast.FunctionDef)]
        if len(inner) != 1:
            raise ParseError(f"{len(inner)} function definitions inside make_model")
        fd = inner[0]
    elif len(defs) == 1:
        fd = defs[0]
    else:
        raise ParseError(f"{len(defs)} function definitions at module level")
    a = fd.args
    if a.vararg or a.kwarg or a.kwonlyargs or a.posonlyargs or a.defaults:
        raise ParseError("signature with defaults / varargs")
    body = list(fd.body)
    if body and isinstance(body[0], ast.Expr) and isinstance(body[0].value, ast.Constant) and isinstance(body[0].value.value, str):
        body = body[1:]
    count = [0]
    stmts = stmts_lit(body, opsets, count)
    def is_attr(x):
        t = ast.unparse(x.annotation) if x.annotation is not None else ""
        return t in ("int", "float", "str", "bool") or t.startswith("Sequence[")

    LAST_APARAMS[:] = [x.arg for x in a.args if is_attr(x)]
    lit = (f"{{| f_name := {cstr(fd.name)}; f_tparams := {clist([x.arg for x in a.args if not is_attr(x)], cstr)}; f_aparams := []; "
           f"f_body := {clist(stmts)} |}}")
    return lit, skipped, count[0]


# ----------------------------------------------------------------------------------------------- rename=True: mapper order

def model_rename_sequence(proto, opts):
    """ModelProto, rename=True: the names in the order in which the exporter first hands them to the short-name mapper
    (an independent traversal in the order of _translate_graph_body / _translate_node / _translate_if / _translate_loop;
    a wrong order shows up as a disagreement, never as agreement)."""
    vr = VR.detect()
    seq = []
    consts = set()

    def src(x):  # right-hand side of an emitted assignment / range() / return: the reference with C13_05
        if vr["src_ref"]:
            ref(x)
        else:
            var(x)

    remapped = set()  # cond_out of a pure `for` loop: translated through the remapping scope, never by the mapper

    def var(x):
        if x != "" and x not in remapped:
            seq.append(x)

    def ref(x):
        if x not in consts:
            var(x)

    def names_in(nodes, acc):
        for n in nodes:
            acc.update(n.input)
            acc.update(n.output)
            for a in n.attribute:
                if a.type == onnx.AttributeProto.GRAPH:
                    acc.update(i.name for i in a.g.input)
                    acc.update(o.name for o in a.g.output)
                    names_in(a.g.node, acc)

    def assign(lhs, rhs):
        for x, y in zip(lhs, rhs):
            var(x)
            src(y)

    def inlinable(n):
        if not (opts["inline_const"] and n.op_type == "Constant" and n.attribute and n.attribute[0].HasField("t")):
            return False
        return inlinable_tensor(n.attribute[0].t)

    def inlinable_tensor(t):
        if not (t.data_type in (TP.FLOAT, TP.INT64) and (len(t.dims) == 0 or (len(t.dims) == 1 and t.dims[0] < 5))):
            return False
        if vr["nonempty_only"] and list(t.dims) == [0]:
            return False
        if vr["finite_only"] and t.data_type == TP.FLOAT and not np.all(np.isfinite(nh.to_array(t))):
            return False
        return True

    def body(nodes):
        for n in nodes:
            node(n)

    def node(n):
        if inlinable(n):
            consts.add(n.output[0])
            return
        if n.op_type == "If":
            ref(n.input[0])
            at = list(n.attribute)
            eb, tb = (at[0].g, at[1].g) if at[0].name == "else_branch" else (at[1].g, at[0].g)
            for g in (tb, eb):
                inits(g)
                body(g.node)
                assign(list(n.output), [o.name for o in g.output])
            return
        if n.op_type == "Loop":
            b = n.attribute[0].g
            has0 = len(n.input) > 0 and n.input[0] != ""
            has1 = len(n.input) > 1 and n.input[1] != ""
            if has0:
                src(n.input[0])
            var(b.input[0].name)
            cin, cout = b.input[1].name, b.output[0].name
            var(cin)
            used = set()
            names_in(b.node, used)
            use_cond = True
            if has1:
                assign([cin], [n.input[1]])
            else:
                use_cond = False
                for bn in b.node:
                    if bn.op_type == "Identity" and bn.domain in ("", "ai.onnx") and list(bn.input) == [cin] and list(bn.output) == [cout]:
                        continue
                    u = set()
                    names_in([bn], u)
                    if cin in u or cout in u:
                        use_cond = True
            k = max(len(n.input) - 2, 0)
            fins = [i.name for i in b.input[2:]]
            assign(fins, list(n.input[2:]))
            if (has0 or b.input[0].name in used) and not use_cond:
                remapped.add(cout)
            inits(b)
            body(b.node)
            if use_cond:
                assign([cin], [cout])
            assign(fins, [o.name for o in b.output[1:k + 1]])
            assign(list(n.output[:k]), fins)
            return
        if opts["use_operators"] and n.op_type in OPS:
            var(n.output[0])
            for x in n.input:
                ref(x)
            return
        for o in M.outputs_with_placeholders(n):
            var(o)
        for x in n.input:
            ref(x)

    def inits(g):  # _translate_graph_body (main graph or subgraph): the initializers first
        for init in getattr(g, "initializer", []):
            if opts["skip_initializers"] and int(np.prod(list(init.dims) or [1])) > 4:
                var(init.name)
            elif opts["inline_const"] and inlinable_tensor(init):
                consts.add(init.name)  # C13_02: recorded under the ONNX name
            else:
                var(init.name)

    inits(proto.graph)
    body(proto.graph.node)
    for o in proto.graph.output:
        src(o.name)
    if vr["sig_renamed"]:  # C13_01: the signature is renamed too, after the body and the return values
        for i in proto.graph.input:
            var(i.name)
    out, seen = [], set()
    for x in seq:
        if x not in seen:
            seen.add(x)
            out.append(x)
    return out


OPS = {"Add", "Sub", "Mul", "MatMul", "Div", "Pow", "And", "Or", "Greater", "Equal", "Lesser", "GreaterOrEqual", "LessOrEqual"}


def set_ops(table):
    """the use_operators table as regenerated from the source by harness/c13_tables.py"""
    global OPS
    OPS = {op for op, _ in table}


# ----------------------------------------------------------------------------------------------- one case

def in_scope(case, opts):
    """raise OutOfScope for (case, option) pairs the emission model leaves out; the reasons are counted"""
    proto = case["proto"]
    is_model = isinstance(proto, onnx.ModelProto)
    if opts["skip_initializers"]:
        if not is_model:
            raise OutOfScope("skip_initializers on a function")
        large = [i for i in proto.graph.initializer if int(np.prod(list(i.dims) or [1])) > 4]
        if not large and not VR.detect()["skip_wraps"]:
            raise OutOfScope("skip_initializers without a large initializer (known finding: indented source)")
        large_nested = [i for i in nested_initializers(proto) if int(np.prod(list(i.dims) or [1])) > 4]
        if any(i.data_type not in (TP.FLOAT, TP.INT8) for i in large + large_nested):
            raise OutOfScope("skip_initializers: large initializer of a type generate_rand refuses")
        large = large + large_nested
    vr = VR.detect()
    if opts["rename"] and is_model and proto.graph.initializer and not (vr["init_raw_key"] and vr["sig_renamed"]):
        raise OutOfScope("rename=True on a model with initializers (the twice-renamed Constant needs the mapper's state)")
    if opts["inline_const"] and is_model:
        from harness import c13_subinit as SI
        if SI.reuse_features(proto)["inline_reused"]:
            # Export/EmitCF.v computes the dictionary of inlined constants BEFORE the emission (one entry per name); the exporter
            # fills it while it walks: a name bound in two sibling graphs, once as an inlined constant, is left to the oracle
            raise OutOfScope("inline_const: a name bound in two graphs, once as an inlined constant (dictionary computed before the emission)")
    M.init_collision_guard(proto)
    graph_lit(proto)
    ivals_lit(proto)


def observe(case, opts):
    """run the real exporter -> dict(func=<Coq literal> | None when it raised, ...)"""
    import onnxscript
    try:
        code = onnxscript.proto2python(case["proto"], **opts)
    except Exception as e:  # noqa: BLE001 -- the model's answer to this must be None as well
        return {"func": None, "code": None, "statements": 0, "raised": f"{type(e).__name__}: {str(e)[:120]}"}
    try:
        lit, skipped, nst = parse_program(code)
    except SyntaxError as e:
        return {"func": "SYNTAX", "code": code, "statements": 0, "raised": f"SyntaxError: {e}"}
    want = [] if isinstance(case["proto"], onnx.ModelProto) else list(case["proto"].attribute)
    if list(LAST_APARAMS) != want:
        raise ParseError(f"attribute parameters on the def line {list(LAST_APARAMS)!r}, in the proto {want!r}")
    return {"func": f"(Some ({lit}, {clist(skipped, cstr)}))", "code": code, "statements": nst, "raised": None}


def coq_terms(case, opts, prelude=None, tag="0"):
    proto = case["proto"]
    is_model = isinstance(proto, onnx.ModelProto)
    raw_name = proto.graph.name if is_model else proto.name
    clean = "(cleanup kwlist)"
    seq = model_rename_sequence(proto, opts) if is_model else M.renamer_sequence(proto)
    ren = M.rename_term(proto, opts["rename"], seq, prelude, tag)
    pre = clean if (is_model and not VR.detect()["sig_renamed"]) else ren
    if not is_model and len(proto.attribute) and prelude is not None:
        # _handle_attrname_conflict (Export/AttrNames.v): the def line keeps the base names, the body uses the alternates
        from types import SimpleNamespace as NS
        shim = NS(graph=NS(initializer=[], node=proto.node, output=[NS(name=o) for o in proto.output], input=[]))
        seq2 = model_rename_sequence(shim, opts)
        attrs = clist(list(proto.attribute), cstr)
        prelude.append(f"Definition au{tag} : list string := Eval vm_compute in (map {ren} {clist(seq, M.cname)}).")
        prelude.append(f"Definition am{tag} := Eval vm_compute in (attr_map {ren} {attrs} au{tag} {clist(seq2, M.cname)}).")
        ren = f"(attr_apply {ren} {attrs} am{tag})"
    # C13_01: a model graph is translated inside a remapping scope, like a function body
    return pre, ren, f"(cleanup kwlist {cstr(raw_name)})", ivals_lit(proto), graph_lit(proto), cbool(not is_model or VR.detect()["model_scope"])


def option_terms(opts):
    """Coq terms of the use_operators / inline_const options with the repair flags the implementation shows"""
    vr = VR.detect()
    use_ops = f"(Some {cbool(vr['paren_neg'])})" if opts["use_operators"] else "None"
    inline = (f"(Some {{| fx_finite := {cbool(vr['finite_only'])}; fx_nonempty := {cbool(vr['nonempty_only'])}; "
              f"fx_src_ref := {cbool(vr['src_ref'])}; fx_init_raw := {cbool(vr['init_raw_key'])} |}})") if opts["inline_const"] else "None"
    return use_ops, inline


def coq_body(items):
    """items: list of (case, opts, obs).  One Coq file: indices of disagreeing cases; nested_okb of every case; the loop
    forms / If counts seen by the model (coverage)."""
    lines = []
    for k, (case, opts, obs) in enumerate(items):
        pre, ren, fname, iv, g, infun = coq_terms(case, opts, lines, str(k))
        lines.append(f"Definition g{k} : graph := {g}.")
        lines.append(f"Definition iv{k} : list (vname * attrv) := {iv}.")
        use_ops, inline = option_terms(opts)
        # Export/SubInits.v export_si = export_cf behind the treatment of initializers owned by subgraphs (the same term when no subgraph owns one)
        lines.append(f"Definition m{k} := refuse_hazard {cbool(VR.detect()['refuse_hazard'])} g{k} (export_si kwlist {pre} {ren} {infun} {use_ops} {inline} "
                     f"{cbool(opts['skip_initializers'])} {fname} iv{k} g{k}).")
        lines.append(f"Definition gd{k} : graph := Eval vm_compute in (strip_top false g{k}).")
        lines.append(f"Definition o{k} : option (func * list string) := {obs['func'] or 'None'}.")
        plain = OKB is not None and not (opts["use_operators"] or opts["inline_const"] or opts["skip_initializers"])
        lines.append(f"Definition h{k} : bool := {OKB + ' kwlist ' + pre + ' ' + ren + ' ' + infun + ' true iv' + str(k) + ' gd' + str(k) if plain else 'false'}.")
        lines.append(f"Definition hn{k} : bool := {OKB + ' kwlist ' + pre + ' ' + ren + ' ' + infun + ' false iv' + str(k) + ' gd' + str(k) if plain else 'false'}.")
        lines.append(f"Definition rt{k} : bool * bool * bool := {'rt_class m' + str(k) if plain else '(false, false, false)'}.")
        skip_only = OKB is not None and opts["skip_initializers"] and not opts["inline_const"]
        lines.append(f"Definition hs{k} : bool := {'nested_skip_ops_okb kwlist ' + pre + ' ' + ren + ' ' + infun + ' true ' + use_ops + ' iv' + str(k) + ' g' + str(k) if skip_only else 'false'}.")
        ops_only = OKB is not None and opts["use_operators"] and not (opts["inline_const"] or opts["skip_initializers"])
        lines.append(f"Definition ho{k} : bool := {'nested_ops_okb kwlist ' + pre + ' ' + ren + ' ' + infun + ' true ' + use_ops + ' iv' + str(k) + ' gd' + str(k) if ops_only else 'false'}.")
    n = len(items)
    lines.append(f"Eval vm_compute in (disagreeing_cf 0 {clist([f'(m{k}, o{k})' for k in range(n)])}).")
    lines.append(f"Eval vm_compute in {clist([f'h{k}' for k in range(n)])}.")
    lines.append(f"Eval vm_compute in {clist([f'is_some m{k}' for k in range(n)])}.")
    lines.append(f"Eval vm_compute in {clist([f'hn{k}' for k in range(n)])}.")
    lines.append(f"Eval vm_compute in {clist([f'rt{k}' for k in range(n)])}.")
    lines.append(f"Eval vm_compute in {clist([f'hs{k}' for k in range(n)])}.")
    lines.append(f"Eval vm_compute in {clist([f'ho{k}' for k in range(n)])}.")
    return "\n".join(lines)


OKB = "nested_okb"
REQUIRES = ["OV.Gen.ExportTables", "OV.Export.Cleanup", "OV.Export.Unique", "OV.Graph.Syntax", "OV.Script.Syntax", "OV.Export.Emit", "OV.Export.EmitCF", "OV.Export.RoundTripClass", "OV.Export.EmitOpts", "OV.Export.AttrNames", "OV.Export.SubInits", "OV.Export.Placeholders"]


# ----------------------------------------------------------------------------------------------- hand-made nested models

SH = [3]


def _vi(n, t=TP.FLOAT, s=None):
    return h.make_tensor_value_info(n, t, SH if s is None else s)


def _feature_protos():
    """(id, proto, kind): one nested-emission feature each; tensors float[3], scalars bool / int64"""
    N = h.make_node
    f32 = lambda v, n="value": nh.from_array(np.asarray(v, dtype=np.float32), n)  # noqa: E731
    i64 = lambda v, n="value": nh.from_array(np.asarray(v, dtype=np.int64), n)  # noqa: E731
    b1 = lambda v, n="value": nh.from_array(np.asarray(v, dtype=np.bool_), n)  # noqa: E731

    def if_node(cond, outs, tnodes, touts, enodes, eouts, else_first=False):
        tb = h.make_graph(tnodes, "then_g", [], [_vi(o) for o in touts])
        eb = h.make_graph(enodes, "else_g", [], [_vi(o) for o in eouts])
        if else_first:
            return N("If", [cond], outs, else_branch=eb, then_branch=tb)
        n = N("If", [cond], outs, then_branch=tb, else_branch=eb)
        return n

    def cond_nodes(src="x", out="c", thr=1.0, thr_name="thr"):
        return [N("ReduceSum", [src], ["s_" + out], keepdims=0), N("Constant", [], [thr_name], value=f32(thr)), N("Greater", ["s_" + out, thr_name], [out])]

    def model(name, nodes, ins=("x",), outs=("y",), inits=(), in_extra=()):
        g = h.make_graph(nodes, "g", [_vi(n) for n in ins] + list(in_extra), [_vi(n) for n in outs], initializer=list(inits))
        return name, h.make_model(g, opset_imports=[h.make_opsetid("", G.OPSET)], ir_version=9), "model"

    def function(name, nodes, ins=("x",), outs=("y",)):
        return name, h.make_function("this", "f", list(ins), list(outs), nodes, opset_imports=[h.make_opsetid("", G.OPSET)]), "function"

    # -- If
    yield model("if:basic", cond_nodes() + [if_node("c", ["r"], [N("Neg", ["x"], ["t1"])], ["t1"], [N("Abs", ["x"], ["e1"])], ["e1"]), N("Identity", ["r"], ["y"])])
    yield model("if:else-attribute-first", cond_nodes() + [if_node("c", ["r"], [N("Neg", ["x"], ["t1"])], ["t1"], [N("Abs", ["x"], ["e1"])], ["e1"], else_first=True),
                                                           N("Identity", ["r"], ["y"])])
    yield model("if:two-outputs", cond_nodes() + [if_node("c", ["r", "q"], [N("Neg", ["x"], ["t1"]), N("Relu", ["x"], ["t2"])], ["t1", "t2"],
                                                          [N("Abs", ["x"], ["e1"]), N("Tanh", ["e1"], ["e2"])], ["e2", "e1"]), N("Sub", ["r", "q"], ["y"])])
    yield model("if:outer-scope-and-initializer", cond_nodes() + [N("Abs", ["x"], ["a"]),
                                                                  if_node("c", ["r"], [N("Add", ["a", "w.0"], ["t1"])], ["t1"], [N("Mul", ["x", "w.0"], ["e1"])], ["e1"]),
                                                                  N("Identity", ["r"], ["y"])], inits=[f32([1.0, 2.0, 3.0], "w.0")])
    yield model("if:dirty-names", cond_nodes(out="if") + [if_node("if", ["layer.0/r"], [N("Neg", ["x"], ["9"])], ["9"], [N("Abs", ["x"], ["e:1"])], ["e:1"]),
                                                          N("Identity", ["layer.0/r"], ["y"])])
    yield model("if:nested", cond_nodes() + cond_nodes(out="c2", thr=-1.0, thr_name="thr2") + [
        if_node("c", ["r"], [if_node("c2", ["ri"], [N("Neg", ["x"], ["t1"])], ["t1"], [N("Abs", ["x"], ["e1"])], ["e1"]), N("Relu", ["ri"], ["t2"])], ["t2"],
                [N("Tanh", ["x"], ["e2"])], ["e2"]), N("Identity", ["r"], ["y"])])
    yield model("if:constant-branch-outputs", cond_nodes() + [if_node("c", ["r"], [N("Constant", [], ["k1"], value=f32([1.0, 2.0, 3.0]))], ["k1"],
                                                                      [N("Constant", [], ["k2"], value=f32([0.5, 0.5, 0.5]))], ["k2"]), N("Add", ["r", "x"], ["y"])])
    yield model("if:scalar-constants-in-branch", cond_nodes() + [if_node("c", ["r"], [N("Constant", [], ["k1"], value=f32(2.0)), N("Mul", ["x", "k1"], ["t1"])], ["t1"],
                                                                         [N("Constant", [], ["k2"], value=f32(-3.0)), N("Pow", ["x", "k2"], ["e1"])], ["e1"]),
                                                                 N("Identity", ["r"], ["y"])])
    # -- Loop, while form (model graphs)
    def while_body(extra=(), cond_thr=3):
        return h.make_graph([N("Constant", [], ["one"], value=i64(1)), N("Add", ["k", "one"], ["k2"]), N("Add", ["acc", "x"], ["acc2"])] + list(extra) +
                            [N("Constant", [], ["lim"], value=i64(cond_thr)), N("Less", ["k2", "lim"], ["c_out"])], "body",
                            [_vi("it", TP.INT64, []), _vi("c_in", TP.BOOL, []), _vi("k", TP.INT64, []), _vi("acc")],
                            [_vi("c_out", TP.BOOL, []), _vi("k2", TP.INT64, []), _vi("acc2")])

    pre = [N("Constant", [], ["k0"], value=i64(0)), N("Identity", ["k0"], ["k0c"]), N("Constant", [], ["true"], value=b1(True)), N("Identity", ["true"], ["c0"]),
           N("Identity", ["x"], ["x0"])]
    yield model("while:basic", pre + [N("Loop", ["", "c0", "k0c", "x0"], ["kf", "accf"], body=while_body()), N("Identity", ["accf"], ["y"])])
    yield model("while:if-in-body", pre + [N("Loop", ["", "c0", "k0c", "x0"], ["kf", "accf"], body=h.make_graph(
        [N("Constant", [], ["one"], value=i64(1)), N("Add", ["k", "one"], ["k2"])] + cond_nodes(src="acc", out="big", thr=4.0) +
        [if_node("big", ["acc2"], [N("Neg", ["acc"], ["t1"])], ["t1"], [N("Add", ["acc", "x"], ["e1"])], ["e1"]),
         N("Constant", [], ["lim"], value=i64(3)), N("Less", ["k2", "lim"], ["c_out"])], "body",
        [_vi("it", TP.INT64, []), _vi("c_in", TP.BOOL, []), _vi("k", TP.INT64, []), _vi("acc")],
        [_vi("c_out", TP.BOOL, []), _vi("k2", TP.INT64, []), _vi("acc2")])), N("Identity", ["accf"], ["y"])])
    yield model("while:in-if-branch", pre + cond_nodes() + [
        if_node("c", ["r"], [N("Loop", ["", "c0", "k0c", "x0"], ["kf", "accf"], body=while_body())], ["accf"], [N("Abs", ["x"], ["e1"])], ["e1"]),
        N("Identity", ["r"], ["y"])])
    yield model("while:initializer-used-in-body", pre + [N("Loop", ["", "c0", "k0c", "x0"], ["kf", "accf"], body=while_body(extra=[N("Mul", ["acc2", "w"], ["unused"])])),
                                                         N("Add", ["accf", "w"], ["y"])], inits=[f32([1.0, 2.0, 3.0], "w")])
    yield model("while:large-initializer", pre + [N("Loop", ["", "c0", "k0c", "x0"], ["kf", "accf"], body=while_body(extra=[N("ReduceSum", ["big_w"], ["unused"], keepdims=0)])),
                                                  N("Identity", ["accf"], ["y"])], inits=[f32(np.arange(8, dtype=np.float32), "big_w")])
    yield model("while:swap", pre + [N("Identity", ["x"], ["x1"]), N("Loop", ["", "c0", "k0c", "x0", "x1"], ["kf", "pf", "qf"], body=h.make_graph(
        [N("Constant", [], ["one"], value=i64(1)), N("Add", ["k", "one"], ["k2"]), N("Constant", [], ["lim"], value=i64(1)), N("Less", ["k2", "lim"], ["c_out"])], "body",
        [_vi("it", TP.INT64, []), _vi("c_in", TP.BOOL, []), _vi("k", TP.INT64, []), _vi("p"), _vi("q")],
        [_vi("c_out", TP.BOOL, []), _vi("k2", TP.INT64, []), _vi("q"), _vi("p")])), N("Sub", ["pf", "qf"], ["y"])])
    # -- Loop, counted forms
    def for_body(use_iter=False, direct_cond=False):
        nodes = [N("Add", ["acc", "x"], ["acc2"])]
        if use_iter:
            nodes = [N("Cast", ["it"], ["itf"], to=TP.FLOAT), N("Mul", ["acc", "itf"], ["accm"]), N("Add", ["accm", "x"], ["acc2"])]
        cout = "c_in" if direct_cond else "c_out"
        if not direct_cond:
            nodes.append(N("Identity", ["c_in"], ["c_out"]))
        return h.make_graph(nodes, "body", [_vi("it", TP.INT64, []), _vi("c_in", TP.BOOL, []), _vi("acc")], [_vi(cout, TP.BOOL, []), _vi("acc2")])

    nin = [_vi("n", TP.INT64, [])]
    for tag, kw in (("for:basic", {}), ("for:iteration-number-used", {"use_iter": True}), ("for:cond-passed-directly", {"direct_cond": True})):
        nodes = [N("Identity", ["x"], ["x0"]), N("Loop", ["n", "", "x0"], ["accf"], body=for_body(**kw)), N("Identity", ["accf"], ["y"])]
        yield function(tag, nodes, ins=("x", "n"))
        yield model(tag + ":in-model-graph", nodes, in_extra=nin)
    yield function("for:nested-for", [N("Identity", ["x"], ["x0"]), N("Loop", ["n", "", "x0"], ["accf"], body=h.make_graph(
        [N("Identity", ["acc"], ["a0"]), N("Loop", ["n", "", "a0"], ["inner"], body=h.make_graph(
            [N("Add", ["acc_i", "x"], ["acc_i2"]), N("Identity", ["ci_in"], ["ci_out"])], "inner_body",
            [_vi("jt", TP.INT64, []), _vi("ci_in", TP.BOOL, []), _vi("acc_i")], [_vi("ci_out", TP.BOOL, []), _vi("acc_i2")])),
         N("Identity", ["inner"], ["acc2"]), N("Identity", ["c_in"], ["c_out"])], "body",
        [_vi("it", TP.INT64, []), _vi("c_in", TP.BOOL, []), _vi("acc")], [_vi("c_out", TP.BOOL, []), _vi("acc2")])), N("Identity", ["accf"], ["y"])], ins=("x", "n"))
    yield function("for:if-in-body", [N("Identity", ["x"], ["x0"]), N("Loop", ["n", "", "x0"], ["accf"], body=h.make_graph(
        cond_nodes(src="acc", out="big", thr=4.0) + [if_node("big", ["acc2"], [N("Neg", ["acc"], ["t1"])], ["t1"], [N("Add", ["acc", "x"], ["e1"])], ["e1"]),
                                                     N("Identity", ["c_in"], ["c_out"])], "body",
        [_vi("it", TP.INT64, []), _vi("c_in", TP.BOOL, []), _vi("acc")], [_vi("c_out", TP.BOOL, []), _vi("acc2")])), N("Identity", ["accf"], ["y"])], ins=("x", "n"))
    yield function("while:in-function", [N("Constant", [], ["k0"], value=i64(0)), N("Identity", ["k0"], ["k0c"]), N("Constant", [], ["true"], value=b1(True)),
                                         N("Identity", ["true"], ["c0"]), N("Identity", ["x"], ["x0"]),
                                         N("Loop", ["", "c0", "k0c", "x0"], ["kf", "accf"], body=while_body()), N("Identity", ["accf"], ["y"])])
    yield function("if:in-function", cond_nodes() + [if_node("c", ["r"], [N("Neg", ["x"], ["t1"])], ["t1"], [N("Abs", ["x"], ["e1"])], ["e1"]), N("Identity", ["r"], ["y"])])
    # trip count AND condition (printed as for + `if not c: break`), condition input present
    yield function("forbreak:trip-and-condition", [N("Constant", [], ["true"], value=b1(True)), N("Identity", ["true"], ["c0"]), N("Identity", ["x"], ["x0"]),
                                                   N("Loop", ["n", "c0", "x0"], ["accf"], body=h.make_graph(
                                                       [N("Add", ["acc", "x"], ["acc2"])] + cond_nodes(src="acc2", out="c_raw", thr=50.0) + [N("Not", ["c_raw"], ["c_out"])], "body",
                                                       [_vi("it", TP.INT64, []), _vi("c_in", TP.BOOL, []), _vi("acc")], [_vi("c_out", TP.BOOL, []), _vi("acc2")])),
                                                   N("Identity", ["accf"], ["y"])], ins=("x", "n"))
    # trip count AND a run-time condition operand, the body only passes the condition through: the loop must not run at
    # all when the condition is false at entry (feeds: the condition is false with a positive trip count)
    for kind in (function, model):
        yield kind("forpass:trip-and-runtime-condition" + (":in-model-graph" if kind is model else ""),
                   cond_nodes(src="x", out="c0", thr=2.5) + [
                       N("Identity", ["x"], ["x0"]),
                       N("Loop", ["n", "c0", "x0"], ["accf"], body=h.make_graph(
                           [N("Add", ["acc", "x"], ["acc2"]), N("Identity", ["c_in"], ["c_out"])], "body",
                           [_vi("it", TP.INT64, []), _vi("c_in", TP.BOOL, []), _vi("acc")], [_vi("c_out", TP.BOOL, []), _vi("acc2")])),
                       N("Identity", ["accf"], ["y"])], **({"ins": ("x", "n")} if kind is function else {"in_extra": nin}))
    # trip count, no condition input, the condition computed in the body (cond_out mentioned, cond_in not)
    for kind in (function, model):
        yield kind("forbreak:no-condition-input" + (":in-model-graph" if kind is model else ""),
                   [N("Identity", ["x"], ["x0"]),
                    N("Loop", ["n", "", "x0"], ["accf"], body=h.make_graph(
                        [N("Add", ["acc", "x"], ["acc2"])] + cond_nodes(src="acc2", out="c_raw", thr=50.0) + [N("Not", ["c_raw"], ["c_out"])], "body",
                        [_vi("it", TP.INT64, []), _vi("c_in", TP.BOOL, []), _vi("acc")], [_vi("c_out", TP.BOOL, []), _vi("acc2")])),
                    N("Identity", ["accf"], ["y"])], **({"ins": ("x", "n")} if kind is function else {"in_extra": nin}))
    # a Loop that mentions neither stop mechanism (never terminates; the exporter must refuse it): tie only, never run
    for kind in (function, model):
        yield kind("nostop:no-trip-count-no-condition" + (":in-model-graph" if kind is model else ""),
                   [N("Identity", ["x"], ["x0"]), N("Loop", ["", "", "x0"], ["accf"], body=for_body()), N("Identity", ["accf"], ["y"])])
    # ---- session 6 families -----------------------------------------------------------------------------------------
    # values named like the keyword arguments printed on the same line (`keepdims = opset.ReduceSum(x, keepdims=1)`)
    yield model("names:value-named-like-node-attribute", cond_nodes() + [
        if_node("c", ["axis"], [N("ReduceSum", ["x"], ["keepdims"], keepdims=1), N("Add", ["x", "keepdims"], ["to"])], ["to"],
                [N("Cast", ["x"], ["value"], to=1)], ["value"]), N("Identity", ["axis"], ["y"])])
    # names that collide after the clean-up, next to names that look like the suffixed / shortened results
    yield model("names:collide-after-cleanup-and-suffix", cond_nodes() + [
        N("Neg", ["x"], ["a.b"]), N("Abs", ["x"], ["a_b"]), N("Relu", ["x"], ["a_b_0"]), N("Tanh", ["x"], ["a:b"]), N("Identity", ["x"], ["v1"]),
        N("Sigmoid", ["x"], ["v1_0"]),
        if_node("c", ["r"], [N("Sub", ["a.b", "a_b"], ["t1"]), N("Add", ["t1", "a_b_0"], ["t2"])], ["t2"],
                [N("Mul", ["a:b", "v1"], ["e1"]), N("Add", ["e1", "v1_0"], ["e2"])], ["e2"]), N("Identity", ["r"], ["y"])])
    # a 0-d constant and a shape-[1] constant of the same value, FLOAT and INT64, in rank-sensitive positions
    g = h.make_graph([N("Constant", [], ["s"], value=f32(2.0)), N("Constant", [], ["v"], value=f32([2.0])),
                      N("Constant", [], ["si"], value=i64(1)), N("Constant", [], ["vi"], value=i64([1])),
                      N("Mul", ["x", "s"], ["a"]), N("Mul", ["a", "v"], ["b"]), N("Gather", ["b", "si"], ["g0"]), N("Gather", ["b", "vi"], ["g1"]),
                      N("Unsqueeze", ["x", "vi"], ["u"]), N("Identity", ["b"], ["y"])] , "g", [_vi("x")],
                     [_vi("y"), _vi("g0", TP.FLOAT, []), _vi("g1", TP.FLOAT, [1]), _vi("u", TP.FLOAT, [3, 1])])
    yield "consts:scalar-vs-one-element-vector", h.make_model(g, opset_imports=[h.make_opsetid("", G.OPSET)], ir_version=9), "model"
    # nan, inf, -inf, -0.0 as 0-d and as vector constants; x / -0.0 tells the two zeros apart
    yield model("consts:nonfinite-and-negative-zero", cond_nodes() + [
        N("Constant", [], ["k.nan"], value=f32(np.nan)), N("Constant", [], ["k.inf"], value=f32(np.inf)), N("Constant", [], ["k.ninf"], value=f32(-np.inf)),
        N("Constant", [], ["k.nz"], value=f32(-0.0)), N("Constant", [], ["k.v"], value=f32([np.nan, 1.0, -0.0])), N("Constant", [], ["k.z"], value=f32([-0.0, 0.0])),
        N("Max", ["x", "k.ninf"], ["m1"]), N("Min", ["m1", "k.inf"], ["m2"]), N("Div", ["m2", "k.nz"], ["d1"]),
        if_node("c", ["r"], [N("Add", ["d1", "k.v"], ["t1"]), N("Pow", ["k.nz", "x"], ["t0"]), N("Add", ["t1", "t0"], ["t2"])], ["t2"],
                [N("Mul", ["x", "k.nan"], ["e0"]), N("ReduceSum", ["k.z"], ["e1"], keepdims=0), N("Div", ["x", "e1"], ["e2"]), N("Add", ["e0", "e2"], ["e3"])], ["e3"]),
        N("Identity", ["r"], ["y"])])
    # an If inside a Loop inside an If, every level reading outer values whose names need the clean-up
    deep_body = h.make_graph(
        [N("Constant", [], ["one"], value=i64(1)), N("Add", ["k", "one"], ["k+1"])] + cond_nodes(src="acc", out="big", thr=4.0, thr_name="thr.in") +
        [if_node("big", ["acc:2"], [N("Sub", ["acc", "outer.abs"], ["t-1"])], ["t-1"], [N("Add", ["acc", "1st"], ["e 1"]), N("Mul", ["e 1", "w.0"], ["e 2"])], ["e 2"]),
         N("Constant", [], ["lim"], value=i64(3)), N("Less", ["k+1", "lim"], ["c.out"])], "body",
        [_vi("it", TP.INT64, []), _vi("c.in", TP.BOOL, []), _vi("k", TP.INT64, []), _vi("acc")],
        [_vi("c.out", TP.BOOL, []), _vi("k+1", TP.INT64, []), _vi("acc:2")])
    yield model("deep:if-in-loop-in-if:outer-names-need-cleanup",
                pre + [N("Abs", ["x"], ["outer.abs"]), N("Neg", ["x"], ["1st"])] + cond_nodes() + [
                    if_node("c", ["res/0"], [N("Loop", ["", "c0", "k0c", "x0"], ["k.f", "acc.f"], body=deep_body)], ["acc.f"],
                            [N("Mul", ["outer.abs", "1st"], ["e.2"]), N("Add", ["e.2", "w.0"], ["e.3"])], ["e.3"]),
                    N("Identity", ["res/0"], ["y"])], inits=[f32([1.0, 2.0, 3.0], "w.0")])
    # operator form and inlined literals inside bodies: a negative literal as the base of a power
    yield model("operators:negative-literal-power-base", [N("Constant", [], ["m2"], value=f32(-2.0)), N("Pow", ["m2", "x"], ["p"]), N("Identity", ["p"], ["y"])])
    yield model("operators:in-branches", cond_nodes() + [if_node("c", ["r"], [N("Constant", [], ["k1"], value=f32(2.0)), N("Mul", ["x", "k1"], ["t1"])], ["t1"],
                                                                 [N("Constant", [], ["k2"], value=f32(-1.5)), N("Sub", ["k2", "x"], ["e1"])], ["e1"]),
                                                         N("Identity", ["r"], ["y"])])


def feature_cases():
    out = []
    feeds_x = [np.array(a, dtype=np.float32) for a in ([1, -2, 3], [0, 0.5, -1], [4, 4, 4], [2, 0, 1])]
    for name, proto, kind in _feature_protos():
        has_n = ("n" in list(proto.input)) if kind == "function" else any(i.name == "n" for i in proto.graph.input)
        feeds = [dict({"x": v}, **({"n": np.array(k, dtype=np.int64)} if has_n else {})) for v, k in zip(feeds_x, (3, 0, 1, 2))]
        case = {"id": "cf:" + name, "kind": kind, "origin": "cf-features", "profile": "cf-features", "proto": proto, "feeds": feeds, "large_inits": [],
                "tie_only": name.startswith("nostop:")}
        if kind == "model":
            onnx.checker.check_model(proto, full_check=True)
            case["large_inits"] = [(i.name, nh.to_array(i)) for i in proto.graph.initializer if int(np.prod(list(i.dims) or [1])) > 4]
        else:
            ins = [_vi(n, TP.INT64, []) if n == "n" else _vi(n) for n in proto.input]
            case["iface"] = (ins, [_vi(o) for o in proto.output])
        out.append(case)
    return out


def nested_cases(rng, n_models, n_funcs):
    """-> (cases, rejected): generated models / functions that contain If or Loop (depth <= 2) + the hand-made features"""
    models, r1 = G.random_models(rng, n_models, profiles=["clean", "clean", "consts", "collide", "forcond", "swap", "clean", "forloop"])
    funcs, r2 = G.random_functions(rng, n_funcs)
    gen = [c for c in models + funcs if has_control_flow(c["proto"]) and depth_of(c["proto"]) <= 2]
    # functions with attribute parameters whose names equal value names (<attr>, <attr>_0, <attr>_1 at every nesting level)
    from harness import c13_streams as S
    attrs, r3 = S.attr_nesting_cases(rng, max(4, n_funcs))
    for c in attrs:
        c["tie_extra"] = True
    hand = [dict(c, tie_extra=True) for c in G.attr_conflict_cases()]
    return feature_cases() + gen + hand + attrs, r1 + r2 + r3


# ----------------------------------------------------------------------------------------------- operator text (Export/OpText.v)

def toks_lit(text):
    """Python tokens of an expression text -> Coq `list tok` literal (Export/OpText.v): NAME, non-negative NUMBER, a
    bracketed list display as ONE atom (its reading by ast.parse), everything else a symbol."""
    import io
    import tokenize
    toks = [t for t in tokenize.generate_tokens(io.StringIO(text).readline)
            if t.type not in (tokenize.NEWLINE, tokenize.NL, tokenize.ENDMARKER, tokenize.COMMENT, tokenize.INDENT, tokenize.DEDENT)]
    out, i = [], 0
    while i < len(toks):
        t = toks[i]
        if t.type == tokenize.NAME:
            out.append(f"(TName {cstr(t.string)})")
        elif t.type == tokenize.NUMBER:
            v = ast.literal_eval(t.string)
            if isinstance(v, bool) or not isinstance(v, (int, float)):
                raise ParseError(f"number token {t.string!r}")
            out.append(f"(TInt {cz(v)})" if isinstance(v, int) else f"(TFloat {cz(f32_bits(v))})")
        elif t.type == tokenize.OP and t.string == "[":
            depth, j = 0, i
            while j < len(toks):
                depth += toks[j].string == "["
                depth -= toks[j].string == "]"
                if depth == 0:
                    break
                j += 1
            if depth != 0 or toks[i].start[0] != toks[j].end[0]:
                raise ParseError("unbalanced / multi-line list display")
            seg = text.splitlines()[t.start[0] - 1][t.start[1]:toks[j].end[1]]
            out.append(f"(TList {expr_lit(ast.parse(seg, mode='eval').body, set())})")
            i = j
        elif t.type == tokenize.OP:
            out.append(f"(TSym {cstr(t.string)})")
        else:
            raise ParseError(f"token {t.string!r}")
        i += 1
    return clist(out)


def operator_lines(code):
    """every assignment of the generated source whose right-hand side is an operator expression ->
    [(text of the right-hand side, Coq token list, Coq expr read by ast.parse through expr_lit)]"""
    rows = []
    for node in ast.walk(ast.parse(code)):
        if isinstance(node, ast.Assign) and isinstance(node.value, (ast.BinOp, ast.Compare, ast.UnaryOp)):
            seg = ast.get_source_segment(code, node.value)
            # the segment of a parenthesized left operand starts inside the parenthesis: take the text after ` = `
            line = code.splitlines()[node.lineno - 1]
            rhs = line.split(" = ", 1)[1].split("  #", 1)[0] if " = " in line and node.lineno == node.end_lineno else seg
            rows.append((rhs, toks_lit(rhs), expr_lit(node.value, set())))
    return rows


def random_expressions(rng, n):
    """expression texts over names, non-negative numbers, list displays, parentheses, unary minus and the binary
    operators of the exporter's table (+ `%`, `!=`); the reading by ast.parse (None for a comparison chain)"""
    names = ["a", "b", "c", "x1", "nan", "inf"]
    nums = ["0", "1", "2", "7", "10", "0.5", "2.0", "1e-05", "3.25", "0.0", "1e+20"]
    lists = ["[1, 2]", "[1, -2, 3]", "[0.5]", "[1.0, -2.5]", "[]", "[-1]"]
    bins = ["+", "-", "*", "@", "/", "**", "&", "|", ">", "==", "<", ">=", "<=", "!=", "%"]

    def gen(d):
        r = rng.random()
        if d <= 0 or r < 0.3:
            k = rng.random()
            return rng.choice(names) if k < 0.45 else (rng.choice(nums) if k < 0.85 else rng.choice(lists))
        if r < 0.42:
            return "-" + gen(d - 1)
        if r < 0.55:
            return "(" + gen(d - 1) + ")"
        return gen(d - 1) + " " + rng.choice(bins) + " " + gen(d - 1)

    rows = []
    while len(rows) < n:
        text = gen(rng.choice([1, 2, 2, 3, 3, 4]))
        try:
            tree = ast.parse(text, mode="eval").body
        except SyntaxError:
            continue
        try:
            want = f"(Some {expr_lit(tree, set())})"
        except ParseError as e:
            if "comparison chain" not in str(e):
                raise
            want = "None"
        rows.append((text, toks_lit(text), want))
    return rows
