(* C13 (session 6): proofs about Export/EmitOpts.v -- the Loop refusal is exactly characterised; the program printed with
   skip_initializers means what the graph means (through Export/EmitCFProofs.export_cf_sound on the lifted graph and the
   coincidence lemma of Graph/SemProofs.v). *)
From Coq Require Import List String Ascii Bool Arith ZArith Lia.
Require Import OV.Export.Cleanup OV.Export.CleanupProofs.
Require Import OV.Graph.Syntax OV.Graph.Names OV.Graph.Sem OV.Graph.SemProofs OV.Script.Syntax OV.Script.Translate OV.Gen.ScriptTables
               OV.Script.PySem OV.Export.Emit OV.Export.EmitProofs OV.Export.EmitCF OV.Export.EmitCFProofs OV.Export.EmitOpts.
Import ListNotations.
Local Open Scope string_scope.

(* ---- 1. the Loop refusal ------------------------------------------------------------------------------------- *)
Theorem emit_loop_refuses_iff : forall rename infun inline rm consts sub ins outs bn body t,
  emit_loop rename infun inline rm consts sub ins outs [] ((bn, body) :: t) = None <->
  (loop_refused infun ins body = true \/ sub body = None).
Proof.
  intros rename infun inline rm consts sub ins outs bn body t. unfold emit_loop, loop_refused.
  destruct (loop_form_of ins body) as [form|] eqn:Ef.
  2:{ split; [intros _; left; reflexivity | intros _; reflexivity]. }
  unfold loop_form_of in Ef.
  destruct (g_ins body) as [|iv [|cin fins]]; try discriminate Ef.
  destruct (g_outs body) as [|cout fouts]; try discriminate Ef.
  destruct (sub body) as [sb|].
  - destruct form; destruct infun; cbn [negb]; split; intros H; try discriminate H; try (left; reflexivity); try reflexivity;
      try (destruct H as [H|H]; discriminate H).
  - split; [intros _; right; reflexivity | intros _; destruct form; reflexivity].
Qed.

(* the three printed forms and the refusal are all there is *)
Theorem loop_form_cases : forall infun ins body,
  loop_refused infun ins body = true \/
  loop_form_of ins body = Some FWhile \/ (loop_form_of ins body = Some FFor /\ infun = true) \/ loop_form_of ins body = Some FForBreak.
Proof.
  intros infun ins body. unfold loop_refused. destruct (loop_form_of ins body) as [[| | |]|]; auto.
  destruct infun; auto.
Qed.

(* the refusal as a property of the node alone: which of the two stop mechanisms it mentions *)
Theorem loop_refused_no_stop : forall ins body iv cin fins cout fouts,
  g_ins body = iv :: cin :: fins -> g_outs body = cout :: fouts ->
  (loop_refused true ins body = true <->
   has_in ins 0 = false /\ memb iv (names_nodes (g_nodes body)) = false /\ has_in ins 1 = false /\ cond_used cin cout (g_nodes body) = false).
Proof.
  intros ins body iv cin fins cout fouts Hi Ho. unfold loop_refused, loop_form_of. rewrite Hi, Ho.
  destruct (has_in ins 0); destruct (memb iv (names_nodes (g_nodes body))); destruct (has_in ins 1);
    destruct (cond_used cin cout (g_nodes body)); cbn; split; intros H; try discriminate H; try reflexivity;
    try (repeat split; reflexivity); try (destruct H as (A & B & C & D); discriminate).
Qed.

Theorem refuse_hazard_iff : forall A flag g (m : option A),
  refuse_hazard flag g m = None <-> ((flag = true /\ hazard_nodes (depth_graph g) (g_nodes g) = true) \/ m = None).
Proof.
  intros A flag g m. unfold refuse_hazard. destruct flag; cbn [andb].
  - destruct (hazard_nodes (depth_graph g) (g_nodes g)); split; intros H; auto.
    + destruct H as [[_ H]|H]; [discriminate H | exact H].
  - split; intros H; auto. destruct H as [[H _]|H]; [discriminate H | exact H].
Qed.

(* ---- 2. skip_initializers ------------------------------------------------------------------------------------ *)
Lemma init_consts_none : forall rename skip ivals, init_consts rename None skip ivals = [].
Proof.
  intros rename skip ivals. unfold init_consts.
  assert (G : forall acc : cdict, fold_left (fun (acc : cdict) (iv : vname * attrv) => if skipped skip iv then acc else acc) ivals acc = acc).
  { induction ivals as [|iv t IH]; intros acc; [reflexivity|]. cbn [fold_left]. destruct (skipped skip iv); apply IH. }
  apply G.
Qed.

Lemma depth_lift : forall ivals g, depth_graph (lift_skipped ivals g) = depth_graph g.
Proof. intros ivals [a b c d]. reflexivity. Qed.

Lemma scan_lift : forall rename infun ivals g,
  scan rename infun None false (kept_ivals ivals) (lift_skipped ivals g) = scan rename infun None true ivals g.
Proof.
  intros rename infun ivals g. unfold scan. rewrite !init_consts_none, depth_lift. reflexivity.
Qed.

Lemma skipped_false : forall iv, skipped false iv = false.
Proof. intros iv. reflexivity. Qed.

Lemma filter_skipped_false : forall l, filter (skipped false) l = [].
Proof. induction l as [|iv t IH]; [reflexivity|]. cbn [filter]. rewrite skipped_false. exact IH. Qed.

Lemma emit_inits_skip : forall kw rename rm ivals,
  emit_all (emit_init_cf kw rename None true rm) ivals = emit_all (emit_init_cf kw rename None false rm) (kept_ivals ivals).
Proof.
  intros kw rename rm. induction ivals as [|iv t IH]; [reflexivity|].
  unfold kept_ivals. cbn [emit_all filter]. fold (kept_ivals t).
  destruct (skipped true iv) eqn:E; cbn [negb].
  - unfold emit_init_cf at 1. rewrite E. rewrite IH. destruct (emit_all (emit_init_cf kw rename None false rm) (kept_ivals t)); reflexivity.
  - cbn [emit_all]. rewrite IH. unfold emit_init_cf at 1 3. rewrite E, skipped_false. reflexivity.
Qed.

Theorem export_skip_is_lift : forall kw prename rename infun use_ops fname ivals g f sk,
  export_cf kw prename rename infun use_ops None true fname ivals g = Some (f, sk) ->
  let rm := fst (scan rename infun None true ivals g) in
  export_cf kw prename rename infun use_ops None false fname (kept_ivals ivals) (lift_skipped ivals g) =
    Some ({| f_name := f_name f; f_tparams := (map prename (map fst (skipped_ivals ivals)) ++ f_tparams f)%list;
             f_aparams := f_aparams f; f_body := f_body f |}, []) /\
  sk = map (tr_with rename rm) (map fst (skipped_ivals ivals)).
Proof.
  intros kw prename rename infun use_ops fname ivals g f sk He rm. subst rm.
  unfold export_cf in *. rewrite scan_lift. destruct (scan rename infun None true ivals g) as [rm consts]. cbn [fst].
  rewrite <- emit_inits_skip. rewrite depth_lift.
  destruct (emit_all (emit_init_cf kw rename None true rm) ivals) as [si|]; [|discriminate He].
  destruct g as [ins inits nodes outs]. cbn [g_ins g_inits g_nodes g_outs lift_skipped] in *.
  destruct (emit_nodes kw rename infun use_ops None rm consts (depth_graph (Graph ins inits nodes outs)) nodes) as [sn|]; [|discriminate He].
  inversion He; subst f sk. clear He. cbn [f_name f_tparams f_aparams f_body]. split.
  - rewrite filter_skipped_false. cbn [map]. rewrite map_app. reflexivity.
  - unfold skipped_ivals. rewrite map_map. reflexivity.
Qed.

Section SkipSem.
  Variable V : Type.
  Variable sem : string -> string -> list (string * attrv) -> list (option V) -> option (list V).
  Variable truth : V -> option bool.
  Variable trip : V -> option nat.
  Variable of_nat : nat -> V.
  Variable of_bool : bool -> V.
  Variable limit : nat.

  Notation env := (list (vname * V)).

  Lemma lookup_app : forall (a b : env) x, lookup (a ++ b)%list x = match lookup a x with Some v => Some v | None => lookup b x end.
  Proof.
    induction a as [|[y v] t IH]; intros b x; [reflexivity|]. cbn [app lookup]. destruct (String.eqb x y); [reflexivity | apply IH].
  Qed.

  Lemma lookup_notin : forall (a : env) x, ~ In x (map fst a) -> lookup a x = None.
  Proof.
    induction a as [|[y v] t IH]; intros x H; [reflexivity|]. cbn [lookup]. destruct (String.eqb x y) eqn:E.
    - apply String.eqb_eq in E. subst. exfalso. apply H. left. reflexivity.
    - apply IH. intros C. apply H. right. exact C.
  Qed.

  Lemma lookup_some_in : forall (a : env) x v, lookup a x = Some v -> In x (map fst a).
  Proof.
    intros a x v H. destruct (in_dec string_dec x (map fst a)) as [I|I]; [exact I|]. rewrite (lookup_notin a x I) in H. discriminate H.
  Qed.

  Lemma init_env_keys : forall ivals (outer : env), init_env V sem ivals = Some outer -> map fst outer = map fst ivals.
  Proof.
    induction ivals as [|[x a] t IH]; intros outer H; cbn [init_env] in H; [inversion H; reflexivity|].
    destruct (sem "" "Constant" [("value", a)] []) as [[|v [|v2 vt]]|]; try discriminate H.
    destruct (init_env V sem t) as [e|]; [|discriminate H]. inversion H; subst outer. cbn [map fst]. rewrite (IH e eq_refl). reflexivity.
  Qed.

  Lemma skipped_keys_sub : forall ivals x, In x (map fst (skipped_ivals ivals)) -> In x (map fst ivals).
  Proof.
    intros ivals x H. apply in_map_iff in H. destruct H as (iv & E & Hin). unfold skipped_ivals in Hin. apply filter_In in Hin.
    apply in_map_iff. exists iv. split; [exact E | apply Hin].
  Qed.

  (* the initializer values split into the skipped ones (arguments of make_model) and the kept ones (Constant lines) *)
  Lemma init_split : forall ivals (senv : env),
    nodupb (map fst ivals) = true -> init_env V sem (skipped_ivals ivals) = Some senv ->
    match init_env V sem ivals with
    | Some outer => exists on : env, init_env V sem (kept_ivals ivals) = Some on /\
                                   forall x, lookup outer x = lookup (senv ++ on)%list x
    | None => init_env V sem (kept_ivals ivals) = None
    end.
  Proof.
    induction ivals as [|[y a] t IH]; intros senv Hn Hs.
    - cbn in Hs. inversion Hs; subst senv. cbn. exists []. split; reflexivity.
    - cbn [map fst] in Hn. apply nodupb_cons in Hn. destruct Hn as [Hn1 Hn2].
      unfold skipped_ivals, kept_ivals in *. cbn [filter] in *. fold (skipped_ivals t) in *. fold (kept_ivals t) in *.
      destruct (skipped true (y, a)) eqn:E; cbn [negb] in *.
      + cbn [init_env] in Hs |- *. destruct (sem "" "Constant" [("value", a)] []) as [[|v [|v2 vt]]|]; try discriminate Hs.
        destruct (init_env V sem (skipped_ivals t)) as [st|] eqn:Est; [|discriminate Hs]. inversion Hs; subst senv. clear Hs.
        specialize (IH st Hn2 eq_refl). destruct (init_env V sem t) as [outer_t|]; [|exact IH].
        destruct IH as (on & K1 & K2). exists on. split; [exact K1|]. intros x. cbn [app lookup]. destruct (String.eqb x y); [reflexivity | apply K2].
      + cbn [init_env]. destruct (sem "" "Constant" [("value", a)] []) as [[|v [|v2 vt]]|]; try reflexivity;
          try (destruct (init_env V sem t); reflexivity).
        specialize (IH senv Hn2 Hs). destruct (init_env V sem t) as [outer_t|].
        * destruct IH as (on & K1 & K2). rewrite K1. exists ((y, v) :: on). split; [reflexivity|].
          intros x. rewrite lookup_app. cbn [lookup]. destruct (String.eqb x y) eqn:Exy.
          -- apply String.eqb_eq in Exy. subst x. rewrite lookup_notin; [reflexivity|].
             rewrite (init_env_keys _ _ Hs). intros C. apply Hn1. apply skipped_keys_sub. exact C.
          -- rewrite K2, lookup_app. reflexivity.
        * rewrite IH. reflexivity.
  Qed.

  Lemma bind_combine : forall xs (vs : list V) (e : env), List.length xs = List.length vs -> Sem.bind xs vs e = Some (combine xs vs ++ e)%list.
  Proof.
    induction xs as [|x t IH]; intros [|v vt] e H; cbn [List.length] in H; try discriminate H; [reflexivity|].
    cbn [Sem.bind combine app]. rewrite IH by (injection H as H; exact H). reflexivity.
  Qed.

  Lemma bind_length_none : forall xs (vs : list V) (e : env), List.length xs <> List.length vs -> Sem.bind xs vs e = None.
  Proof.
    induction xs as [|x t IH]; intros [|v vt] e H; cbn [List.length Sem.bind] in *; try reflexivity; [contradiction H; reflexivity|].
    rewrite IH; [reflexivity|]. intros C. apply H. rewrite C. reflexivity.
  Qed.

  Lemma combine_fst_snd : forall (a : env), combine (map fst a) (map snd a) = a.
  Proof. induction a as [|[y v] t IH]; [reflexivity|]. cbn [map combine fst snd]. rewrite IH. reflexivity. Qed.

  Lemma combine_app' : forall (a b : list vname) (va vb : list V), List.length a = List.length va ->
    combine (a ++ b)%list (va ++ vb)%list = (combine a va ++ combine b vb)%list.
  Proof.
    induction a as [|x t IH]; intros b [|v vt] vb H; cbn [List.length] in H; try discriminate H; [reflexivity|].
    cbn [app combine]. rewrite IH by (injection H as H; exact H). reflexivity.
  Qed.

  Lemma in_combine_keys : forall (xs : list vname) (vs : list V) x, In x (map fst (combine xs vs)) -> In x xs.
  Proof.
    intros xs vs x H. apply in_map_iff in H. destruct H as ([y v] & E & Hin). cbn [fst] in E. subst y. eapply in_combine_l. exact Hin.
  Qed.

  Notation eval_graph := (eval_graph V sem truth trip of_nat of_bool limit).

  (* the lifted graph on (skipped values ++ inputs) over the kept initializers = the graph on the inputs over all of them *)
  Lemma lift_eval : forall ivals g (senv : env) k xs,
    nodupb (g_ins g ++ g_inits g)%list = true -> map fst ivals = g_inits g ->
    init_env V sem (skipped_ivals ivals) = Some senv ->
    match init_env V sem (kept_ivals ivals) with
    | Some on => eval_graph (S k) on (lift_skipped ivals g) (map snd senv ++ xs)%list
    | None => None
    end =
    match init_env V sem ivals with
    | Some outer => eval_graph (S k) outer g xs
    | None => None
    end.
  Proof.
    intros ivals [ins inits nodes outs] senv k xs Hn Hk Hs. cbn [g_ins g_inits] in Hn, Hk.
    assert (Hn' : nodupb (map fst ivals) = true) by (pose proof (nodupb_app_r _ _ Hn) as Q; rewrite <- Hk in Q; exact Q).
    pose proof (init_split ivals senv Hn' Hs) as SP.
    destruct (init_env V sem ivals) as [outer|]; [|rewrite SP; reflexivity].
    destruct SP as (on & K1 & K2). rewrite K1.
    cbn [Sem.eval_graph]. unfold Sem.eval_body. cbn [lift_skipped g_ins g_nodes g_outs].
    pose proof (init_env_keys _ _ Hs) as Hkeys. rewrite <- Hkeys.
    destruct (Nat.eq_dec (List.length ins) (List.length xs)) as [Hl|Hl].
    2:{ rewrite (bind_length_none ins xs outer Hl). rewrite bind_length_none; [reflexivity|].
        rewrite !app_length, !map_length. lia. }
    rewrite (bind_combine ins xs outer Hl).
    rewrite bind_combine by (rewrite !app_length, !map_length; lia).
    assert (Hc : combine (map fst senv ++ ins)%list (map snd senv ++ xs)%list = (senv ++ combine ins xs)%list).
    { rewrite combine_app' by (rewrite !map_length; reflexivity). rewrite combine_fst_snd. reflexivity. }
    rewrite Hc. rewrite <- app_assoc.
    assert (A : agree_except V [] ((senv ++ combine ins xs ++ on)%list) ((combine ins xs ++ outer)%list)).
    { intros x _. rewrite !lookup_app. rewrite K2, lookup_app.
      destruct (lookup (combine ins xs) x) as [v|] eqn:Ei; [|reflexivity].
      rewrite lookup_notin; [reflexivity|]. rewrite Hkeys. intros C. apply skipped_keys_sub in C. rewrite Hk in C.
      apply lookup_some_in in Ei. apply in_combine_keys in Ei. exact (nodupb_app_disj _ _ _ Hn Ei C). }
    assert (Dj : forall l, disjoint [] l) by (intros l x Hx; contradiction).
    pose proof (run_agree V sem truth trip of_nat of_bool limit [] (eval_graph k) nodes
                  (eval_graph_agree V sem truth trip of_nat of_bool limit [] k) _ _ A (Dj _)) as RA.
    destruct (Sem.run V sem truth trip of_nat of_bool limit (eval_graph k) (senv ++ combine ins xs ++ on)%list nodes) as [a|];
      destruct (Sem.run V sem truth trip of_nat of_bool limit (eval_graph k) (combine ins xs ++ outer)%list nodes) as [b|];
      try contradiction; [|reflexivity].
    apply (agree_lookups V [] a b outs RA (Dj _)).
  Qed.
End SkipSem.

Section SkipMain.
  Variable V : Type.
  Variable sem : string -> string -> list (string * attrv) -> list (option V) -> option (list V).
  Variable truth : V -> option bool.
  Variable trip : V -> option nat.
  Variable of_nat : nat -> V.
  Variable of_bool : bool -> V.
  Variable limit : nat.
  Variable globals : list (string * lit).
  Variable kw : list string.
  Variable prename rename : vname -> string.
  Variable infun : bool.
  Hypothesis sem_identity : forall v, sem "" "Identity" [] [Some v] = Some [v].
  Hypothesis truth_of_bool : forall b, truth (of_bool b) = Some b.
  Variable brk : bool.
  Hypothesis sem_not : forall v b, truth v = Some b -> exists r, sem "" "Not" [] [Some v] = Some [r] /\ truth r = Some (negb b).
  Hypothesis truth_total : brk = true -> forall v, exists b, truth v = Some b.

  (* make_model(<values of the skipped initializers>) followed by a call of the function it defines = the graph *)
  Theorem export_cf_skip_sound : forall use_ops fname ivals g f sk senv,
    export_cf kw prename rename infun use_ops None true fname ivals g = Some (f, sk) ->
    nested_skip_ops_okb kw prename rename infun brk use_ops ivals g = true ->
    init_env V sem (skipped_ivals ivals) = Some senv ->
    forall fp fg xs, depth_graph g <= S fp -> depth_graph g <= S fg ->
      eval_script V sem truth trip of_nat limit globals (S (S fp)) (closure_params f sk) (map snd senv ++ xs)%list =
      match init_env V sem ivals with
      | Some outer => eval_graph V sem truth trip of_nat of_bool limit (S (S fg)) outer g xs
      | None => None
      end.
  Proof.
    intros use_ops fname ivals g f sk senv He Hok Hs fp fg xs Hfp Hfg.
    unfold nested_skip_ops_okb in Hok. apply andb_true_iff in Hok. destruct Hok as [Hok Hnd].
    apply andb_true_iff in Hok. destruct Hok as [Hok Hkeys]. apply list_eqb_eq in Hkeys.
    destruct (export_skip_is_lift kw prename rename infun use_ops fname ivals g f sk He) as [Hl Hsk].
    pose proof (export_cf_ops_sound V sem truth trip of_nat of_bool limit globals kw prename rename infun sem_identity truth_of_bool brk sem_not truth_total
                  use_ops fname (kept_ivals ivals) (lift_skipped ivals g) _ _ Hl Hok fp fg (map snd senv ++ xs)%list) as S0.
    rewrite !depth_lift in S0. specialize (S0 Hfp Hfg).
    rewrite (lift_eval V sem truth trip of_nat of_bool limit ivals g senv (S fg) xs Hnd Hkeys Hs) in S0.
    rewrite <- S0. unfold eval_script. cbn [closure_params f_tparams f_body]. rewrite Hsk.
    (* the def line names the lifted parameters as the body does *)
    assert (Hpar : map prename (map fst (skipped_ivals ivals)) =
                   map (tr_with rename (fst (scan rename infun None true ivals g))) (map fst (skipped_ivals ivals))).
    { unfold nested_ops_okb in Hok. rewrite scan_lift in Hok.
      repeat (apply andb_true_iff in Hok; destruct Hok as [Hok ?]).
      match goal with K : forallb (fun x => String.eqb (prename x) _) _ = true |- _ => rename K into K7 end.
      rewrite forallb_forall in K7. apply map_ext_in. intros x Hx. apply String.eqb_eq. apply K7.
      cbn [lift_skipped g_ins]. apply in_or_app. left. exact Hx. }
    rewrite Hpar. reflexivity.
  Qed.
End SkipMain.

(* ---- non-vacuity: a model with a large initializer read inside a loop body and a small one ------------------- *)
Require Import OV.Gen.ExportTables.
Definition g_skip : graph :=
  Graph ["x"] ["big.w"; "b"]
    [Node "" "Add" [Some "x"; Some "big.w"] ["t"] [] [];
     Node "" "If" [Some "x"] ["r"] []
       [("then_branch", Graph [] [] [Node "" "Sub" [Some "t"; Some "b"] ["u"] [] []] ["u"]);
        ("else_branch", Graph [] [] [Node "" "Add" [Some "big.w"; Some "b"] ["w2"] [] []] ["w2"])]] ["r"].
Definition iv_skip : list (vname * attrv) := [("big.w", ATensor 7 [5%Z] [40%Z]); ("b", ATensor 7 [] [2%Z])].
Definition f_skip : func :=
  {| f_name := "g"; f_tparams := ["x"]; f_aparams := [];
     f_body := [SAssign "b" (ECall (COp "Constant") [] [("value", KLit (ATensor 7 [] [2%Z]))]);
                SAssign "t" (ECall (COp "Add") [Some (EVar "x"); Some (EVar "big_w")] []);
                SIf (EVar "x")
                  [SAssign "u" (ECall (COp "Sub") [Some (EVar "t"); Some (EVar "b")] []); SAssign "r" (EVar "u")]
                  [SAssign "w2" (ECall (COp "Add") [Some (EVar "big_w"); Some (EVar "b")] []); SAssign "r" (EVar "w2")];
                SReturn [EVar "r"]] |}.
Theorem export_skip_example :
  nested_skip_okb kwlist (cleanup kwlist) (cleanup kwlist) false false iv_skip g_skip = true /\
  export_cf kwlist (cleanup kwlist) (cleanup kwlist) false None None true "g" iv_skip g_skip = Some (f_skip, ["big_w"]) /\
  init_env Z zsem2 (skipped_ivals iv_skip) = Some [("big.w", 40%Z)] /\
  zscript2 (closure_params f_skip ["big_w"]) [40%Z; 5%Z] = Some [43%Z] /\
  zscript2 (closure_params f_skip ["big_w"]) [40%Z; (-1)%Z] = Some [42%Z] /\
  option_map (fun outer => zgraph2 outer g_skip [5%Z]) (init_env Z zsem2 iv_skip) = Some (Some [43%Z]) /\
  option_map (fun outer => zgraph2 outer g_skip [(-1)%Z]) (init_env Z zsem2 iv_skip) = Some (Some [42%Z]).
Proof. vm_compute. repeat split. Qed.
