(* C10 -- facts about the shipped registry (regenerated table) and the witnesses of the refuted statements *)
From Coq Require Import ZArith List Bool String Lia.
Import ListNotations.
Require Import OV.Gen.VersionTables OV.Version.Model OV.Version.Adapters OV.Version.AdaptersProofs
               OV.Version.ConvertProofs OV.Version.Std.
Open Scope Z_scope.

(* finite domain: the table regenerated from the live registry *)
Lemma registry_checks_ok : registry_checks = true.
Proof. vm_compute. reflexivity. Qed.

(* every registered adapter is a modelled one (default domain, up-conversion), registered at a version
   from which a supported target can be reached *)
Lemma registry_modelled : forall d o v up, In (d, o, v, up) registry_keys ->
  d = ""%string /\ up = true /\ (exists f, modelled flags_current o v = Some f) /\
  supported_min <= v < supported_max.
Proof.
  intros d o v up Hin.
  pose proof registry_checks_ok as H. unfold registry_checks in H.
  apply andb_true_iff in H as [H _]. apply andb_true_iff in H as [H1 H2].
  rewrite forallb_forall in H1, H2. specialize (H1 _ Hin). specialize (H2 _ Hin).
  cbn in H1, H2. apply andb_true_iff in H1 as [H1 Hm]. apply andb_true_iff in H1 as [Hd Hu].
  apply String.eqb_eq in Hd. apply andb_true_iff in H2 as [Ha Hb].
  apply Z.leb_le in Ha. apply Z.ltb_lt in Hb.
  repeat split; auto; try lia.
  destruct (modelled flags_current o v) as [f|]; [eauto|discriminate].
Qed.

(* replacement nodes of the shipped adapters have no subgraphs: discharges the hypothesis of
   ConvertProofs.native_consistent for every variant *)
Lemma std_adapt_flat : forall fx op k n news,
  std_adapt fx op k n = AReplace news -> Forall (fun m => n_subs m = []) news.
Proof.
  intros fx op k n news H. pose proof (adapt_of_flat registry_keys fx op k n) as F.
  unfold std_adapt in H. rewrite H in F. cbn in F.
  eapply Forall_impl; [|exact F]. intros m [Hm _]. exact Hm.
Qed.

(* no op is adapted at two versions, so the detached ("ghost") node is never replaced or failed again *)
Lemma modelled_single : forall fx op k k', k < k' ->
  modelled fx op k <> None -> modelled fx op k' = None.
Proof.
  intros fx op k k' Hlt H. unfold modelled in *.
  destruct (String.eqb op "DFT") eqn:E1; cbn in *.
  { apply String.eqb_eq in E1; subst op. cbn.
    destruct (k =? 19) eqn:Ek; [apply Z.eqb_eq in Ek|].
    - assert (E : (k' =? 19) = false) by (apply Z.eqb_neq; lia). rewrite E. reflexivity.
    - cbn in H. congruence. }
  destruct (String.eqb op "GridSample") eqn:E2; cbn in *.
  { apply String.eqb_eq in E2; subst op. cbn.
    destruct (k =? 19) eqn:Ek; [apply Z.eqb_eq in Ek|].
    - assert (E : (k' =? 19) = false) by (apply Z.eqb_neq; lia). rewrite E. reflexivity.
    - cbn in H. congruence. }
  destruct (String.eqb op "GroupNormalization") eqn:E3; cbn in *; [|reflexivity].
  destruct (k =? 20) eqn:Ek; [apply Z.eqb_eq in Ek|congruence].
  assert (E : (k' =? 20) = false) by (apply Z.eqb_neq; lia). rewrite E. reflexivity.
Qed.

Lemma modelled_dom : forall fx op k, modelled fx op k = None <-> modelled flags_current op k = None.
Proof.
  intros fx op k. unfold modelled.
  destruct (String.eqb op "DFT" && (k =? 19)); [split; discriminate|].
  destruct (String.eqb op "GridSample" && (k =? 19)); [split; discriminate|].
  destruct (String.eqb op "GroupNormalization" && (k =? 20)); [split; discriminate|tauto].
Qed.

Lemma registered_modelled : forall fx op k,
  existsb (key_is op k) registry_keys = true -> modelled fx op k <> None.
Proof.
  intros fx op k Ex. apply existsb_exists in Ex as ([[[d o] v] up] & Hin & Hkey).
  destruct (registry_modelled d o v up Hin) as (_ & _ & [f Hf] & _).
  unfold key_is in Hkey.
  apply andb_true_iff in Hkey as [Hkey _]. apply andb_true_iff in Hkey as [Hkey Hv].
  apply andb_true_iff in Hkey as [_ Ho].
  apply String.eqb_eq in Ho. apply Z.eqb_eq in Hv. subst o v.
  intro Hn. apply modelled_dom in Hn. congruence.
Qed.

Lemma std_ghost_quiet : forall fx n k cnt k' log,
  std_adapt fx (n_op n) k n <> ANone -> k < k' ->
  ghost (std_adapt fx) n k' cnt log = (None, log).
Proof.
  intros fx n k cnt. induction cnt as [|c IH]; intros k' log Hk Hlt; [reflexivity|].
  cbn [ghost].
  assert (E : std_adapt fx (n_op n) k' n = ANone).
  { unfold std_adapt, adapt_of in *.
    destruct (existsb (key_is (n_op n) k) registry_keys) eqn:Ex; [|congruence].
    pose proof (registered_modelled fx _ _ Ex) as Hm.
    destruct (existsb (key_is (n_op n) k') registry_keys) eqn:Ex'; [|reflexivity].
    pose proof (registered_modelled fx _ _ Ex') as Hm'.
    exfalso. apply Hm'. apply (modelled_single fx (n_op n) k k' Hlt Hm). }
  rewrite E. apply IH; [exact Hk|lia].
Qed.

(* ---------------------------------------------------------------- refutations (witnesses replayed on the real code) *)
(* all-or-nothing fails: an adapter error is logged, the node stays as it was, the model is stamped *)
Lemma all_or_nothing_refuted : forall fx, exists M t M' log,
  consistent_at 20 M = true /\ std_native fx M t = MDone M' log /\ log <> [] /\
  m_decl M' = Some t /\ model_eqb M' M = false /\
  (* the GroupNormalization node is exactly as before: per-group scale under an opset-21 import *)
  nth_error (m_graph M') 1 = Some gn_noshape.
Proof.
  intros [[] []]; exists w_skip, 21; eexists; eexists;
    (split; [reflexivity|]); (split; [vm_compute; reflexivity|]);
    (split; [discriminate|]); (split; [reflexivity|]); split; reflexivity.
Qed.

(* the internal entry can stop half way: graph converted, a function partly, imports not stamped *)
Lemma native_abort_half_converted : forall fx, exists M t e M' l,
  consistent_at 19 M = true /\ std_native fx M t = MRaised e M' l /\
  model_eqb M' M = false /\ m_decl M' = Some 19 /\ forallb (at_version 19) (m_graph M') = false.
Proof.
  intros [[] []]; exists w_refattr, 20; do 3 eexists;
    (split; [reflexivity|]); (split; [vm_compute; reflexivity|]); repeat split; reflexivity.
Qed.

(* ModelProto wrapper as it stands: graph rewritten for opset 20, opset_import still 19 *)
Lemma proto_wrapper_refuted : forall fx, exists p t p',
  consistent_at 19 p = true /\
  proto_convert false (std_pass fx id_model id_model no_capi false) p t = PDone p' [] /\
  m_decl p' = Some 19 /\ consistent_at t p' = false /\
  list_eqb node_eqb (m_graph p') (m_graph p) = false.
Proof.
  intros [[] []]; exists w_proto, 20; eexists;
    (split; [reflexivity|]); (split; [vm_compute; reflexivity|]); repeat split; reflexivity.
Qed.

(* non-vacuity of native_consistent: a model with a subgraph, a function and all three adapted ops *)
Definition ex_model : model :=
  Model (Some 18) None
    [ Node "DFT" true None false [("axis"%string, AInt 1)] [true] [] [];
      Node "If" true None false [] [true] []
        [ Node "GridSample" true None false [("mode"%string, AStr "bilinear")] [true; true] [] []; relu ];
      Node "GroupNormalization" true None false [("num_groups"%string, AInt 2)] [true; true; true]
        [DStatic 4; DStatic 2; DStatic 2] [];
      Node "Custom" false None false [] [true] [] [] ]
    [ Func (Some 18) None [relu] ].

Example native_consistent_example : exists M',
  consistent_at 18 ex_model = true /\ std_native flags_current ex_model 22 = MDone M' [] /\
  consistent_at 22 M' = true /\ List.length (m_graph M') = 14%nat.
Proof. eexists. split; [reflexivity|]. split; [vm_compute; reflexivity|]. split; reflexivity. Qed.

(* ---------------------------------------------------------------- non-vacuity of the remaining implications *)
Example expand_example : expand_scale 3 [1; 2] = [1; 1; 1; 2; 2; 2].
Proof. reflexivity. Qed.

Example gridsample_example :
  gs_after (Node "GridSample" true None false [("mode"%string, AStr "bicubic")] [true; true] [] [])
  = Some (Node "GridSample" true None false
            [("align_corners"%string, AInt 0); ("mode"%string, AStr "cubic"); ("padding_mode"%string, AStr "zeros")]
            [true; true] [] []).
Proof. reflexivity. Qed.

(* downgrade: raises, model untouched *)
Example downgrade_example :
  consistent_at 20 w_skip = true /\ std_native flags_current w_skip 19 = MRaised EDowngrade w_skip [].
Proof. split; reflexivity. Qed.

(* the pass: native branch, no-op branch, C-API branch (an oracle answering with a consistent graph), C-API failure *)
Definition capi_19 (m : model) (t : Z) : option model := Some (Model (Some t) None [relu] []).
Example pass_example :
  (exists M', std_pass flags_current id_model id_model no_capi true w_proto 21 = MDone M' [] /\ consistent_at 21 M' = true) /\
  std_pass flags_current id_model id_model no_capi true w_proto 19 = MDone w_proto [] /\
  (exists M', std_pass flags_current id_model id_model capi_19 true w_skip 19 = MDone M' [] /\ consistent_at 19 M' = true) /\
  std_pass flags_current id_model id_model no_capi true w_skip 19 = MDone w_skip [].
Proof.
  split; [eexists; split; [vm_compute; reflexivity|reflexivity]|].
  split; [reflexivity|].
  split; [eexists; split; [vm_compute; reflexivity|reflexivity]|reflexivity].
Qed.

(* the repaired wrapper on the witness of the refutation: now consistent at 20 *)
Example proto_fixed_example : exists p',
  proto_convert true (std_pass flags_current id_model id_model no_capi false) w_proto 20 = PDone p' [] /\
  consistent_at 20 p' = true /\ List.length (m_graph p') = 3%nat.
Proof. eexists. split; [vm_compute; reflexivity|split; reflexivity]. Qed.

(* GroupNormalization adapter fires: g = 2, c = 6, c/g = 3 *)
Definition gn_static :=
  Node "GroupNormalization" true None false [("epsilon"%string, AFlt 1056964608); ("num_groups"%string, AInt 2)]
       [true; true; true] [DStatic 6; DStatic 2; DStatic 2] [].
Example gn_adapter_example :
  gn_decide gn_static = GnExpand 2 3 /\
  eps_of (n_attrs (gn_last flags_fixed gn_static 2 3)) = 1056964608 /\
  expand_scale (Z.to_nat 3) [10; 20] = [10; 10; 10; 20; 20; 20].
Proof. repeat split. Qed.

(* DFT adapter, repaired variant, node without axis attribute on a rank-4 input: axis 1 on both sides *)
Example dft_adapter_example :
  dft20_axis 4 (dft_19_20 flags_fixed (Node "DFT" true None false [] [true] [] [])) (Node "DFT" true None false [] [true] [] [])
  = dft19_axis 4 (Node "DFT" true None false [] [true] [] []) /\
  dft19_axis 4 (Node "DFT" true None false [] [true] [] []) = Some 1.
Proof. split; reflexivity. Qed.
