(* C09 -- models for the units that were "differential only" (model file: definitions only).
     ReshapeReshape with an annotated output (on top of OV.Rules.Reshape), SlicesSplit on symbolic shapes (on top of
     OV.Rules.SliceCollapse), the classes of targets Flatten2Reshape emits, the sequence evaluators at the level of
     shapes, the numeric part of broadcast_to_matmul on annotations (on top of OV.Rules.MatmulGemm), ranks of the
     shape-value expressions (Squeeze / Unsqueeze / Reshape change the rank, not the elements). *)
From Coq Require Import String ZArith List Bool.
Require Import OV.Shape.SymDim OV.Shape.PartialEval OV.Shape.Extra.
Require OV.Rules.Reshape OV.Rules.SliceCollapse OV.Rules.MatmulGemm.
Import ListNotations.
Open Scope Z_scope.

(* annotation in the vocabulary of OV.Rules.*: an int is known, everything else is not *)
Definition to_decl (s : list dim) : list (option Z) := map (fun d => match d with DInt z => Some z | _ => None end) s.
Definition ints (s : list dim) : list Z := map (fun d => match d with DInt z => z | _ => -1 end) s.

(* ---- ReshapeReshape: Reshape(Reshape(x, s1), s2) -> Reshape(x, s', allowzero = az').  `odecl` = annotation of the
   output; statically known POSITIVE output dims are written into s2 first (Rules.Reshape.rr_new), then rr_decide *)
Definition rr_rule (o : option (list dim)) (s2 : list Z) (az2 : bool) : option (list Z * bool) :=
  Reshape.rr_decide (Reshape.rr_new (option_map to_decl o) s2) az2.
(* the fusion that keeps the second target and attribute as they are (what the rule must NOT do when it declines) *)
Definition rr_naive (s2 : list Z) (az2 : bool) : list Z * bool := (s2, az2).

(* ---- SlicesSplit: Slice(x, [b0], [e0], [axis]), Slice(x, [b1], [e1], [axis]) -> Split(x, num_outputs=2, axis=-1) ---- *)
Definition ss_check (x : option (list dim)) (axis b0 e0 b1 e1 : Z) : bool :=
  match x with
  | Some s =>
      match rev s with
      | DInt d :: _ =>
          ((axis =? -1) || (axis =? Z.of_nat (List.length s) - 1)) && SliceCollapse.split_check d b0 e0 b1 e1
          && (0 <? d) && Z.even d
      | _ => false                          (* last dim symbolic / unknown, or rank 0 *)
      end
  | None => false
  end.

(* ---- Flatten2Reshape: the constant targets [a0; a1] the rule emits.  a0 is 1 (axis 0), 0 (axis 1, "copy dim 0"),
   a static product, or -1; a1 is a static product, 1 (axis = rank) or -1; never both -1; static products are positive
   (a static zero dim makes the rule decline). *)
Definition fl_target_ok (ns : list Z) : bool :=
  match ns with [a0; a1] => negb ((a0 =? 0) && (a1 =? -1)) | _ => false end.
Definition fl_class (a : nat) (a0 a1 : Z) : Prop :=
  (a0 = -1 \/ a0 = 0 \/ 0 < a0) /\ (a1 = -1 \/ 0 < a1) /\ ~ (a0 = -1 /\ a1 = -1) /\ (a0 = 0 -> a = 1%nat).
(* runtime shapes the emitted target has to be right for: non-negative, rank >= a, static entries truthful *)
Definition fl_consistent (a : nat) (a0 a1 : Z) (sh : list Z) : Prop :=
  Forall (fun n => 0 <= n) sh /\ (a <= List.length sh)%nat /\
  (0 < a0 -> zprod (firstn a sh) = a0) /\ (0 < a1 -> zprod (skipn a sh) = a1).
Definition flat2 (a : nat) (sh : list Z) : list Z := [zprod (firstn a sh); zprod (skipn a sh)].
(* what the harness compares: class of the emitted target computed from the annotation *)
Definition static_zprod (s : list dim) : option Z := size_fold s.
Definition fl_entry_ok (annot : option Z) (emitted : Z) (copy_allowed : bool) : bool :=
  (emitted =? -1) || ((emitted =? 0) && copy_allowed) ||
  ((0 <? emitted) && match annot with Some p => p =? emitted | None => true end).

(* ---- sequences at the level of shapes ------------------------------------------------------------------------- *)
(* SplitToSequence(x, split) / Split(x, split): consecutive chunks of the given sizes along the axis *)
Fixpoint chunks {A} (sizes : list nat) (l : list A) : list (list A) :=
  match sizes with [] => [] | k :: t => firstn k l :: chunks t (skipn k l) end.
Definition chunk_shape (sh : list Z) (ax : nat) (size : Z) : list Z := set_nth sh ax size.
Fixpoint remove_nth {A} (l : list A) (n : nat) : list A :=
  match l, n with [], _ => [] | _ :: t, O => t | a :: t, S k => a :: remove_nth t k end.
Definition squeeze_axis (sh : list Z) (ax : nat) : option (list Z) :=
  if nth ax sh 0 =? 1 then Some (remove_nth sh ax) else None.        (* Squeeze rejects an axis of size <> 1 *)
(* ONNX: "keepdims ... If input 'split' is specified, this attribute is ignored" *)
Definition stsq_spec (sh : list Z) (ax : nat) (sizes : list Z) : list (option (list Z)) :=
  map (fun sz => Some (chunk_shape sh ax sz)) sizes.
(* the evaluator: Split(x, split) and, when keepdims = 0, Squeeze(axis) of every chunk *)
Definition stsq_emitted (keepdims : bool) (sh : list Z) (ax : nat) (sizes : list Z) : list (option (list Z)) :=
  map (fun sz => if keepdims then Some (chunk_shape sh ax sz) else squeeze_axis (chunk_shape sh ax sz) ax) sizes.
(* ConcatFromSequence(new_axis = 1) -> Concat(Unsqueeze(x_i, axis)..., axis) *)
Definition unsqueeze_shape (ax : nat) (s : list Z) : list Z := (firstn ax s ++ 1 :: skipn ax s)%list.
Definition stack_shape (ax : nat) (k : nat) (s : list Z) : list Z := (firstn ax s ++ Z.of_nat k :: skipn ax s)%list.
(* SequenceAt: ONNX accepts positions in [-n, n-1] *)
Definition onnx_seq_at {A} (l : list A) (i : Z) : option A :=
  let n := Z.of_nat (List.length l) in
  if (- n <=? i) && (i <? n) then nth_error l (Z.to_nat (if i <? 0 then i + n else i)) else None.

(* ---- broadcast_to_matmul: the whole check evaluated on the annotations ----------------------------------------- *)
Definition b2m_check (a b : option (list dim)) (sc : list Z) : bool :=
  b2m_guard a b &&
  match a, b with
  | Some x, Some y => match MatmulGemm.check_bcast true (ints x) (ints y) sc with Some true => true | _ => false end
  | _, _ => false
  end.

(* ---- ranks of shape-value expressions ------------------------------------------------------------------------------
   rexp = sv with the kind of every forwarding / opaque node spelled out; erase forgets the kinds *)
Inductive keep_kind := KIdentity | KCastSame | KSqueeze | KSqueezeNoAxes0 | KReshapeFlat | KReshape0 | KReshapeScalar.
Inductive opaque_kind := ONegNeg | OUnsqueeze0 | OCastRound | OReshape1N.
Inductive rexp :=
| RConstE (l : list Z)
| RShapeE (x : list dim) (start : Z) (stop : option Z)
| RGatherE (v : rexp) (idx : list Z)
| RConcatE (a b : rexp)
| RAddE (a b : rexp)
| RAbsE (v : rexp)
| ROpaqueE (k : opaque_kind) (v : rexp)
| RKeepE (k : keep_kind) (v : rexp).
Fixpoint erase (e : rexp) : sv :=
  match e with
  | RConstE l => SConst l
  | RShapeE x a b => SShape x a b
  | RGatherE v idx => SGather (erase v) idx
  | RConcatE a b => SConcat (erase a) (erase b)
  | RAddE a b => SAdd (erase a) (erase b)
  | RAbsE v => SAbs (erase v)
  | ROpaqueE _ v => SOpaque (erase v)
  | RKeepE _ v => SKeep (erase v)
  end.
(* number of elements (static: ranks of annotations and lengths of constants are) *)
Fixpoint rlen (e : rexp) : nat :=
  match e with
  | RConstE l => List.length l
  | RShapeE x a b => List.length (pyslice x a b)
  | RGatherE _ idx => List.length idx
  | RConcatE a b => rlen a + rlen b
  | RAddE a b => Nat.max (rlen a) (rlen b)
  | RAbsE v | ROpaqueE _ v | RKeepE _ v => rlen v
  end.
(* rank of the tensor at run time, None = the runtime rejects the node (ranks are 0, 1 or 2 here) *)
Fixpoint rrank (e : rexp) : option nat :=
  match e with
  | RConstE _ | RShapeE _ _ _ => Some 1%nat
  | RGatherE v idx =>                                   (* axis 0 needs rank >= 1; 1-D indices within [-len, len) *)
      match rrank v with
      | Some (S r) => let len := Z.of_nat (match r with O => rlen v | _ => 1%nat end) in
                      if forallb (fun i => (- len <=? i) && (i <? len)) idx then Some (S r) else None
      | _ => None
      end
  | RConcatE a b => match rrank a, rrank b with
                    | Some (S r), Some (S q) => if Nat.eqb r q then Some (S r) else None
                    | _, _ => None
                    end
  | RAddE a b => match rrank a, rrank b with
                 | Some r, Some q =>                    (* numpy broadcasting of [], [n] and [1, n] tensors *)
                     if Nat.eqb (rlen a) (rlen b) || Nat.eqb (rlen a) 1 || Nat.eqb (rlen b) 1 then Some (Nat.max r q) else None
                 | _, _ => None
                 end
  | RAbsE v => rrank v
  | ROpaqueE k v =>
      match rrank v with
      | None => None
      | Some r => match k with
                  | ONegNeg | OCastRound => Some r
                  | OUnsqueeze0 => Some (S r)
                  | OReshape1N => Some 2%nat
                  end
      end
  | RKeepE k v =>
      match rrank v with
      | None => None
      | Some r => match k with
                  | KIdentity | KCastSame => Some r
                  | KSqueeze => Some (if Nat.eqb (rlen v) 1 then O else Nat.min r 1)   (* every axis of size 1 goes *)
                  | KSqueezeNoAxes0 => Some r
                  | KReshapeFlat => Some 1%nat
                  | KReshape0 => match r with                                           (* 0 copies input dim 0 *)
                                 | O => None
                                 | S O => Some 1%nat
                                 | _ => if Nat.eqb (rlen v) 1 then Some 1%nat else None  (* [1, n] -> [1] needs n = 1 *)
                                 end
                  | KReshapeScalar => if Nat.eqb (rlen v) 1 then Some O else None       (* Reshape(v, []) *)
                  end
      end
  end.
(* a consumer (shape input of Reshape / Expand) needs a 1-D tensor *)
Definition consumer_accepts_rank (e : rexp) : bool := match rrank e with Some 1%nat => true | _ => false end.

(* ---- correspondence helpers ------------------------------------------------------------------------------------ *)
Definition opt_zlb_eqb (a b : option (list Z * bool)) : bool :=
  match a, b with
  | Some (x, p), Some (y, q) => forallb2 Z.eqb x y && Bool.eqb p q
  | None, None => true
  | _, _ => false
  end.
Definition rr_case := (option (list dim) * list Z * bool * option (list Z * bool))%type.
Definition rr_agrees (c : rr_case) : bool := let '(o, s2, az2, obs) := c in opt_zlb_eqb (rr_rule o s2 az2) obs.
Definition ss_case := (option (list dim) * (Z * Z * Z * Z * Z) * bool)%type.
Definition ss_agrees (c : ss_case) : bool := let '(x, (ax, b0, e0, b1, e1), obs) := c in Bool.eqb (ss_check x ax b0 e0 b1 e1) obs.
(* (input annotation, axis >= 0, emitted target): entries within their classes, static entries = static products *)
Definition fl_case := (list dim * nat * list Z)%type.
Definition fl_agrees (c : fl_case) : bool :=
  let '(x, a, ns) := c in
  match ns with
  | [a0; a1] => fl_entry_ok (static_zprod (firstn a x)) a0 (Nat.eqb a 1) && fl_entry_ok (static_zprod (skipn a x)) a1 false
                && negb ((a0 =? -1) && (a1 =? -1))
  | _ => false
  end.
Definition b2m2_case := (option (list dim) * option (list dim) * list Z * bool)%type.
Definition b2m2_agrees (c : b2m2_case) : bool := let '(a, b, sc, fired) := c in Bool.eqb (b2m_check a b sc) fired.
Definition rk_case := (rexp * bool)%type.            (* accepted by the runtimes as the shape input of the consumer *)
Definition rk_agrees (c : rk_case) : bool := let '(e, obs) := c in Bool.eqb (consumer_accepts_rank e) obs.
Definition stsq_case := (bool * list Z * nat * list Z * list (option (list Z)))%type.
Definition opt_zl_eqb (a b : option (list Z)) : bool :=
  match a, b with Some x, Some y => forallb2 Z.eqb x y | None, None => true | _, _ => false end.
Definition stsq_agrees (c : stsq_case) : bool :=
  let '(kd, sh, ax, sizes, obs) := c in forallb2 opt_zl_eqb (stsq_emitted kd sh ax sizes) obs.
