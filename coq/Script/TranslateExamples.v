(* A concrete instance of the S1 theorem's hypotheses (non-vacuity): a toy kernel semantics over Z and a
   program with a literal operand (Constant + CastLike), a re-assignment and a returned parameter. *)
From Coq Require Import List String ZArith Bool.
Require Import OV.Graph.Syntax OV.Graph.Sem OV.Script.Syntax OV.Script.Sets OV.Gen.Analysis OV.Gen.ScriptTables
               OV.Script.Translate OV.Script.PySem OV.Script.TranslateProofs.
Import ListNotations.
Local Open Scope string_scope.

Definition toy_sem (dom op : string) (attrs : list (string * attrv)) (args : list (option Z)) : option (list Z) :=
  if negb (String.eqb dom "") then None
  else if String.eqb op "Constant" then
    match attrs, args with [(_, ATensor _ _ [z])], [] => Some [z] | _, _ => None end
  else if String.eqb op "Add" then match args with [Some a; Some b] => Some [(a + b)%Z] | _ => None end
  else if String.eqb op "Mul" then match args with [Some a; Some b] => Some [(a * b)%Z] | _ => None end
  else if String.eqb op "Neg" then match args with [Some a] => Some [(- a)%Z] | _ => None end
  else if String.eqb op "CastLike" then match args with [Some a; Some _] => Some [a] | _ => None end
  else if String.eqb op "Identity" then match args with [Some a] => Some [a] | _ => None end
  else if String.eqb op "DivMod10" then match args with [Some a] => Some [(a / 10)%Z; (a mod 10)%Z] | _ => None end
  else None.

Definition ex_f : func :=
  {| f_name := "f"; f_tparams := ["x"; "tmp"]; f_aparams := [];
     f_body := [SAssign "t" (EBin "Add" (EVar "x") (ELit (LInt 2)));
                SAssign "x" (EBin "Mult" (EUn "USub" (EVar "t")) (EVar "tmp"));
                SAssign "tmp" (ECall (COp "Add") [Some (ELit (LInt 1)); Some (EVar "x")] []);
                STuple ["q"; "t"] (ECall (COp "DivMod10") [Some (EUn "USub" (EVar "tmp"))] []);
                SReturn [EVar "tmp"; EVar "tmp"; EVar "t"; EVar "q"]] |}.

Definition ex_graph : option graph := translate false [] (fun _ => None) 5 [] ex_f.

Lemma toy_identity : forall v, toy_sem "" "Identity" [] [Some v] = Some [v].
Proof. reflexivity. Qed.

(* all hypotheses of the theorem hold of this instance and the source evaluates to a value *)
Lemma ex_hyps :
  exists g pre es,
    f_body ex_f = (pre ++ [SReturn es])%list /\ assigns_ok pre = true /\ forallb expr_ok es = true /\
    f_aparams ex_f = [] /\ NoDup (f_tparams ex_f) /\
    translate false [] (fun _ => None) 5 [] ex_f = Some g /\
    List.length (g_nodes g) = 11 /\
    eval_script Z toy_sem (fun z => Some (Z.eqb z 0)) (fun z => Some (Z.to_nat z)) Z.of_nat 10 [] 3 ex_f [5%Z; 3%Z]
      = Some [(-20)%Z; (-20)%Z; 0%Z; 2%Z].
Proof.
  eexists. exists (removelast (f_body ex_f)), [EVar "tmp"; EVar "tmp"; EVar "t"; EVar "q"].
  split; [reflexivity|]. split; [reflexivity|]. split; [reflexivity|]. split; [reflexivity|].
  split; [repeat constructor; cbn; intuition discriminate|].
  split; [vm_compute; reflexivity|]. split; vm_compute; reflexivity.
Qed.

