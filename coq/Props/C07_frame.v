(* C07 property theorems, sixth file: "all other nodes, values ... and metadata are untouched" over a whole sweep, and
   overlapping matches.
   Model: OV.Rewrite.State.run_events / OV.Rewrite.Multi.run_mevents -- the event lists harness/c07.py replays for every sweep
   of the real rewriter (check_state / check_state_m must reproduce the observed metadata_props of every node and value).
   Tie besides the replay: the tracer records doc_string, name and metadata_props of every node and every value of the swept
   container before the sweep and compares them after it for everything that no splice matched (direct oracle).
   Statements only, each closed by `exact`; Print Assumptions beneath.

   Not covered: keeping rules (remove_nodes=False) in the frame statement (the matched nodes survive under dead keys: the
   model computes them and the tie compares them); doc_string and node names are not part of the Gallina state (observed
   by the tracer only). *)
From Coq Require Import List String ZArith Bool.
Require Import OV.Graph.Syntax OV.Rewrite.Apply OV.Rewrite.State OV.Rewrite.Multi OV.Rewrite.FrameProofs.
Import ListNotations.

(* whatever the sweep did (visits, removing applications at any path, function extraction, any repair flags): a node that no
   application matched or created has the metadata_props it had; same for values *)
Theorem C07_sweep_metadata_frame : forall fx evs i g s c j g' s', run_events fx i evs g s = (c, j, Some (g', s')) ->
  (forall k, Forall (ev_untouched k) evs -> mget k (s_nmeta s') = mget k (s_nmeta s)) /\
  (forall k, Forall (ev_untouched_val k) evs -> mget k (s_vmeta s') = mget k (s_vmeta s)).
Proof. exact events_meta_frame. Qed.
Print Assumptions C07_sweep_metadata_frame.

(* the same for sweeps holding applications of patterns with several output nodes *)
Theorem C07_sweep_metadata_frame_multi : forall fx evs i g s c j g' s', run_mevents fx i evs g s = (c, j, Some (g', s')) ->
  (forall k, Forall (mev_untouched k) evs -> mget k (s_nmeta s') = mget k (s_nmeta s)) /\
  (forall k, Forall (mev_untouched_val k) evs -> mget k (s_vmeta s') = mget k (s_vmeta s)).
Proof. exact mevents_meta_frame. Qed.
Print Assumptions C07_sweep_metadata_frame_multi.

(* one application, any repair flags (C07_splice_frame of C07_state.v is for the flags as_is) *)
Theorem C07_application_metadata_frame : forall d nm vm, d_remove d = true ->
  (forall k, ~ In k (d_matched d) -> ~ In k (map fst (d_new d)) -> mget k (step_nmeta d nm) = mget k nm) /\
  (forall k, ~ In k (d_matched_vals d) -> ~ In k (d_new_vals d) -> mget k (step_vmeta d vm) = mget k vm).
Proof. exact step_meta_frame. Qed.
Print Assumptions C07_application_metadata_frame.

(* overlapping matches in one pass: a matched node that an application removed (and did not re-create) is not a node of the
   list afterwards ... *)
Theorem C07_removed_nodes_gone : forall a ns ns', NoDup ns -> a_remove a = true -> apply_nodes a ns = Some ns' ->
  forall n, In n (sel (a_mask a) (firstn (List.length (a_mask a)) ns)) -> ~ In n (a_new a) -> ~ In n ns'.
Proof. exact removed_nodes_gone. Qed.
Print Assumptions C07_removed_nodes_gone.

(* ... so the next match -- a selection of nodes of the CURRENT list, which is all an application of the model can express
   and all the replay accepts -- shares no removed node with it: no application on stale nodes *)
Theorem C07_second_match_not_stale : forall a b ns ns1 ns2, NoDup ns -> a_remove a = true ->
  apply_nodes a ns = Some ns1 -> apply_nodes b ns1 = Some ns2 ->
  forall n, In n (sel (a_mask a) (firstn (List.length (a_mask a)) ns)) -> ~ In n (a_new a) ->
            ~ In n (sel (a_mask b) (firstn (List.length (a_mask b)) ns1)).
Proof. exact second_match_not_stale. Qed.
Print Assumptions C07_second_match_not_stale.

(* the names of the values a pass creates (fresh_seq over the names in use, OV.Rewrite.Naming) differ from every name of every
   graph of the model, at any nesting depth -- provided the set of names in use IS the set of all names of the model, nested
   graphs included; that proviso is compared on the real code: the tracer computes the names of the model recursively and
   compares them with RewriteRuleSet._used_value_names at the first call of _name_new_values of every pass, and the repeated-
   rewrite stream rewrites one model two and three times *)
Theorem C07_fresh_names_avoid_nested_graphs : forall (cs : list graph) k nm g p sg,
  In nm (OV.Rewrite.Naming.fresh_seq (flat_map OV.Graph.Names.names_graph cs) k) -> In g cs -> site p g = Some sg ->
  ~ In nm (OV.Graph.Names.names_graph sg).
Proof. exact fresh_names_avoid_nested. Qed.
Print Assumptions C07_fresh_names_avoid_nested_graphs.

Theorem C07_nested_names_are_names_of_the_graph : forall p g sg, site p g = Some sg ->
  incl (OV.Graph.Names.names_graph sg) (OV.Graph.Names.names_graph g).
Proof. exact site_names_incl. Qed.
Print Assumptions C07_nested_names_are_names_of_the_graph.
