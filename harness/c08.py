"""C08 -- torch_lib operator implementations agree with PyTorch (DESIGN.md section 5, C08).

Theorems (coq/Props/C08.v): for each modelled aten_* function the composition of ONNX operators it emits
(coq/Torch/Aten.v, operator semantics transcribed in coq/Torch/Onnx.v) equals PyTorch's semantics
(coq/Torch/Spec.v) on its domain, for every rank / extent / dim; `_refuted` theorems give witnesses where the
faithful model differs from PyTorch (genuine defects, listed in known_findings.json).

Tie (every run): each modelled function is traced for real (torch exporter OpRecorder, as the repository's own
ops_test does), the traced graph's skeleton (ops, integer attributes, integer constant operands) and the
onnxruntime output are compared *inside Coq* with the model (coq/Torch/Check.v), and the onnxruntime output is
compared with torch eager (direct oracle).  Beyond the modelled families a differential sweep over the
repository's OpInfo table is attached as exploration-grade evidence.
"""
from __future__ import annotations

import itertools
import json
import os
import time

import numpy as np

from harness import common

PROPERTY = "C08"
LEVEL = "proof"

# onnxruntime messages that mean "this build has no kernel / type support", not "the graph is wrong"
_NO_KERNEL = ("NOT_IMPLEMENTED", "Could not find an implementation", "is invalid.", "Type Error: Type 'tensor(")

# kernels whose onnxruntime behaviour deviates from the operator document on the listed input class
# (verdict 4: model == torch eager, runtime differs).  Checked by hand; anything else with verdict 4 is reported.
_KERNEL_DEVIATIONS = {
    "sum_dim": lambda a, k: any(d == 0 for d in a[0]["shape"]),   # ReduceSum on an empty tensor with unsorted axes
}
# Reduce* / ArgMax kernels of onnxruntime on a tensor without elements return the input unreduced for some axes / keepdims
# combinations (and a following Squeeze then fails): the model (operator document) agrees with torch eager there
for _n in ("all_dim", "any_dim", "all_dims", "any_dims", "all", "any", "prod", "prod_dim_int", "logsumexp", "argmax", "argmin",
           "prims_var", "max_dim", "min_dim"):
    _KERNEL_DEVIATIONS[_n] = lambda a, k: any(d == 0 for d in a[0]["shape"])


def _iota(shape, dtype="int64"):
    n = 1
    for d in shape:
        n *= d
    return {"t": dtype, "shape": list(shape), "data": [float(v) for v in range(n)] if dtype.startswith("float") else list(range(n))}


# witnesses of the _refuted theorems of Props/C08.v (same inputs), plus a few fixed in-domain instances
_WITNESSES = {
    "flatten": [([_iota([2, 3, 4, 0]), 1, 2], {}), ([_iota([2, 0, 3, 4]), 2, 3], {}), ([_iota([2, 3, 4, 5]), -3, 2], {}), ([_iota([]), 0, -1], {})],
    "reshape": [([_iota([3, 0]), [0, 0]], {}), ([_iota([2, 0]), [0, 2]], {}), ([_iota([2, 3, 4]), [4, -1]], {})],
    "view_copy": [([_iota([3, 0]), [0, 0]], {})],
    "narrow": [([_iota([3]), 0, -2, 2], {}), ([_iota([4]), 0, -3, 2], {})],
    "chunk": [([_iota([5]), 4, 0], {}), ([_iota([7]), 3, 0], {}), ([_iota([0, 2]), 3, 0], {})],
    "split": [([_iota([0]), 2, 0], {}), ([_iota([7]), 3, 0], {})],
    "roll": [([_iota([3]), [-4], [0]], {}), ([_iota([3]), [7], [0]], {}), ([_iota([3]), [1], [-1]], {}), ([_iota([3, 0]), [1], [0]], {}),
             ([_iota([3]), [-4]], {}), ([_iota([4]), [5], [0]], {}), ([_iota([2, 4]), [-1], [-2]], {})],
    "div_mode": [([{"t": "int64", "shape": [2], "data": [16777217, -7]}, {"t": "int64", "shape": [2], "data": [1, 2]}], {"rounding_mode": "floor"}),
                 ([{"t": "int64", "shape": [3], "data": [16777215, -16777215, 7]}, {"t": "int64", "shape": [3], "data": [-4096, 4097, -2]}], {"rounding_mode": "trunc"})],
    "cat": [([[_iota([0]), _iota([0])], 0], {}), ([[_iota([0]), _iota([2, 3]), _iota([2, 3])], 1], {})],
    # second group (Props/C08_diag.v, C08_pool.v, ...)
    "diagonal": [([_iota([3, 5]), -1, 0, 1], {}), ([_iota([5, 3]), -3, 0, 1], {}), ([_iota([3, 5]), 7, 0, 1], {}), ([_iota([2, 3, 5]), -1, -1, 1], {})],
    "max_pool1d": [([_iota([1, 1, 3], "float32"), [2], [2], [1], [1], True], {}),
                   ([_iota([1, 1, 1], "float32"), [2], [1], [1], [2], False], {})],                      # a window only in the padding
    "max_pool2d": [([_iota([1, 4, 5], "float32"), [3], [], [0, 0], [1, 1], False], {}),
                   ([_iota([1, 2, 6, 7], "float32"), 3, [1, 1], [1, 0], [1, 1], False], {}),
                   ([_iota([1, 4, 5], "float32"), [2, 2], [2], [0, 0], [1, 1], False], {}),
                   ([_iota([1, 4, 5], "float32"), [2, 2], [], [0, 0], [1], False], {}),
                   ([_iota([2, 1, 1, 3], "float32"), [2, 3], [], [1, 0], [2, 1], True], {})],
    "max_pool3d": [([_iota([1, 3, 4, 5], "float32"), [2], [], [0, 0, 0], [1, 1, 1], False], {}),
                   ([_iota([1, 1, 2, 4], "float32"), [2, 2, 2], [2, 1, 3], [1, 0, 0], [2, 1, 1], False], {})],
    "avg_pool2d": [([_iota([1, 4, 5], "float32"), [3], [], [0, 0], False, True], {}),
                   ([_iota([1, 4, 5], "float32"), [2, 2], [2], [0, 0], False, True], {})],
    "avg_pool3d": [([_iota([1, 3, 4, 5], "float32"), [2], [], [0, 0, 0], False, True], {})],
    "constant_pad_nd": [([_iota([2, 3, 4]), [1, -1, 0, 2], 7], {}), ([_iota([2, 3]), [-1, -1, -1, -1], 7], {}), ([_iota([3]), [2, -1], 7], {})],
    "unfold": [([_iota([]), 0, 0, 1], {}), ([_iota([2, 5, 3]), -2, 2, 2], {}), ([_iota([5]), 0, 2, 2], {})],
}


def _same(got, want):
    """None when equal, else a short description (structure / dtype / shape / values)."""
    if isinstance(want, (list, tuple)):
        if not isinstance(got, (list, tuple)):
            if len(want) == 1:              # a single tensor stands for a one-element list (outputs are flattened)
                return _same(got, want[0])
            return "structure"
        if len(got) != len(want):
            return f"structure {len(got)} vs {len(want)} outputs"
        for g, w in zip(got, want):
            r = _same(g, w)
            if r:
                return r
        return None
    if isinstance(got, (list, tuple)):
        return "structure"
    g, w = np.asarray(got), np.asarray(want)
    if g.dtype != w.dtype:
        return f"dtype {g.dtype} vs {w.dtype}"
    if g.shape != w.shape:
        return f"shape {g.shape} vs {w.shape}"
    if g.dtype.kind in "iub":
        return None if np.array_equal(g, w) else "values"
    return None if np.allclose(g, w, rtol=1e-5, atol=1e-6, equal_nan=True) else "values"


def _np(t):
    from harness import c08_exec
    torch = c08_exec.mods()["torch"]
    if isinstance(t, torch.Tensor):
        return t.numpy()
    if isinstance(t, (list, tuple)):
        return [_np(x) for x in t]
    return np.asarray(t)


def _skel_lit(sk):
    from harness.c08_fams import llz
    return "[" + "; ".join(f'("{name}", {llz(ints)})' for name, ints in sk) + "]"


def _finding_class(fam, a, k, want, got_desc):
    """Specific class of a failing input (part of the finding key)."""
    from harness.c08_fams import numel
    n = fam.name
    if getattr(fam, "finding", None) is not None:             # third group: the family names its own failing classes
        c = fam.finding(a, k, want, got_desc)
        if c:
            return c
        return "other:" + got_desc.split()[0]
    if n == "roll":
        sh = a[0]["shape"]
        dims = a[2] if len(a) > 2 else []
        pairs = [(s, numel(sh)) for s in a[1]] if not dims else [(s, sh[d]) for s, d in zip(a[1], dims)]
        if numel(sh) == 0:
            return "empty-tensor-nonempty-first-dim"
        if any((-s > m) if s < 0 else (s >= 2 * m) for s, m in pairs):
            return "shift-beyond-size"
        if any(d == -1 and s >= 0 for s, d in zip(a[1], dims)):
            return "last-dim-as-minus-one-nonnegative-shift"
    if n == "narrow" and a[2] < 0 and a[2] + a[3] == 0:
        return "negative-start-reaching-end"
    if n in ("reshape", "view_copy") and 0 in a[1]:
        return "zero-in-size"
    if n == "flatten" and any(d == 0 for d in a[0]["shape"]):
        return "zero-size-dim"
    if n == "chunk":
        size = a[0]["shape"][a[2]]
        if size == 0:
            return "empty-dim"
        if len(want) != a[1]:
            return "fewer-chunks-than-requested"
    if n == "split" and a[0]["shape"][a[2]] == 0:
        return "empty-dim"
    if n == "cat":
        leg = [t for t in a[0] if t["shape"] == [0]]
        if len(leg) == len(a[0]):
            return "all-inputs-legacy-empty"
        if leg and any(len(t["shape"]) > 1 for t in a[0]):
            return "legacy-empty-among-higher-rank"
    if n == "div_mode" and any(abs(v) >= 2 ** 24 for v in a[0]["data"] + a[1]["data"]):
        return "integer-operand-beyond-2^24"
    if n == "squeeze_dim" and a[0]["shape"] and a[0]["shape"][a[1]] != 1:
        return "listed-skip:extent-not-1"
    if n == "flip" and not a[0]["shape"] and a[1]:
        return "zero-dim-tensor-with-dims"
    if n == "unfold" and not a[0]["shape"] and a[2] == 0:
        return "zero-dim-tensor-size-0"
    if n.startswith(("max_pool", "avg_pool")):
        e = int(n[-2])
        named = ["kernel_size", "stride", "padding"] + (["dilation"] if n.startswith("max") else [])
        for nm, v in zip(named, a[1:]):
            if e > 1 and isinstance(v, list) and len(v) == 1 and nm != "padding":
                return f"one-entry-{nm}-list"
        w = np.asarray(want)
        if n.startswith("max") and w.dtype.kind == "f" and np.isneginf(w).any() and got_desc.startswith("values"):
            return "window-only-padding"
    return "other:" + got_desc.split()[0]


def families(ctx):
    from harness import c08_exec as X
    from harness import c08_fams

    t_imp = time.time()
    X.mods()
    from onnxscript import values as onnxscript_values
    from onnxscript.function_libs.torch_lib.ops import core, nn, prims
    ctx.cover(import_s=round(time.time() - t_imp, 1))
    mods_ = {"core": core, "nn": nn, "prims": prims}

    fams = c08_fams.build()
    if os.environ.get("C08_ONLY"):                            # development aid: only the named families (never set by ./check)
        fams = [f for f in fams if f.name in os.environ["C08_ONLY"].split(",")]
    cases, meta = {1: [], 2: [], 3: [], 5: []}, []
    stats = {}
    for fam in fams:
        n = fam.quick if ctx.tier == "quick" else fam.thorough
        st = stats.setdefault(fam.name, {"n": 0, "ok": 0, "torch_refuses": 0, "no_kernel": 0, "listed_skip": 0, "property_fails": 0})
        fn = getattr(mods_[fam.mod], fam.fn)
        # the witnesses of the `_refuted` theorems (and instances of the Examples) are replayed on the real code first
        for args, kwargs in itertools.chain(_WITNESSES.get(fam.name, []), fam.gen(ctx.rng, n)):
            if fam.name == "amax" and args[1] is None and not isinstance(fn, onnxscript_values.TracedOnnxFunction):
                args = [args[0], {"t": "int64", "shape": [0], "data": []}, args[2]]   # the script function requires dim: [] = all dims
            targs = X.to_torch(args)
            tk = {k: X.to_torch(v) for k, v in kwargs.items()}
            try:
                want = _np(fam.ref(*targs, **tk))
            except Exception:
                st["torch_refuses"] += 1          # outside the operator's domain
                continue
            st["n"] += 1
            sk, got, err = [], None, None
            try:
                tr = X.trace(fn, targs, tk)
                sk = X.skeleton(tr)
                if getattr(fam, "skel_filter", None) is not None:       # the family models a projection of the skeleton
                    sk = fam.skel_filter(sk)
            except Exception as e:                # tracing refused
                tr, err = None, f"trace: {type(e).__name__}: {e}"
            if tr is not None:
                try:
                    got = X.run_ort(tr)
                    if len(tr.outputs) == 1:
                        got = got[0]
                except Exception as e:
                    err = f"ort: {e}"
            if err and any(s in err for s in _NO_KERNEL):
                st["no_kernel"] += 1
                continue
            desc = "runtime-error" if err else _same(got, want)
            if desc and desc.startswith("values") and getattr(fam, "shape_only", False):
                desc = None                   # the family models structure, element type and shape only (values: kernel arithmetic)
            try:
                call = fam.call(args, kwargs)
                obs = "RErr" if err else fam.res(args, kwargs, got)
                wres = fam.res(args, kwargs, want)
            except Exception as e:                # an output of unexpected structure: cannot even be printed
                call, obs, wres = fam.call(args, kwargs), "RErr", "RNone"
                desc = desc or f"structure ({type(e).__name__})"
            if fam.chk == 2:
                call = call.replace("{FIXED}", "true" if _is_fixed(fam.name, sk, args, tr) else "false")
                obs, wres = {"RErr": "R2Err", "RNone": "R2None"}.get(obs, obs), {"RErr": "R2Err", "RNone": "R2None"}.get(wres, wres)
            if fam.chk == 3:
                if getattr(fam, "flags", None) is not None:            # which repaired variant the observed skeleton shows
                    fl = fam.flags(args, kwargs, [o for o, _ in sk], sk)
                    call = call.replace("{F1}", "true" if fl[0] else "false").replace("{F2}", "true" if fl[1] else "false")
                obs, wres = {"RErr": "R3Err", "RNone": "R3None"}.get(obs, obs), {"RErr": "R3Err", "RNone": "R3None"}.get(wres, wres)
            if fam.chk == 5:
                obs, wres = {"RErr": "R5Err", "RNone": "R5None"}.get(obs, obs), {"RErr": "R5Err", "RNone": "R5None"}.get(wres, wres)
            ctx.case((fam.name,) + tuple(fam.cls(args, kwargs)))
            fixed = _is_fixed(fam.name, sk, args, tr)
            if fam.chk == 1:
                cases[1].append(f"({'true' if fixed else 'false'}, {call}, {_skel_lit(sk)}, {obs}, {wres})")
            else:
                cases[fam.chk].append(f"({call}, {_skel_lit(sk)}, {obs}, {wres})")
            meta.append((fam, args, kwargs, desc, err, want, got, sk, (fam.chk, len(cases[fam.chk]) - 1)))
            if len(ctx.samples) < 4 and fam.name in ("flatten", "roll", "slice", "narrow") and not desc:
                ctx.sample({"family": fam.name, "args": args, "kwargs": kwargs, "skeleton": sk,
                            "onnxruntime": X.from_numpy(got), "torch": X.from_numpy(want)})

    # ---- the model, inside Coq
    shard = 400
    bodies, where = [], []
    for chk, ty, fn_ in ((1, "case", "disagreeing"), (2, "case2", "disagreeing2"), (3, "case3", "disagreeing3"), (5, "case5", "disagreeing5")):
        for i in range(0, len(cases[chk]), shard):
            bodies.append("Local Open Scope string_scope.\nLocal Open Scope Z_scope.\n"
                          f"Definition cases : list {ty} := [\n" + ";\n".join(cases[chk][i:i + shard]) + "].\n"
                          f"Eval vm_compute in ({fn_} cases).")
            where.append((chk, i))
    verdict_at = {}
    res = _coq_shards(ctx, ["OV.Torch.Onnx", "OV.Torch.Aten", "OV.Torch.Check", "OV.Torch.Spec2", "OV.Torch.Aten2", "OV.Torch.Check2",
                           "OV.Torch.Spec3", "OV.Torch.Aten3", "OV.Torch.Upsample", "OV.Torch.IndexModel", "OV.Torch.Misc4", "OV.Torch.Check3",
                           "OV.Torch.Group5", "OV.Torch.Check5"], bodies)
    model_ok = True
    for si, (ok, vals, raw) in enumerate(res):
        if not ok or not vals:
            ctx.tie_broken("correspondence", f"model-evaluation-shard-{si}", raw[-1500:])
            model_ok = False
            continue
        flat = common.parse_nat_list(vals[0])
        chk, base = where[si]
        for j in range(0, len(flat), 2):
            verdict_at[(chk, base + flat[j])] = flat[j + 1]
    verdict = {i: verdict_at[m[8]] for i, m in enumerate(meta) if m[8] in verdict_at}
    meta = [m[:8] for m in meta]

    n_dis = n_perm = n_dev = 0
    floor_hits = {}
    for i, (fam, args, kwargs, desc, err, want, got, sk) in enumerate(meta):
        st = stats[fam.name]
        v = verdict.get(i, 0)
        if not desc and v == 0:
            for label, (pred, _) in fam.floors.items():
                if pred(args, kwargs):
                    floor_hits[(fam.name, label)] = floor_hits.get((fam.name, label), 0) + 1
        replay = {"family": fam.name, "function": fam.fn, "args": args, "kwargs": kwargs, "skeleton": sk,
                  "onnxruntime": "error: " + err[:400] if err else X.from_numpy(got), "torch": X.from_numpy(want),
                  "coq_verdict": v}
        if desc:                                              # the property fails on the real code
            cls = _finding_class(fam, args, kwargs, want, desc)
            if cls.startswith("listed-skip"):
                st["listed_skip"] += 1
                continue
            if v == 4 and fam.name in _KERNEL_DEVIATIONS and _KERNEL_DEVIATIONS[fam.name](args, kwargs):
                n_dev += 1
                continue
            st["property_fails"] += 1
            ctx.violation(f"C08:{fam.fn}:{cls}",
                          f"{fam.fn}{_short(args, kwargs)}: traced graph on onnxruntime gives {desc if not err else 'an error'}, torch eager differs",
                          replay)
            continue
        st["ok"] += 1
        if v == 3:
            n_perm += 1
        elif v in (1, 2, 4):
            n_dis += 1
            ctx.tie_broken("correspondence", f"{fam.name}:{'skeleton' if v == 1 else 'output'}",
                           json.dumps(replay, default=str)[:1500])
    ctx.cover(families={k: v for k, v in sorted(stats.items())}, modelled_cases=len(meta),
              model_disagreements=n_dis, model_says_invalid_runtime_accepts=n_perm, runtime_deviates_from_operator_doc=n_dev)
    ctx.obligation("correspondence: skeleton of every traced graph = skel_f of the Coq model (coq/Torch/Check.v)",
                   model_ok and not any(verdict.get(i) == 1 and not m[3] for i, m in enumerate(meta)))
    ctx.obligation("correspondence: onnxruntime output of every traced graph = aten_f of the Coq model",
                   model_ok and not any(verdict.get(i) in (2, 4) and not m[3] for i, m in enumerate(meta)))
    for fam in fams:
        if stats[fam.name]["ok"] < 10:
            ctx.tie_broken("harness", f"generator-degenerate:{fam.name}", json.dumps(stats[fam.name]))
        for label, (_, floor) in fam.floors.items():           # input classes every run must have exercised (and found agreeing)
            if floor_hits.get((fam.name, label), 0) < floor:
                ctx.tie_broken("harness", f"generator-floor:{fam.name}:{label}",
                               f"{floor_hits.get((fam.name, label), 0)} agreeing cases, floor {floor}; {json.dumps(stats[fam.name])}")
    ctx.cover(generator_floors={f"{k[0]}: {k[1]}": v for k, v in sorted(floor_hits.items())})


# replayed on the real code on every run, direct oracle only (data the integer model cannot carry): (function, args, kwargs, torch reference, finding class)
def direct_witnesses(ctx):
    from harness import c08_exec as X
    torch = X.mods()["torch"]
    from onnxscript.function_libs.torch_lib.ops import core, nn
    A = torch.ops.aten
    inf = float("inf")
    up = {"t": "float32", "shape": [1, 1, 25], "data": [float(v % 7) for v in range(25)]}
    up2 = {"t": "float32", "shape": [1, 1, 25, 25], "data": [float(v % 7) for v in range(625)]}
    W = [("aten_upsample_nearest1d", [{"t": "float32", "shape": [1, 1, 4], "data": [1.0, 2.0, 3.0, 4.0]}, [7], 2.0], {},
          lambda x, o, s: A.upsample_nearest1d(x, o, s), "output-size-ignored-when-scales-given", nn),
         ("aten_upsample_nearestnd_vec", [up, None, [1.16]], {}, lambda x, o, s: A.upsample_nearest1d.vec(x, o, s), "scale-factor-float32-rounding", nn),
         ("aten_upsample_bilinear2d_vec", [up2, None, False, [1.16, 2.12]], {}, lambda x, o, a, s: A.upsample_bilinear2d.vec(x, o, a, s),
          "scale-factor-float32-rounding", nn),
         ("aten_scatter_reduce", [{"t": "float32", "shape": [3], "data": [1.0, 2.0, 3.0]}, 0, {"t": "int64", "shape": [2], "data": [0, 0]},
                                  {"t": "float32", "shape": [2], "data": [10.0, 20.0]}, "mean"], {"include_self": True},
          lambda x, d, i, s, r, include_self: torch.scatter_reduce(x, d, i, s, r, include_self=include_self), "reduce-mean", core),
         ("aten_diagonal", [{"t": "float32", "shape": [2, 2], "data": [1.0, inf, 3.0, 4.0]}, 0, 0, 1], {},
          lambda x, o, a, b: torch.diagonal(x, o, a, b), "non-finite-off-diagonal-element"),
         ("aten_diagonal", [{"t": "float32", "shape": [2, 3], "data": [1.0, 2.0, 3.0, float("nan"), 5.0, 6.0]}, 1, 0, 1], {},
          lambda x, o, a, b: torch.diagonal(x, o, a, b), "non-finite-off-diagonal-element")]
    for fname, args, kwargs, ref, cls, *mod in W:
        targs = X.to_torch(args)
        want = _np(ref(*targs, **kwargs))
        try:
            tr = X.trace(getattr(mod[0] if mod else core, fname), targs, kwargs)
            got = X.run_ort(tr)[0]
            desc = _same(got, want)
        except Exception as e:
            got, desc = None, f"error {type(e).__name__}: {e}"[:300]
        ctx.case(("direct-witness", fname, cls))
        if desc:
            ctx.violation(f"C08:{fname}:{cls}", f"{fname}{_short(args, kwargs)}: traced graph on onnxruntime gives {desc.split()[0]}, torch eager differs",
                          {"function": fname, "args": args, "kwargs": kwargs, "onnxruntime": X.from_numpy(got) if got is not None else desc,
                           "torch": X.from_numpy(want)})


def _coq_shards(ctx, requires, bodies, par=2, timeout=900):
    """Like ctx.coq_eval_shards (whose scratch-file naming breaks on the '-' of the scratch directory)."""
    from concurrent.futures import ThreadPoolExecutor
    hdr = "From Coq Require Import List ZArith String Bool QArith.\nImport ListNotations.\n"
    hdr += "".join(f"Require Import {r}.\n" for r in requires)
    hdr += "Set Printing Width 1000000.\nSet Printing Depth 1000000.\n"
    files = []
    for i, body in enumerate(bodies):
        fn = os.path.join(ctx.cases_dir, f"c08_shard_{i}.v")
        with open(fn, "w") as f:
            f.write(hdr + body + "\n")
        files.append(fn)

    def one(fn):
        rc, out = common.coqc_file(fn, timeout=timeout, cwd=ctx.cases_dir)
        return rc == 0, common.parse_evals(out), out
    with ThreadPoolExecutor(max_workers=par) as ex:
        return list(ex.map(one, files))


def _is_fixed(name, sk, args=None, tr=None):
    """which variant of the code produced the skeleton: the pinned one or the one repaired by a proposed fix"""
    ops = [o for o, _ in sk]
    if name == "cat":                       # proposed_fixes/ready/C08_15: Concat receives only the tensors that were not filtered out
        legacy = [t for t in args[0] if t["shape"] == [0]]
        if legacy and len(legacy) == len(args[0]):
            return ops == ["Identity"]
        if legacy and tr is not None:
            for node in tr.model.graph:
                if node.op_type == "Concat":
                    return len(node.inputs) == len(args[0]) - len(legacy)
        return False
    if name == "unfold":                    # proposed_fixes/ready/C08_16
        return "Slice" in ops
    if name == "diagonal":                  # proposed_fixes/C08_diagonal_where_mask.diff
        return "Where" in ops
    if name.startswith(("max_pool", "avg_pool")):   # proposed_fixes/C08_pool_expand_one_entry_lists.diff: one-entry lists arrive expanded
        e = int(name[-2])
        for o, ints in sk:
            if o in ("MaxPool", "AveragePool"):
                ker = ints[2]
                return e > 1 and len(ker) == e and any(isinstance(v, list) and len(v) == 1 for v in args[1:3] + (args[4:5] if o == "MaxPool" else []))
        return False
    if name in ("reshape", "view_copy"):
        return any(o == "Reshape" and ints and ints[0] == [1] for o, ints in sk)
    if name == "amax":                      # trace_only variant (ReduceMax emitted directly) vs script function (one call node)
        return "ReduceMax" in ops
    if name == "narrow":
        return "Where" in ops
    if name == "roll":
        return "Mod" in ops
    return False


def _short(args, kwargs):
    def f(x):
        if isinstance(x, dict) and "shape" in x:
            return f"<{x['t']}{x['shape']}>"
        if isinstance(x, list):
            return "[" + ",".join(f(y) for y in x) + "]"
        return repr(x)
    s = "(" + ", ".join([f(a) for a in args] + [f"{k}={f(v)}" for k, v in kwargs.items()]) + ")"
    return s[:200]


# ----------------------------------------------------------------------------- exploration sweep (subprocess)

_SWEEP_CFG = {
    "quick": {"samples_per_op": 6, "per_kind": 3, "budget_s": 130, "dtypes": ["float32", "int64"]},
    "thorough": {"samples_per_op": 12, "per_kind": 6, "budget_s": 1200,
                 "dtypes": ["float32", "int64", "int32", "bool", "uint8", "int16", "float64", "float16"]},
}
_BASELINE = os.path.join(common.VERIF, "corpus", "C08", "sweep_baseline.json")


def sweep_start(ctx):
    import subprocess
    env = common.env_for_impl()
    env["PYTHONPATH"] = common.REPO + os.pathsep + common.VERIF
    env["OMP_NUM_THREADS"] = "1"
    p = subprocess.Popen([common.PY, os.path.join(common.VERIF, "harness", "c08_sweep.py")], stdin=subprocess.PIPE,
                         stdout=subprocess.PIPE, stderr=subprocess.PIPE, text=True, env=env, cwd=ctx.scratch)
    p.stdin.write(json.dumps(_SWEEP_CFG[ctx.tier]))
    p.stdin.close()
    return p


def sweep_finish(ctx, p):
    try:
        p.stdin = None                                 # already closed by sweep_start; communicate() must not flush it
        out, err = p.communicate(timeout=1500)         # drains stdout and stderr together (reading one first can deadlock)
        rc = p.returncode
    except Exception as e:                         # pragma: no cover
        p.kill()
        ctx.tie_broken("harness", "sweep-timeout", repr(e))
        return
    lines = [l for l in out.splitlines() if l.startswith("{")]
    if rc != 0 or not lines:
        ctx.tie_broken("harness", "sweep-crashed", f"rc={rc}\n{err[-1500:]}")
        return
    res = json.loads(lines[-1])
    if os.environ.get("C08_WRITE_BASELINE") == "1":
        os.makedirs(os.path.dirname(_BASELINE), exist_ok=True)
        _old = json.load(open(_BASELINE)) if os.path.exists(_BASELINE) else {}
        old = set(_old.get("mismatches", []))
        _old_details = _old.get("details", {})
        with open(_BASELINE, "w") as f:
            json.dump({"comment": "known-findings file of the C08 sweep: mismatches (traced torch_lib function on onnxruntime vs torch eager) that "
                                  "harness/c08_sweep.py observes on the pinned tree for OpInfo samples (as-is or perturbed, torch accepting the "
                                  "call) that the repository does not list as skip/xfail. Written only by a developer run with C08_WRITE_BASELINE=1, "
                                  "never by a check. Each listed mismatch seen again is printed as KNOWN-FINDING; one that is NOT listed is a violation.",
                       "classification": _old.get("classification", {}),
                       "mismatches": sorted(old | set(res["mismatches"])),
                       "details": {**_old_details, **{k: res["details"].get(k, "") for k in sorted(res["mismatches"])}}}, f, indent=1)
    bdoc = json.load(open(_BASELINE)) if os.path.exists(_BASELINE) else {"mismatches": [], "details": {}}
    base = set(bdoc["mismatches"])
    new = [k for k in res["mismatches"] if k not in base]

    def vkey(k):
        opname, variant, fname, dtype, si, tag, kind = k.split("|")
        return f"C08:sweep:{fname}:{dtype}:#{si}:{tag}:{kind}"
    # the committed sweep baseline is a known-findings file: every listed mismatch that this run observes again is printed as a
    # KNOWN-FINDING (keyed by function, dtype, OpInfo sample index, perturbation and kind of mismatch); anything else is a violation
    have = {f["key"] for f in ctx.findings}
    for k in sorted(base):
        if vkey(k) not in have:
            ctx.findings.append({"property": "C08", "status": "known", "key": vkey(k),
                                 "what": "listed in corpus/C08/sweep_baseline.json (mismatch torch eager vs traced torch_lib function on onnxruntime "
                                         "on the pinned tree): " + str(bdoc.get("details", {}).get(k, ""))[:160]})
    for k in sorted(res["mismatches"]):
        opname, variant, fname, dtype, si, tag, kind = k.split("|")
        ctx.violation(vkey(k),
                      f"{fname} on OpInfo sample #{si} of '{opname}' ({dtype}, {tag}): traced graph on onnxruntime vs torch eager: {kind}: "
                      f"{res['details'].get(k, '')[:200]}",
                      {"sweep_key": k, "detail": res["details"].get(k, ""), "config": _SWEEP_CFG[ctx.tier],
                       "how": "harness/c08_sweep.py with {'only': [op_info_name]} regenerates the sample (torch.manual_seed(42))"})
    for name, status in sorted(res.get("e2e", {}).items()):
        ctx.case(("e2e", name))
        if status != "equal":
            ctx.violation(f"C08:e2e:{name}:{status.split(':')[0]}",
                          f"torch.onnx.export(dynamo=True) of the module '{name}' (harness/c08_sweep.py end_to_end): {status}",
                          {"module": name, "status": status, "how": "harness/c08_sweep.py end_to_end()"})
    ctx.case(("sweep",), n=res["ran"])
    ctx.cover(exploration_only=[
        "differential sweep over tests/function_libs/torch_lib/ops_test_data.TESTED_TORCHLIB_OPS (not counted among the obligations)",
        {"runs": res["ran"], "op_dtype_pairs": res["ops"], "by_status": res["by_status"], "truncated": res["truncated"],
         "wall_s": res["wall_s"], "config": _SWEEP_CFG[ctx.tier],
         "mismatches_in_baseline": len([k for k in res["mismatches"] if k in base]), "mismatches_new": len(new),
         "baseline_examples": sorted(k for k in res["mismatches"] if k in base)[:12]},
        {"end_to_end_export": res.get("e2e", {})}])


def run(ctx):
    ctx.assume("ONNX operator semantics (Slice, Reshape, Flatten, Squeeze, Unsqueeze, Transpose, Expand, Tile, Concat, Gather, "
               "Split, SplitToSequence, Reduce*, Div/Mod on integers, Clip, Range, Trilu, CumSum) are transcribed from the operator "
               "documents into coq/Torch/Onnx.v; they are measured against onnxruntime on every generated case")
    ctx.assume("PyTorch semantics are transcribed from ATen's shape functions into coq/Torch/Spec.v; torch eager is the oracle on every case")
    ctx.assume("data-moving operators are modelled along the operated axis (a tensor is the list of its slabs along that axis); "
               "numeric kernels (MatMul, softmax, normalisations, float rounding) are outside the model")
    ctx.assume("third group: ReduceMin / ReduceMax over an empty set yield the extreme value of INT64, Reduce* / ArgMax / ScatterElements / Conv / "
               "ConvTranspose shape and attribute rules as in the operator documents (coq/Torch/Onnx3.v); var / std are compared over the "
               "rationals with IEEE division by zero, the observed float32 output must lie within 2e-4 relative + 1e-5 of the model's value")
    ctx.trust("onnxruntime 1.30 CPU (ORT_DISABLE_ALL) and torch 2.14 eager as oracles; torch.onnx exporter OpRecorder for tracing")
    if os.environ.get("C08_ONLY"):
        ctx.check_props(extra_files=["Torch/Check.v", "Torch/Check2.v", "Torch/Check3.v", "Torch/Check5.v"])
        families(ctx)
        ctx.tie_broken("harness", "development-run", "C08_ONLY is set: the sweep and the other families were skipped")
        return
    sw = sweep_start(ctx)                    # runs beside the proof re-check and the modelled families
    try:
        ctx.check_props(extra_files=["Torch/Check.v", "Torch/Check2.v", "Torch/Check3.v", "Torch/Check5.v"])      # the correspondence checkers are (re)built with the theorems
        families(ctx)
        direct_witnesses(ctx)
    finally:
        sweep_finish(ctx, sw)
    ctx.cover(not_covered=[
        "numeric kernels (MatMul/conv/pool/softmax/normalisation, float rounding): only the differential sweep",
        "multi-axis roll/flip as one statement (proved per axis; multi-axis cases: skeleton + direct oracle)",
        "squeeze (no dim) and split_with_sizes: model + correspondence + direct oracle, no theorem beyond the operator transcription",
        "float and complex paths of the modelled functions; dtype promotion rules (e.g. clamp of an int tensor with a float bound, sum of int32)",
        "third group (reductions, scatter, convolution): values of all.dims / any.dims over several dims, argmax tie-breaking, scatter values, "
        "convolution values, var / std rounding are direct-oracle only; transposed convolution with output_padding >= stride (legal in PyTorch "
        "when < dilation) is not generated (onnxruntime's ConvTranspose refuses it); logsumexp with dim = [] on rank >= 1 (torch eager raises)",
        "Reduce* / ArgMax on tensors without elements: onnxruntime returns the input unreduced for some axes / keepdims combinations; cases "
        "where the model equals torch eager there are counted as runtime deviations, not findings",
        "registered overloads outside the ~70 modelled functions: exploration-grade sweep over the repository's OpInfo table only",
        "torch.onnx.export(dynamo=True): 8 fixed small modules only (exploration)"])
    if ctx.tier == "thorough":
        ctx.coqchk(["Props.C08"])
