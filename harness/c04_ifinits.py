"""C03 / C04 family `if-initializers`: k = 1..4 sibling (and nested) If nodes whose condition is known at optimization time and whose
TAKEN branches each own initializers with the SAME names (`scale`, `bias`); the names also clash with initializers of the destination
graph and with already-bumped names (`scale_1`, `scale_2`).  FoldConstantsPass inlines every taken branch and moves its initializers
into the graph that owns the If node (`_move_initializers_to_graph`: rename on a clash).  Sibling subgraphs re-using an initializer name
is valid ONNX (the checker accepts it, onnxruntime and onnx.reference run it).

Direct oracle (through c04.check_result / c03 differential): fold_constants / optimize / optimize_ir, ModelProto and ir.Model entry, must
return, the result passes the checker, keeps the signature, is well-formed (wf_graphb in Coq) and computes the same values.
Correspondence (run_tie): every call of the real `_move_initializers_to_graph` during fold_constants on these models is recorded
(initializer names of src, of dst before, names the moved values got, of dst after, raised?) and compared in Coq with
Opt/MoveInits.v `observed_ok` (the chosen names are the first unused name_<n>)."""
from __future__ import annotations

import collections

import numpy as np
import onnx
import onnx.helper as oh
import onnx.numpy_helper as onh

from harness import c03_gen as G
from harness.common import cbool, clist, cstr

FLOAT = onnx.TensorProto.FLOAT
BOOL = onnx.TensorProto.BOOL
FACTORS = [2.0, 3.0, 5.0, 7.0, 11.0, 13.0, 17.0]


def _init(name, value):
    return onh.from_array(np.array([value], dtype=np.float32), name=name)


def _branch(tag, names, values, x, inner=None):
    """a branch computing ((x op0 n0) op1 n1 ...) with its own initializers `names`; `inner` = (nodes, out) spliced after (nested If)"""
    nodes, cur = [], x
    for j, (n, _v) in enumerate(zip(names, values)):
        out = f"{tag}_v{j}"
        nodes.append(oh.make_node("Mul" if j % 2 == 0 else "Add", [cur, n], [out]))
        cur = out
    if inner is not None:
        inodes, iout = inner
        nodes += inodes
        nodes.append(oh.make_node("Add", [cur, iout], [f"{tag}_sum"]))
        cur = f"{tag}_sum"
    return oh.make_graph(nodes, tag, [], [oh.make_tensor_value_info(cur, FLOAT, ["N"])], initializer=[_init(n, v) for n, v in zip(names, values)])


def _const_cond(rng, nodes, inits, name, value):
    if rng.random() < 0.5:
        nodes.append(oh.make_node("Constant", [], [name], value=onh.from_array(np.array(value, dtype=bool))))
    else:
        inits.append(onh.from_array(np.array(value, dtype=bool), name=name))


def _if_nodes(rng, tag, k, branch_names, nodes, inits, x="x", swap=False):
    """k sibling If nodes on constant conditions (both branches own the same initializer names); returns their outputs"""
    outs = []
    for i in range(k):
        taken = (i % 2 == 0) != swap
        _const_cond(rng, nodes, inits, f"{tag}cond{i}", taken)
        f = FACTORS[i % len(FACTORS)]
        tb = _branch(f"{tag}then{i}", branch_names, [f + j for j in range(len(branch_names))], x)
        eb = _branch(f"{tag}else{i}", branch_names, [-f - j for j in range(len(branch_names))], x)
        nodes.append(oh.make_node("If", [f"{tag}cond{i}"], [f"{tag}t{i}"], then_branch=tb, else_branch=eb))
        outs.append(f"{tag}t{i}")
    return outs


def _main_uses(main_inits, nodes):
    outs = []
    for j, n in enumerate(main_inits):
        nodes.append(oh.make_node("Mul" if j % 2 == 0 else "Add", ["x", n], [f"m_{j}"]))
        outs.append(f"m_{j}")
    return outs


def _model(rng, nodes, inits, outs, extra_inputs=()):
    nodes = list(nodes) + [oh.make_node("Sum", outs, ["y"])]
    g = oh.make_graph(nodes, "main", [oh.make_tensor_value_info("x", FLOAT, ["N"])] + list(extra_inputs), [oh.make_tensor_value_info("y", FLOAT, ["N"])],
                      initializer=inits)
    return oh.make_model(g, opset_imports=[oh.make_opsetid("", rng.choice([18, 21]))], ir_version=rng.choice([8, 9, 10]))


def _siblings(rng, k, branch_names, main_inits):
    nodes, inits = [], [_init(n, 100.0 + j) for j, n in enumerate(main_inits)]
    outs = _if_nodes(rng, "", k, branch_names, nodes, inits, swap=rng.random() < 0.5)
    outs += _main_uses(main_inits, nodes)
    return _model(rng, nodes, inits, outs)


def _nested(rng, outer_names, inner_names, main_inits, k_inner):
    """If (const) { own initializers; k_inner If (const) { own initializers } }"""
    nodes, inits = [], [_init(n, 100.0 + j) for j, n in enumerate(main_inits)]
    _const_cond(rng, nodes, inits, "ocond", True)
    inner_nodes, inner_inits = [], []
    for i in range(k_inner):
        inner_nodes.append(oh.make_node("Constant", [], [f"icond{i}"], value=onh.from_array(np.array(i % 2 == 0, dtype=bool))))
        f = FACTORS[(i + 3) % len(FACTORS)]
        inner_nodes.append(oh.make_node("If", [f"icond{i}"], [f"it{i}"],
                                        then_branch=_branch(f"ithen{i}", inner_names, [f + j for j in range(len(inner_names))], "x"),
                                        else_branch=_branch(f"ielse{i}", inner_names, [-f - j for j in range(len(inner_names))], "x")))
    if k_inner > 1:
        inner_nodes.append(oh.make_node("Sum", [f"it{i}" for i in range(k_inner)], ["isum"]))
    iout = "isum" if k_inner > 1 else "it0"
    tb = _branch("othen", outer_names, [1.5 + j for j in range(len(outer_names))], "x", inner=(inner_nodes, iout))
    eb = _branch("oelse", outer_names, [-1.5 - j for j in range(len(outer_names))], "x")
    nodes.append(oh.make_node("If", ["ocond"], ["ot"], then_branch=tb, else_branch=eb))
    outs = ["ot"] + _main_uses(main_inits, nodes)
    return _model(rng, nodes, inits, outs)


def _in_dynamic_if(rng, k, branch_names, dst_inits, main_inits):
    """If (run-time condition) { then: k constant-condition Ifs with clashing initializers, the body's own initializers } { else: Neg }:
    the destination of the moves is the BODY graph"""
    nodes, inits = [], [_init(n, 100.0 + j) for j, n in enumerate(main_inits)]
    bnodes, binits = [], [_init(n, 50.0 + j) for j, n in enumerate(dst_inits)]
    bouts = []
    for i in range(k):
        bnodes.append(oh.make_node("Constant", [], [f"bcond{i}"], value=onh.from_array(np.array(i % 2 == 0, dtype=bool))))
        f = FACTORS[i % len(FACTORS)]
        bnodes.append(oh.make_node("If", [f"bcond{i}"], [f"bt{i}"],
                                   then_branch=_branch(f"bthen{i}", branch_names, [f + j for j in range(len(branch_names))], "x"),
                                   else_branch=_branch(f"belse{i}", branch_names, [-f - j for j in range(len(branch_names))], "x")))
        bouts.append(f"bt{i}")
    for j, n in enumerate(dst_inits):
        bnodes.append(oh.make_node("Mul", ["x", n], [f"bm{j}"]))
        bouts.append(f"bm{j}")
    bnodes.append(oh.make_node("Sum", bouts, ["bsum"]))
    tb = oh.make_graph(bnodes, "dyn_then", [], [oh.make_tensor_value_info("bsum", FLOAT, ["N"])], initializer=binits)
    eb = oh.make_graph([oh.make_node("Neg", ["x"], ["bneg"])], "dyn_else", [], [oh.make_tensor_value_info("bneg", FLOAT, ["N"])])
    nodes.append(oh.make_node("If", ["c"], ["dt"], then_branch=tb, else_branch=eb))
    outs = ["dt"] + _main_uses(main_inits, nodes)
    return _model(rng, nodes, inits, outs, extra_inputs=[oh.make_tensor_value_info("c", BOOL, [])])


ON = (2, True, True, True, 8192, 512 * 512)
ONE_ITER = (1, False, True, False, 8192, 512 * 512)
NO_INLINE = (2, True, False, True, 8192, 512 * 512)


def plan(rng):
    return [("fold_constants", None, False), ("fold_constants", ON, True), ("optimize", None, False), ("optimize", ONE_ITER, True),
            ("optimize_ir", NO_INLINE, True)]


def specs(quick):
    """(label, builder) pairs; every k = 1..4 occurs at every tier"""
    S = []
    # a main-graph `scale` is SHADOWED by the branch initializers (checker-valid, both runtimes run it, but they disagree on which one a
    # branch reads): such models only enter the totality / validity checks; the other mains clash only after the first move
    mains = [(), ("scale_1",), ("scale_2",), ("scale_1", "scale_2"), ("scale",), ("scale", "scale_1"), ("scale_1", "scale_1_1")]
    for k in (1, 2, 3, 4):
        for mi, main in enumerate(mains):
            for bi, bn in enumerate((("scale",), ("scale", "bias"), ("scale", "scale_1"))):
                if quick and (k + mi + bi) % 3 != 0 and not (k >= 3 and bi == 0 and mi in (0, 1, 4)):
                    continue
                S.append((f"siblings:k={k}:branch={'+'.join(bn)}:main={'+'.join(main) or 'none'}",
                          lambda rng, k=k, bn=bn, main=main: _siblings(rng, k, bn, main)))
    for oi, (on, inn, main, ki) in enumerate([(("bias",), ("scale",), (), 1), (("bias",), ("scale",), ("scale_1",), 3), (("scale_1",), ("scale",), (), 2),
                                              (("bias",), ("scale",), ("scale", "scale_1"), 3), (("scale_1", "bias"), ("scale", "bias_1"), ("scale_2",), 2)]):
        if quick and oi in (0, 4):
            continue
        S.append((f"nested:outer={'+'.join(on)}:inner={'+'.join(inn)}x{ki}:main={'+'.join(main) or 'none'}",
                  lambda rng, on=on, inn=inn, main=main, ki=ki: _nested(rng, on, inn, main, ki)))
    for di, (k, bn, dst, main) in enumerate([(3, ("scale",), (), ()), (2, ("scale",), ("scale_1",), ()), (3, ("scale",), ("scale_1",), ("scale_2",)),
                                             (4, ("scale", "bias"), ("scale_2", "bias_1"), ())]):
        if quick and di == 3:
            continue
        S.append((f"in-dynamic-if:k={k}:branch={'+'.join(bn)}:body={'+'.join(dst) or 'none'}:main={'+'.join(main) or 'none'}",
                  lambda rng, k=k, bn=bn, dst=dst, main=main: _in_dynamic_if(rng, k, bn, dst, main)))
    return S


def cases(rng, quick):
    for label, build in specs(quick):
        try:
            m = build(rng)
            feeds = [{"x": np.array([1.0, -2.0, 0.5], dtype=np.float32)}, {"x": np.array([0.25], dtype=np.float32)}]
            if any(i.name == "c" for i in m.graph.input):
                feeds = [dict(feeds[0], c=np.array(True)), dict(feeds[1], c=np.array(False)), dict(feeds[1], c=np.array(True))]
            c = G.Case(m, feeds, ["if-initializers:" + label.split(":")[0]] + label.split(":")[1:], [False], "if-inits", "if-inits-" + label)
            c.plan = plan(rng)
            yield c
        except Exception as e:  # a generator bug must not look like a finding
            yield ("generator-error", f"{label}: {type(e).__name__}: {e}")


# ------------------------------------------------------------------------------------------- correspondence with Opt/MoveInits.v

def observe_moves(model_proto, shape_inference=False):
    """run the real fold_constants on an ir.Model copy with `_move_initializers_to_graph` wrapped; -> (records, exception or None);
    record = (src names, dst names before, raised, names of the moved values afterwards, dst names afterwards)"""
    import onnx_ir as ir
    import onnxscript.optimizer._constant_folding as cf
    mp = onnx.ModelProto()
    mp.CopyFrom(model_proto)
    mi = ir.serde.deserialize_model(mp)
    recs = []
    orig = cf._move_initializers_to_graph

    def wrapped(src, dst):
        src_names = list(src.initializers)
        vals = [src.initializers[n] for n in src_names]
        before = list(dst.initializers)
        try:
            orig(src, dst)
        except Exception:
            recs.append((src_names, before, True, [], []))
            raise
        recs.append((src_names, before, False, [v.name for v in vals], list(dst.initializers)))

    cf._move_initializers_to_graph = wrapped
    err = None
    try:
        cf.fold_constants(mi, onnx_shape_inference=shape_inference)
    except Exception as e:
        err = e
    finally:
        cf._move_initializers_to_graph = orig
    return recs, err


def run_tie(ctx, the_cases):
    """every observed call of the real helper = Opt/MoveInits.v (observed_ok); -> stats"""
    stats = collections.Counter()
    rows, meta = [], []
    for c in the_cases:
        try:
            recs, err = observe_moves(c.model, shape_inference=(len(meta) % 2 == 1))
        except Exception as e:
            ctx.tie_broken("harness", "if-initializers:observe", f"{c.ident}: {type(e).__name__}: {e}")
            continue
        stats["models"] += 1
        stats["fold-raised"] += int(err is not None)
        for (src, before, raised, news, after) in recs:
            stats["calls"] += 1
            stats["calls-with-a-rename"] += int(any(a != b for a, b in zip(src, news)))
            stats["calls-with-a-second-bump"] += int(any(b.startswith(a + "_") and b != a + "_1" for a, b in zip(src, news)))
            stats["calls-raised"] += int(raised)
            rows.append(f"observed_ok {clist(src, cstr)} {clist(before, cstr)} {cbool(raised)} {clist(news, cstr)} {clist(after, cstr)}")
            meta.append((c, src, before, raised, news, after))
    if not rows:
        ctx.tie_broken("correspondence", "if-initializers:no-call-observed", f"{dict(stats)}")
        return stats
    body = ("Fixpoint bad (i : nat) (l : list bool) : list nat := match l with [] => [] | b :: t => (if b then [] else [i]) ++ bad (S i) t end.\n"
            f"Eval vm_compute in (bad 0 {clist(rows)}).\n")
    ok, vals, raw = ctx.coq_eval(["OV.Graph.Syntax", "OV.Opt.MoveInits"], body, timeout=600, name="moveinits")
    if not ok or not vals:
        ctx.tie_broken("correspondence", "if-initializers:model-evaluation", raw[-800:])
        return stats
    from harness.common import parse_nat_list
    badset = parse_nat_list(vals[0])
    stats["calls-disagreeing"] = len(badset)
    for i in badset[:3]:
        c, src, before, raised, news, after = meta[i]
        # the direct oracle on this input (the entry points raise / produce an invalid model) is evaluated by the callers on the same
        # case; here only the broken correspondence is reported
        ctx.tie_broken("correspondence", f"if-initializers:{c.ident}",
                       f"_move_initializers_to_graph(src={src}, dst={before}): raised={raised}, new names {news}, dst afterwards {after} "
                       f"- Opt/MoveInits.v says otherwise")
    return stats
