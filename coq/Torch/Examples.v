(* C08 -- non-vacuity: every implication proved in AxisProofs / ShapeProofs / ArithProofs has its hypotheses
   satisfied on a non-trivial instance, and the two sides are evaluated on it. *)
From Coq Require Import ZArith List Bool.
Require Import OV.Torch.Onnx OV.Torch.Spec OV.Torch.Aten.
Import ListNotations.
Local Open Scope Z_scope.

Example ex_flatten : torch_flatten [2; 3; 4; 5] (-3) 2 = Some [2; 12; 5] /\ aten_flatten [2; 3; 4; 5] (-3) 2 = Some [2; 12; 5].
Proof. split; reflexivity. Qed.
Example ex_flatten_0d : torch_flatten [] 0 (-1) = Some [1] /\ aten_flatten [] 0 (-1) = Some [1].
Proof. split; reflexivity. Qed.
Example ex_flatten_fast : aten_flatten [2; 3; 4] 1 (-1) = Some [2; 12] /\ aten_flatten [2; 3; 4] 0 (-2) = Some [6; 4].
Proof. split; reflexivity. Qed.
Example ex_unflatten : torch_unflatten [2; 12; 5] (-2) [3; -1] = Some [2; 3; 4; 5] /\ aten_unflatten [2; 12; 5] (-2) [3; -1] = Some [2; 3; 4; 5].
Proof. split; reflexivity. Qed.
Example ex_squeeze_dim : torch_squeeze_dim [2; 1; 3] (-2) = Some [2; 3] /\ aten_squeeze_dim [2; 1; 3] (-2) = Some [2; 3].
Proof. split; reflexivity. Qed.
Example ex_unsqueeze : aten_unsqueeze [2; 3] (-1) = Some [2; 3; 1] /\ aten_unsqueeze [2; 3] (-3) = Some [1; 2; 3].
Proof. split; reflexivity. Qed.
Example ex_permute : torch_permute [2; 3; 4] [2; -3; 1] = Some [4; 2; 3] /\ aten_permute [2; 3; 4] [2; -3; 1] = Some [4; 2; 3].
Proof. split; reflexivity. Qed.
Example ex_transpose : torch_transpose [2; 3; 4] (-1) 0 = Some [4; 3; 2] /\ aten_transpose [2; 3; 4] (-1) 0 = Some [4; 3; 2].
Proof. split; reflexivity. Qed.
Example ex_t : torch_t [2; 3] = Some [3; 2] /\ aten_t [2; 3] = Some [3; 2].
Proof. split; reflexivity. Qed.
Example ex_expand : torch_expand [1; 3] [2; -1; 3] = Some [2; 1; 3] /\ aten_expand [1; 3] [2; -1; 3] = Some [2; 1; 3].
Proof. split; reflexivity. Qed.
Example ex_view : torch_view [2; 3; 4] [4; -1] = Some [4; 6] /\ aten_view [2; 3; 4] [4; -1] = Some [4; 6] /\ aten_reshape [2; 3; 4] [4; -1] = Some [4; 6].
Proof. repeat split; reflexivity. Qed.
Example ex_view_zero : torch_view [3; 0] [0; 5] = Some [0; 5] /\ aten_view [3; 0] [0; 5] = Some [0; 5].
Proof. split; reflexivity. Qed.
Example ex_repeat : torch_repeat [2; 3] [2; 1; 3] = Some [2; 2; 9] /\ aten_repeat [2; 3] [2; 1; 3] = Some [2; 2; 9].
Proof. split; reflexivity. Qed.
Example ex_tile : torch_tile [2; 3] [2] = Some [2; 6] /\ aten_tile [2; 3] [2] = Some [2; 6] /\ aten_tile [2; 3] [2; 1; 3] = Some [2; 2; 9].
Proof. repeat split; reflexivity. Qed.
Example ex_cat : torch_cat_shape [[2; 3]; [2; 1]] (-1) = Some [2; 4] /\ aten_cat [[2; 3]; [2; 1]] (-1) = Some [2; 4].
Proof. split; reflexivity. Qed.
Example ex_sum : torch_reduce_shape [2; 3; 4] (Some [0; -1]) true = Some [1; 3; 1] /\ aten_sum_dim [2; 3; 4] (Some [0; -1]) true = Some [1; 3; 1]
  /\ aten_sum_dim [2; 3; 4] (Some []) false = Some [] /\ aten_amax [2; 3; 4] (Some [-2]) false = Some [2; 4] /\ aten_amax [2; 3; 4] None true = Some [1; 1; 1].
Proof. repeat split; reflexivity. Qed.

Example ex_select : aten_select 3 (-2) [10; 20; 30] (-1) = Some (1, 30) /\ torch_select [10; 20; 30] (-1) = Some 30.
Proof. split; reflexivity. Qed.
Example ex_slice : aten_slice 2 (-1) [0; 1; 2; 3; 4] (Some (-4)) None (Some 2) = Some (1, [1; 3])
  /\ torch_slice [0; 1; 2; 3; 4] (Some (-4)) None 2 = Some [1; 3].
Proof. split; reflexivity. Qed.
Example ex_narrow : torch_narrow [0; 1; 2; 3] (-3) 2 = Some [1; 2] /\ aten_narrow false 1 0 [0; 1; 2; 3] (-3) 2 = Some (0, [1; 2])
  /\ aten_narrow true 1 0 [0; 1; 2; 3] (-2) 2 = Some (0, [2; 3]).
Proof. repeat split; reflexivity. Qed.
Example ex_roll : torch_roll1 [0; 1; 2; 3] 5 = [3; 0; 1; 2] /\ aten_roll_dim false 2 8 0 [0; 1; 2; 3] 5 = Some (0, [3; 0; 1; 2])
  /\ aten_roll_dim false 2 8 (-2) [0; 1; 2; 3] (-1) = Some (0, [1; 2; 3; 0]) /\ aten_roll_dim true 2 8 (-1) [0; 1; 2; 3] 9 = Some (1, [3; 0; 1; 2]).
Proof. repeat split; reflexivity. Qed.
Example ex_roll_flat : aten_roll_flat false [0; 1; 2; 3] (-3) = Some [3; 0; 1; 2] /\ torch_roll1 [0; 1; 2; 3] (-3) = [3; 0; 1; 2].
Proof. split; reflexivity. Qed.
Example ex_flip : aten_flip1 2 (-1) [1; 2; 3] = Some (1, [3; 2; 1]).
Proof. reflexivity. Qed.
Example ex_index_select : torch_index_select [10; 20; 30] [2; 0; 2] = Some [30; 10; 30] /\ aten_index_select 1 (-1) [10; 20; 30] [2; 0; 2] = Some (0, [30; 10; 30]).
Proof. split; reflexivity. Qed.
Example ex_split : torch_split_sizes 7 3 = Some [3; 3; 1] /\ aten_split 1 0 [0; 1; 2; 3; 4; 5; 6] 3 = Some (0, [[0; 1; 2]; [3; 4; 5]; [6]]).
Proof. split; reflexivity. Qed.
Example ex_chunk : split_num_outputs 7 3 = Some [3; 3; 1] /\ torch_chunk_sizes 7 3 = Some [3; 3; 1]
  /\ aten_chunk 1 0 [0; 1; 2; 3; 4; 5; 6] 3 = Some (0, [[0; 1; 2]; [3; 4; 5]; [6]]).
Proof. repeat split; reflexivity. Qed.
Example ex_cumsum : aten_cumsum 2 (-1) [[1; 2]; [3; 4]; [5; 6]] = Some (1, [[1; 2]; [4; 6]; [9; 12]]).
Proof. reflexivity. Qed.
Example ex_arith : aten_floor_divide true (-7) 2 = -4 /\ aten_floor_divide true 7 (-2) = -4 /\ aten_remainder (-7) 2 = 1 /\ aten_fmod (-7) 2 = -1
  /\ aten_clamp 7 (Some 5) (Some 2) = 2 /\ torch_clamp 7 (Some 5) (Some 2) = Some 2.
Proof. repeat split; reflexivity. Qed.
Example ex_arange : torch_arange 3 (-4) (-2) = Some [3; 1; -1; -3] /\ aten_arange 3 (-4) (-2) = Some [3; 1; -1; -3].
Proof. split; reflexivity. Qed.
