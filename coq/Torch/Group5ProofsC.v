(* C08 (fifth group) -- Reshape with one inferred extent, pixel_shuffle, group_norm statistics, repeat_interleave (third proofs file). *)
From Coq Require Import ZArith List Bool Lia ZifyBool.
Require Import OV.Torch.Onnx OV.Torch.Onnx2 OV.Torch.Onnx3 OV.Torch.Spec OV.Torch.Spec2 OV.Torch.Aten OV.Torch.Aten2
               OV.Torch.Lemmas OV.Torch.ShapeProofs OV.Torch.Group5.
Import ListNotations.
Local Open Scope Z_scope.

(* Reshape-14 (allowzero = 0) with one -1 among positive extents infers the missing factor, also when that factor is 0 *)
Lemma reshape_infer1 : forall ins pre post m,
  (forall x, In x (pre ++ post) -> 0 < x) -> prodZ ins = prodZ pre * m * prodZ post ->
  reshape_shape ins (pre ++ [-1] ++ post) false = Some (pre ++ [m] ++ post).
Proof.
  intros ins pre post m Hpos Htot. unfold reshape_shape.
  assert (Hhd : forall x, In x pre -> 0 < x) by (intros; apply Hpos; apply in_or_app; left; assumption).
  assert (Htl : forall x, In x post -> 0 < x) by (intros; apply Hpos; apply in_or_app; right; assumption).
  assert (Hall : forall x, In x (pre ++ [-1] ++ post) -> 0 < x \/ x = -1).
  { intros x Hx. apply in_app_or in Hx. destruct Hx as [Hx | Hx]; [left; apply Hhd; assumption|].
    apply in_app_or in Hx. destruct Hx as [[<- | []] | Hx]; [right; reflexivity | left; apply Htl; assumption]. }
  rewrite existsb_false by (intros x Hx; destruct (Hall x Hx); lia).
  assert (Hf1 : forall l, (forall x, In x l -> 0 < x) -> filter (Z.eqb (-1)) l = []).
  { induction l; intro H; [reflexivity|]. cbn [filter]. replace (-1 =? a) with false by (specialize (H a (or_introl eq_refl)); lia).
    apply IHl. intros; apply H; right; assumption. }
  assert (count_of (-1) (pre ++ [-1] ++ post) = 1%nat) as ->.
  { unfold count_of. rewrite !filter_app'. rewrite (Hf1 pre Hhd), (Hf1 post Htl). reflexivity. }
  cbn [Nat.ltb Nat.leb andb].
  rewrite resolve_zeros_id by (intro H0; destruct (Hall 0 H0); lia).
  assert (has (-1) (pre ++ [-1] ++ post) = true) as -> by (apply has_In; apply in_or_app; right; left; reflexivity).
  assert (Hf2 : forall l, (forall x, In x l -> 0 < x) -> filter (fun t => negb (t =? -1)) l = l).
  { intros l H. apply filter_id. intros x Hx. specialize (H x Hx). replace (x =? -1) with false by lia. reflexivity. }
  rewrite !filter_app'. rewrite (Hf2 pre Hhd), (Hf2 post Htl). change (filter (fun t => negb (t =? -1)) [-1]) with (@nil Z). cbn [app].
  rewrite prodZ_app.
  assert (Hph : 0 < prodZ pre) by (apply prodZ_pos; apply Forall_forall; assumption).
  assert (Hpt : 0 < prodZ post) by (apply prodZ_pos; apply Forall_forall; assumption).
  assert (Hne : prodZ pre * prodZ post <> 0) by nia.
  assert (Hdiv : prodZ ins = m * (prodZ pre * prodZ post)) by (rewrite Htot; ring).
  replace (prodZ pre * prodZ post =? 0) with false by lia.
  rewrite Hdiv. rewrite Z.mod_mul by assumption. cbn [Z.eqb negb orb].
  rewrite Z.div_mul by assumption.
  f_equal. rewrite !map_app.
  rewrite (map_id_on _ pre) by (intros x Hx; specialize (Hhd x Hx); replace (x =? -1) with false by lia; reflexivity).
  cbn [map Z.eqb Pos.eqb app].
  rewrite (map_id_on _ post) by (intros x Hx; specialize (Htl x Hx); replace (x =? -1) with false by lia; reflexivity).
  reflexivity.
Qed.

(* Reshape-14 with allowzero = 1 and a fully given shape of the right element count *)
Lemma reshape_exact_true : forall ins tgt, (forall x, In x tgt -> 0 <= x) -> prodZ tgt = prodZ ins ->
  reshape_shape ins tgt true = Some tgt.
Proof.
  intros ins tgt Hpos Hp. unfold reshape_shape.
  rewrite existsb_false by (intros x Hx; specialize (Hpos x Hx); lia).
  assert (Hf : filter (Z.eqb (-1)) tgt = []).
  { clear Hp. induction tgt as [|a l IH]; [reflexivity|]. cbn [filter]. replace (-1 =? a) with false by (specialize (Hpos a (or_introl eq_refl)); lia).
    apply IH. intros; apply Hpos; right; assumption. }
  unfold count_of. rewrite Hf. cbn [length Nat.ltb Nat.leb].
  assert (Hh : has (-1) tgt = false) by (apply has_false; intro Hin; specialize (Hpos _ Hin); lia).
  rewrite Hh. rewrite !Bool.andb_false_r. replace (prodZ tgt =? prodZ ins) with true by lia. reflexivity.
Qed.

Ltac ifs := repeat match goal with |- context [if ?c then _ else _] => (replace c with true by lia) || (replace c with false by lia) end.
Lemma shape_slice_tail3 : forall s, 3 <= zlen s -> shape_slice s (-3) (zlen s) = drop (zlen s - 3) s.
Proof.
  intros s H. unfold shape_slice, clampZ. ifs.
  replace (zlen s - (-3 + zlen s)) with 3 by lia. replace (-3 + zlen s) with (zlen s - 3) by lia.
  apply take_all. rewrite zlen_drop by lia. lia.
Qed.
Lemma shape_slice_batch3 : forall s, 3 <= zlen s -> shape_slice s 0 (-3) = take (zlen s - 3) s.
Proof.
  intros s H. unfold shape_slice, clampZ. ifs.
  replace (-3 + zlen s - 0) with (zlen s - 3) by lia. rewrite drop_neg by lia. reflexivity.
Qed.

(* ------------------------------------------------------------------ pixel_shuffle: every rank >= 3, every positive extent, every factor *)
Lemma pixel_shuffle_shape_correct : forall s r out, shape_pos s ->
  torch_pixel_shuffle_shape s r = Some out -> aten_pixel_shuffle_shape s r = Some out.
Proof.
  intros s r out Hs. unfold torch_pixel_shuffle_shape.
  destruct ((zlen s <? 3) || (r <=? 0)) eqn:E; [discriminate|].
  destruct (drop (zlen s - 3) s) as [|c [|h [|w [|? ?]]]] eqn:Ed; try discriminate.
  destruct (c mod (r * r) =? 0) eqn:Em; [|discriminate]. intro H; inversion H; subst out; clear H.
  set (batch := take (zlen s - 3) s).
  assert (Hsp : s = batch ++ [c; h; w]) by (rewrite <- Ed; symmetry; apply take_drop).
  assert (Hin : forall x, In x [c; h; w] -> 0 < x).
  { intros x Hx. apply (shape_pos_In s); [assumption|]. rewrite <- Ed in Hx. apply In_drop in Hx. assumption. }
  assert (Hc : 0 < c) by (apply Hin; left; reflexivity).
  assert (Hh : 0 < h) by (apply Hin; right; left; reflexivity).
  assert (Hw : 0 < w) by (apply Hin; right; right; left; reflexivity).
  assert (Hb : forall x, In x batch -> 0 < x) by (intros x Hx; apply (shape_pos_In s); [assumption | apply In_take in Hx; assumption]).
  assert (Hr : 0 < r) by lia.
  assert (Hq : 0 <= c / (r * r)) by (apply Z.div_pos; nia).
  assert (Hcq : c = r * r * (c / (r * r))) by (pose proof (Z.div_mod c (r * r)); nia).
  unfold aten_pixel_shuffle_shape. destruct (zlen s =? 4) eqn:E4.
  - assert (Hlb : zlen batch = 1) by (unfold batch; rewrite zlen_take; lia).
    destruct batch as [|n [|n2 l]].
    + rewrite zlen_nil in Hlb. lia.
    + rewrite Hsp. cbn [app depth_to_space_shape]. replace ((0 <? r) && (c mod (r * r) =? 0)) with true by lia. reflexivity.
    + rewrite !zlen_cons in Hlb. pose proof (zlen_nonneg _ l). lia.
  - rewrite shape_slice_tail3, shape_slice_batch3 by lia. rewrite Ed. fold batch.
    change (-1 :: [c; h; w]) with ([] ++ [-1] ++ [c; h; w]).
    rewrite (reshape_infer1 s [] [c; h; w] (prodZ batch)).
    + cbn [app obind depth_to_space_shape]. replace ((0 <? r) && (c mod (r * r) =? 0)) with true by lia. cbn [obind].
      change (drop 1 [prodZ batch; c / (r * r); h * r; w * r]) with [c / (r * r); h * r; w * r].
      apply reshape_exact_true.
      * intros x Hx. apply in_app_or in Hx. destruct Hx as [Hx | Hx]; [specialize (Hb x Hx); lia|].
        destruct Hx as [<- | [<- | [<- | []]]]; nia.
      * rewrite prodZ_app. cbn [prodZ fold_right]. ring.
    + cbn [app]. assumption.
    + rewrite Hsp at 1. rewrite prodZ_app. cbn [prodZ fold_right app]. ring.
Qed.

(* ------------------------------------------------------------------ native_group_norm: mean and rstd have shape [N, group] *)
Lemma native_group_norm_stats_correct : forall s g out, shape_pos s ->
  torch_native_group_norm_stats s g = Some out -> aten_native_group_norm_stats s g = Some out.
Proof.
  intros s g out Hs. unfold torch_native_group_norm_stats, aten_native_group_norm_stats.
  destruct s as [|n [|c t]]; try discriminate.
  destruct ((0 <? g) && (c mod g =? 0)) eqn:E; [|discriminate]. intro H; inversion H; subst out; clear H.
  change (nthZ (n :: c :: t) 0) with (Some n). cbn [obind].
  assert (Hn : 0 < n) by (apply (shape_pos_In (n :: c :: t)); [assumption | left; reflexivity]).
  assert (Hc : c = g * (c / g)) by (pose proof (Z.div_mod c g); lia).
  change [n; g; -1] with ([n; g] ++ [-1] ++ []).
  rewrite (reshape_infer1 (n :: c :: t) [n; g] [] (c / g * prodZ t)).
  - cbn [app obind]. reflexivity.
  - intros x Hx. rewrite app_nil_r in Hx. destruct Hx as [<- | [<- | []]]; lia.
  - cbn [prodZ fold_right]. fold (prodZ t). rewrite Hc at 1. ring.
Qed.

(* ------------------------------------------------------------------ repeat_interleave.self_int *)
(* a zero extent beside the repeated dimension: the 0 in the Reshape target is read as "copy the input extent at that position" *)
Lemma repeat_interleave_int_zero_extent_refuted :
  aten_repeat_interleave_int_shape [2; 0] 3 (Some 0) = Some [0; 3] /\ torch_repeat_interleave_int_shape [2; 0] 3 (Some 0) = Some [6; 0].
Proof. split; vm_compute; reflexivity. Qed.

Lemma pixel_shuffle_zero_extent_refuted :
  aten_pixel_shuffle_shape [4; 0; 2] 2 = None /\ torch_pixel_shuffle_shape [4; 0; 2] 2 = Some [1; 0; 4].
Proof. split; vm_compute; reflexivity. Qed.
