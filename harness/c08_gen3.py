"""C08 helper: argument generators for the third group of modelled families (c08_fams3): reductions (all / any, argmax /
argmin, prod, logsumexp, var / std), scatter family, convolution attribute lists."""
from __future__ import annotations

from harness.c08_exec import spec
from harness.c08_gen import _dim_list, numel, rand_shape, tensor


def _truth_tensor(rng, sh, i):
    dt = ("bool", "int64", "float32", "int32")[i % 4]
    n = numel(sh)
    p = (0.15, 0.5, 0.85)[i % 3]
    if dt == "bool":
        data = [rng.random() < p for _ in range(n)]
    else:
        data = [(rng.choice([1, 2, -3, 7]) if rng.random() < p else 0) for _ in range(n)]
        if dt == "float32":
            data = [float(v) for v in data]
    return spec(dt, sh, data)


def gen_allany_dim(rng, n):
    for i in range(n):
        sh = rand_shape(rng)
        r = max(len(sh), 1)
        dim = rng.randint(-r, r - 1)
        if sh and i % 6 == 0:
            sh[dim] = 0                                        # reduction over nothing
        yield [_truth_tensor(rng, sh, i), dim, bool(rng.getrandbits(1))], {}


def gen_allany_dims(rng, n):
    for i in range(n):
        sh = rand_shape(rng)
        k = i % 8
        if not sh:
            dims = rng.choice([None, [], [0], [-1]])
        elif k == 0:
            dims = None
        elif k == 1:
            dims = []                                          # no reduction at all in PyTorch
        else:
            dims = _dim_list(rng, len(sh)) or [rng.randint(-len(sh), len(sh) - 1)]
        yield [_truth_tensor(rng, sh, i), dims, bool(rng.getrandbits(1))], {}


def gen_allany(rng, n):
    for i in range(n):
        yield [_truth_tensor(rng, rand_shape(rng), i)], {}


def gen_arg(rng, n):
    for i in range(n):
        sh = rand_shape(rng, allow_zero=(i % 7 == 0))
        r = max(len(sh), 1)
        dim = None if i % 3 == 0 else rng.randint(-r, r - 1)
        dt = ("float32", "int64", "int32")[i % 3]
        yield [tensor(rng, sh, dt, kind="rand"), dim, bool(rng.getrandbits(1))], {}


def _small_tensor(rng, sh, dt):
    n = numel(sh)
    if dt == "bool":
        return spec(dt, sh, [rng.random() < 0.8 for _ in range(n)])
    vals = [1, 1, 2, -1, -2, 1] if dt != "uint8" else [1, 1, 2, 1]
    data = [rng.choice(vals) if rng.random() < 0.95 else 0 for _ in range(n)]
    return spec(dt, sh, [float(v) for v in data] if dt.startswith("float") else data)


_PROD_DT = ("float32", "int64", "int32", "float32", "float64", "uint8", "float32", "bool")


def gen_prod(rng, n):
    for i in range(n):
        dt = _PROD_DT[i % len(_PROD_DT)]
        kw = {} if i % 4 else {"dtype": rng.choice([7, 1, 11])}
        yield [_small_tensor(rng, rand_shape(rng), dt)], kw


def gen_prod_dim(rng, n):
    for i in range(n):
        sh = rand_shape(rng)
        r = max(len(sh), 1)
        dt = _PROD_DT[i % len(_PROD_DT)]
        kw = {} if i % 4 else {"dtype": rng.choice([7, 1, 11])}
        yield [_small_tensor(rng, sh, dt), rng.randint(-r, r - 1), bool(rng.getrandbits(1))], kw


def gen_logsumexp(rng, n):
    for i in range(n):
        sh = rand_shape(rng, allow_zero=False) if i % 10 != 3 else []
        if sh:
            dims = _dim_list(rng, len(sh)) or [rng.randint(-len(sh), len(sh) - 1)]
        else:
            dims = rng.choice([[], [0], [-1]])
        x = tensor(rng, sh, "float32", kind="rand")
        x["data"] = [v / 4.0 for v in x["data"]]
        yield [x, dims, bool(rng.getrandbits(1))], {}


def _var_case(rng, i):
    """(x, dims, correction, keepdim); the failing classes (known findings) come up at fixed positions of the stream"""
    k = i % 16
    sh = rand_shape(rng, allow_zero=False)
    if k == 11 and sh:
        sh[rng.randrange(len(sh))] = 0                           # a reduced or kept extent 0
    x = tensor(rng, sh, "float32", kind="rand")
    keepdim = bool(rng.getrandbits(1))
    if not sh:
        dims = rng.choice([None, None, [0], [-1], []])
    elif k in (0, 1):
        dims = None
    elif k == 2:
        dims = []
    elif k == 3:
        dims = rng.randint(-len(sh), len(sh) - 1)                # a python int
    else:
        dims = _dim_list(rng, len(sh)) or [rng.randint(-len(sh), len(sh) - 1)]
    if dims is None or dims == []:
        cnt = numel(sh)
    else:
        cnt = numel([sh[d] for d in ([dims] if isinstance(dims, int) else dims)]) if sh else 1
    c = [1, 0, 1, 1, 0, 1, 2, 0.5, 1, cnt, cnt + 1, 1, None, 1, cnt - 1 if cnt > 1 else 0, -1][k]    # k = 15: a negative correction
    return x, dims, c, keepdim


def gen_prims_var(rng, n):
    """prims.var(inp, dims, correction): dims are plain non-negative indices; [] = every dimension"""
    for i in range(n):
        k = i % 12
        sh = rand_shape(rng, allow_zero=False)
        if k == 7 and sh:
            sh[rng.randrange(len(sh))] = 0
        if not sh or k == 5:
            dims = []
        elif k in (0, 1):
            dims = list(range(len(sh)))
            rng.shuffle(dims)
        else:
            dims = [d % len(sh) for d in (_dim_list(rng, len(sh)) or [rng.randrange(len(sh))])]
        cnt = numel([sh[d] for d in dims]) if dims else numel(sh)
        c = [1.0, 0.0, 1.0, float(cnt), float(cnt + 1), 1.0, -1.0, 1.0, 0.5, 2.0, 0.0, float(max(cnt - 1, 0))][k]
        yield [tensor(rng, sh, "float32", kind="rand"), dims, c], {}


def gen_var_correction(rng, n):
    for i in range(n):
        x, dims, c, keepdim = _var_case(rng, i)
        kw = {"keepdim": keepdim}
        if c is not None:
            kw["correction"] = c
        yield ([x] if dims is None and i % 2 else [x, dims]), kw


def gen_var_dim(rng, n):
    for i in range(n):
        x, dims, c, keepdim = _var_case(rng, i)
        if dims is None or isinstance(dims, int):
            dims = [dims] if isinstance(dims, int) else []
        yield [x, dims, bool(c is None or c >= 1), keepdim], {}


# ----------------------------------------------------------------------------- scatter

def _index_for(rng, self_sh, idx_sh, dim, unique):
    """index tensor of shape idx_sh with entries in [0, self_sh[dim]); unique along `dim` within every fiber when asked"""
    import itertools
    import numpy as np
    n = self_sh[dim] if self_sh else 1
    a = np.zeros(idx_sh, dtype=np.int64)
    if a.size == 0:
        return spec("int64", idx_sh, [])
    if not idx_sh:
        return spec("int64", [], [rng.randrange(n)])
    other = [range(e) for j, e in enumerate(idx_sh) if j != dim]
    for pos in itertools.product(*other):
        m = idx_sh[dim]
        col = rng.sample(range(n), m) if unique and m <= n else [rng.randrange(n) for _ in range(m)]
        for t, v in enumerate(col):
            p = list(pos)
            p.insert(dim, t)
            a[tuple(p)] = v
    return spec("int64", idx_sh, [int(v) for v in a.reshape(-1)])


def _scatter_case(rng, i, reduce_=False, allow_rank0_self=True, larger_src=True):
    k = i % 10
    if k == 0 and allow_rank0_self:
        sh, dim = [], rng.choice([0, -1])
        ish = rng.choice([[], [1]])
        ssh = ish if rng.random() < 0.7 else rng.choice([[], [1]])
        return sh, dim, ish, ssh
    sh = rand_shape(rng, allow_zero=False, min_rank=1, max_rank=3) if k != 2 else [rng.randint(1, 5)]
    r = len(sh)
    d = rng.randrange(r)
    ish = [rng.randint(0 if k == 1 else 1, e) for e in sh]
    if k == 2 and r == 1:
        ish = []                                                  # a 0-d index beside a 1-d self
    ssh = list(ish)
    if k == 3 and larger_src and ish:
        j = rng.randrange(len(ish))
        ssh[j] = ish[j] + rng.randint(1, 2)                       # src larger than index (PyTorch uses the leading part)
    if k == 4 and not ish:
        ssh = rng.choice([[], [1]])
    return sh, (d - r if rng.random() < 0.4 else d), ish, ssh


def gen_scatter_src(rng, n):
    for i in range(n):
        sh, dim, ish, ssh = _scatter_case(rng, i)
        d = dim % len(sh) if sh else 0
        yield [tensor(rng, sh, "float32", kind="rand"), dim, _index_for(rng, sh, ish, d, True),
               tensor(rng, ssh, "float32", kind="iota")], {}


def gen_scatter_value(rng, n):
    for i in range(n):
        sh, dim, ish, _ = _scatter_case(rng, i)
        d = dim % len(sh) if sh else 0
        yield [tensor(rng, sh, "float32", kind="rand"), dim, _index_for(rng, sh, ish, d, False), float(rng.randint(-5, 5))], {}


def gen_scatter_add(rng, n):
    for i in range(n):
        sh, dim, ish, ssh = _scatter_case(rng, i)
        d = dim % len(sh) if sh else 0
        yield [tensor(rng, sh, "float32", kind="rand"), dim, _index_for(rng, sh, ish, d, False),
               tensor(rng, ssh, "float32", kind="iota")], {}


def gen_scatter_reduce(rng, n):
    for i in range(n):
        sh, dim, ish, ssh = _scatter_case(rng, i)
        if not sh:
            ish = ssh = []                                        # "assert (index_rank == 0 and rank_src == 0)"
        d = dim % len(sh) if sh else 0
        red = ("sum", "prod", "amin", "amax")[i % 4]
        x = _small_tensor(rng, sh, "float32") if red == "prod" else tensor(rng, sh, "float32", kind="rand")
        src = _small_tensor(rng, ssh, "float32") if red == "prod" else tensor(rng, ssh, "float32", kind="rand")
        yield [x, dim, _index_for(rng, sh, ish, d, False), src, red], {"include_self": i % 3 != 0}


# ----------------------------------------------------------------------------- convolution

def _conv_case(rng, e, i, transposed):
    groups = 2 if i % 5 == 0 else 1
    cin_g, cout_g = rng.randint(1, 2), rng.randint(1, 2)
    ks = [rng.randint(1, 3) for _ in range(e)]
    st = [rng.randint(1, 3) for _ in range(e)]
    dl = [rng.choice([1, 1, 2]) for _ in range(e)]
    pd = [rng.randint(0, 2) for _ in range(e)]
    op = [rng.randint(0, s - 1) for s in st] if transposed else [0] * e      # onnxruntime's ConvTranspose refuses output_padding >= stride
    sp = [rng.randint(d * (k - 1) + 1, d * (k - 1) + 4) for k, d in zip(ks, dl)]
    if transposed:                                               # keep every output extent >= 1 (onnxruntime refuses an empty result)
        pd = [p if (n - 1) * s - 2 * p + d * (k - 1) + o + 1 >= 1 else 0 for n, s, p, d, k, o in zip(sp, st, pd, dl, ks, op)]
    x_sh = [rng.randint(1, 2), cin_g * groups] + sp
    w_sh = ([cin_g * groups, cout_g] if transposed else [cout_g * groups, cin_g]) + ks
    cout = cout_g * groups
    return x_sh, w_sh, cout, st, pd, dl, op, groups


def _one_entry(rng, l, want):
    """a one-entry list standing for equal entries (PyTorch: expand_param_if_needed)"""
    return [l[0]] if want and all(v == l[0] for v in l) else l


def gen_convolution(rng, n):
    for i in range(n):
        e = (1, 2, 2, 3)[i % 4]
        transposed = i % 3 == 0
        x_sh, w_sh, cout, st, pd, dl, op, groups = _conv_case(rng, e, i, transposed)
        k = i % 7
        if k in (1, 2):                                          # equal entries given as a one-entry list
            st, pd, dl = [st[0]] * e, [pd[0]] * e, [dl[0]] * e
            if transposed:
                op = [min(op)] * e
            x_sh, w_sh, cout, _, _, _, _, groups = x_sh, w_sh, cout, st, pd, dl, op, groups
            x_sh = x_sh[:2] + [max(v, dl[0] * (kk - 1) + 1) for v, kk in zip(x_sh[2:], w_sh[2:])]
            st, pd, dl = _one_entry(rng, st, True), _one_entry(rng, pd, True), _one_entry(rng, dl, k == 1)
            if transposed and k == 2:
                op = _one_entry(rng, op, True)
        if transposed:                                           # keep every output extent >= 1 after the rewriting above
            ex = lambda l: list(l) * e if len(l) == 1 else l
            if any((n - 1) * s - 2 * p + d * (kk - 1) + o + 1 < 1
                   for n, s, p, d, kk, o in zip(x_sh[2:], ex(st), ex(pd), ex(dl), w_sh[2:], ex(op))):
                pd = [0] * len(pd)
        bias = None if i % 2 else tensor(rng, [cout], "float32", kind="rand")
        yield [tensor(rng, x_sh, "float32", kind="rand"), tensor(rng, w_sh, "float32", kind="rand"), bias, st, pd, dl,
               transposed, op, groups], {}


def gen_convnd(e):
    def gen(rng, n):
        for i in range(n):
            x_sh, w_sh, cout, st, pd, dl, _, groups = _conv_case(rng, e, i, False)
            if i % 6 == 1 and e > 1:                             # one-entry lists
                st, pd, dl = [st[0]], [pd[0]], [dl[0]]
                x_sh = x_sh[:2] + [max(v, dl[0] * (kk - 1) + 1) for v, kk in zip(x_sh[2:], w_sh[2:])]
            if i % 4 == 2:
                x_sh = x_sh[1:]                                  # unbatched
            bias = None if i % 3 == 0 else tensor(rng, [cout], "float32", kind="rand")
            yield [tensor(rng, x_sh, "float32", kind="rand"), tensor(rng, w_sh, "float32", kind="rand"), bias, st, pd, dl, groups], {}
    return gen


# ----------------------------------------------------------------------------- upsample output extents

_SCALES = (2.0, 1.5, 0.5, 3.0, 1.25, 2.5, 1.16, 2.12, 1.7, 0.75)


def gen_upsample(e, vec, align=False):
    """non-vec: (x, output_size, [align_corners,] scale per spatial dim or None) with output_size = floor(n * scale) as
    F.interpolate passes it (so PyTorch and a correct scales path agree), or an unrelated size; vec: (x, size | None, scale_factors | None)"""
    import math

    def gen(rng, n):
        for i in range(n):
            ee = e or rng.choice([1, 2])
            sp = [rng.choice([4, 5, 7, 25, 30]) if i % 5 == 0 else rng.randint(2, 9) for _ in range(ee)]
            x = tensor(rng, [1, rng.randint(1, 2)] + sp, "float32", kind="rand")
            sc = [rng.choice(_SCALES) for _ in range(ee)]
            size = [max(1, math.floor(m * s)) for m, s in zip(sp, sc)]
            if vec:
                yield ([x, size, None] if i % 3 == 0 else [x, None, sc]), {}
                continue
            k = i % 6
            if k == 0:
                scs = [None] * ee
            elif k == 1 and ee > 1:
                scs = [sc[0]] + [None] * (ee - 1)                      # not all given: output_size decides
            elif k == 2:
                size = [s + 1 for s in size]                             # a size the scales do not produce
                scs = sc
            else:
                scs = sc
            yield ([x, size] + ([bool(i % 2)] if align else []) + scs), {}
    return gen
