(* C07: a call of the extracted function evaluates like the matched nodes in place (for a kernel semantics that
   interprets the call by the function body), hence the call node is interchangeable with the matched segment. *)
From Coq Require Import List String ZArith Bool Lia.
Require Import OV.Graph.Syntax OV.Graph.Sem OV.Graph.Names OV.Graph.SemProofs OV.Rewrite.FnCall.
Import ListNotations.
Local Open Scope string_scope.
Local Open Scope list_scope.

Section FnCall.
  Variable V : Type.
  Variable sem : string -> string -> list (string * attrv) -> list (option V) -> option (list V).
  Variable truth : V -> option bool.
  Variable trip : V -> option nat.
  Variable of_nat : nat -> V.
  Variable of_bool : bool -> V.
  Variable limit : nat.

  Notation env := (list (vname * V)).
  Notation eval_node := (eval_node V sem truth trip of_nat of_bool limit).
  Notation run := (run V sem truth trip of_nat of_bool limit).
  Notation eval_body := (eval_body V sem truth trip of_nat of_bool limit).
  Notation eval_graph := (eval_graph V sem truth trip of_nat of_bool limit).

  Lemma mem_in : forall x l, mem x l = true <-> In x l.
  Proof.
    intros x l. unfold mem. rewrite existsb_exists. split.
    - intros [y [H1 H2]]. apply String.eqb_eq in H2. subst. auto.
    - intro H. exists x. split; auto. apply String.eqb_refl.
  Qed.

  Lemma subset_in : forall a b, subset a b = true -> forall x, In x a -> In x b.
  Proof. unfold subset. intros a b H x Hx. rewrite forallb_forall in H. apply mem_in. auto. Qed.

  (* the same prefix over two environments *)
  Lemma lookup_same_prefix : forall (p e1 e2 : env) x,
    In x (map fst p) \/ lookup e1 x = lookup e2 x -> lookup (p ++ e1) x = lookup (p ++ e2) x.
  Proof.
    induction p as [|[y v] t IH]; intros e1 e2 x H; cbn.
    - destruct H as [[]|H]; exact H.
    - destruct (String.eqb x y) eqn:E; auto. apply IH. destruct H as [[H|H]|H]; auto.
      cbn in H. subst. rewrite String.eqb_refl in E. discriminate.
  Qed.

  Lemma lookup_in_prefix : forall (p e : env) x, In x (map fst p) -> lookup (p ++ e) x <> None.
  Proof.
    induction p as [|[y v] t IH]; intros e x H; cbn in *; [destruct H|].
    destruct (String.eqb x y) eqn:E; [discriminate|]. apply IH. destruct H as [H|H]; auto.
    subst. rewrite String.eqb_refl in E. discriminate.
  Qed.

  Lemma lookups_same_prefix : forall xs (p e1 e2 : env),
    (forall x, In x xs -> In x (map fst p) \/ lookup e1 x = lookup e2 x) -> lookups (p ++ e1) xs = lookups (p ++ e2) xs.
  Proof.
    induction xs as [|x t IH]; intros p e1 e2 H; cbn; auto.
    rewrite (lookup_same_prefix p e1 e2 x (H x (or_introl eq_refl))). rewrite (IH p e1 e2); auto.
    intros y Hy. apply H. right. exact Hy.
  Qed.

  Lemma lookup_opts_agree_on : forall ins (e1 e2 : env),
    (forall x, In x (present ins) -> lookup e1 x = lookup e2 x) -> lookup_opts e1 ins = lookup_opts e2 ins.
  Proof.
    induction ins as [|[x|] t IH]; intros e1 e2 H; cbn in *; auto.
    - rewrite (H x (or_introl eq_refl)). rewrite (IH e1 e2); auto.
    - rewrite (IH e1 e2); auto.
  Qed.

  Lemma bind_two : forall xs (vs : list V) (e1 e2 : env),
    match bind xs vs e1, bind xs vs e2 with
    | Some a, Some b => exists p, a = p ++ e1 /\ b = p ++ e2 /\ map fst p = xs
    | None, None => True
    | _, _ => False
    end.
  Proof.
    induction xs as [|x t IH]; intros [|v vt] e1 e2; cbn; auto.
    - exists []. auto.
    - specialize (IH vt e1 e2). destruct (bind t vt e1), (bind t vt e2); cbn; auto.
      destruct IH as [p [-> [-> Hp]]]. exists ((x, v) :: p). cbn. rewrite Hp. auto.
  Qed.

  Lemma plain_node_two : forall ev1 ev2 n (e1 e2 : env), plain n = true ->
    (forall x, In x (present (n_ins n)) -> lookup e1 x = lookup e2 x) ->
    match eval_node ev1 e1 n, eval_node ev2 e2 n with
    | Some a, Some b => exists p, a = p ++ e1 /\ b = p ++ e2 /\ map fst p = n_outs n
    | None, None => True
    | _, _ => False
    end.
  Proof.
    intros ev1 ev2 [dom op ins outs attrs subs] e1 e2 Hp H. unfold plain in Hp. cbn [n_dom n_op n_ins n_outs] in *.
    apply andb_true_iff in Hp. destruct Hp as [P1 P2]. apply negb_true_iff in P1. apply negb_true_iff in P2.
    unfold Sem.eval_node. rewrite P1, P2. rewrite (lookup_opts_agree_on ins e1 e2 H).
    destruct (lookup_opts e2 ins) as [vs|]; auto. destruct (sem dom op attrs vs) as [rs|]; auto.
    apply bind_two.
  Qed.

  Lemma run_two : forall ev1 ev2 M S (e1 e2 : env), forallb plain M = true -> closed_in S M = true ->
    (forall x, In x S -> lookup e1 x = lookup e2 x) ->
    match run ev1 e1 M, run ev2 e2 M with
    | Some a, Some b => exists p, a = p ++ e1 /\ b = p ++ e2 /\ (forall x, In x (map fst p) <-> In x (defs_nodes M))
    | None, None => True
    | _, _ => False
    end.
  Proof.
    intros ev1 ev2 M. induction M as [|n t IH]; intros S e1 e2 Hp Hc Ha; cbn [Sem.run].
    - exists []. cbn. split; auto. split; auto. intro x. split; intros [].
    - cbn in Hp, Hc. apply andb_true_iff in Hp. destruct Hp as [Pn Pt]. apply andb_true_iff in Hc. destruct Hc as [Cn Ct].
      pose proof (plain_node_two ev1 ev2 n e1 e2 Pn) as N.
      assert (Hr : forall x, In x (present (n_ins n)) -> lookup e1 x = lookup e2 x).
      { intros x Hx. apply Ha. eapply subset_in; eauto. }
      specialize (N Hr). destruct (eval_node ev1 e1 n) as [a1|], (eval_node ev2 e2 n) as [b1|]; try contradiction; auto.
      destruct N as [p1 [-> [-> Hp1]]].
      specialize (IH (n_outs n ++ S) (p1 ++ e1) (p1 ++ e2) Pt Ct).
      assert (Ha' : forall x, In x (n_outs n ++ S) -> lookup (p1 ++ e1) x = lookup (p1 ++ e2) x).
      { intros x Hx. apply lookup_same_prefix. apply in_app_or in Hx. destruct Hx as [Hx|Hx]; [left; rewrite Hp1; exact Hx | right; auto]. }
      specialize (IH Ha'). destruct (run ev1 (p1 ++ e1) t), (run ev2 (p1 ++ e2) t); try contradiction; auto.
      destruct IH as [p2 [-> [-> Hp2]]]. exists (p2 ++ p1). rewrite !app_assoc. split; auto. split; auto.
      intro x. rewrite map_app, in_app_iff. unfold defs_nodes. cbn [flat_map]. rewrite in_app_iff. rewrite Hp1.
      fold (defs_nodes t). rewrite (Hp2 x). tauto.
  Qed.

  Lemma bind_lookups : forall ins vs (e : env), lookups e ins = Some vs ->
    exists e0, bind ins vs [] = Some e0 /\ forall x, In x ins -> lookup e0 x = lookup e x.
  Proof.
    induction ins as [|x t IH]; intros vs e H; cbn in H.
    - inversion H; subst. exists []. split; auto. intros x [].
    - destruct (lookup e x) as [v|] eqn:L; try discriminate. destruct (lookups e t) as [vt|] eqn:Lt; try discriminate.
      inversion H; subst. destruct (IH vt e Lt) as [e0 [B A]]. exists ((x, v) :: e0). cbn. rewrite B. cbn. split; auto.
      intros y Hy. destruct (String.eqb y x) eqn:E.
      + apply String.eqb_eq in E. subst. auto.
      + apply A. destruct Hy as [Hy|Hy]; auto. subst. rewrite String.eqb_refl in E. discriminate.
  Qed.

  Lemma lookup_opts_somes : forall ins (e : env), lookup_opts e (map Some ins) = option_map (map Some) (lookups e ins).
  Proof.
    induction ins as [|x t IH]; intro e; cbn; auto. rewrite IH. destruct (lookup e x); auto. destruct (lookups e t); auto.
  Qed.

  (* ---- the call against the matched nodes, in one environment -------------------------------------------------------- *)
  Theorem call_eq_matched : forall ev f dom op attrs ins M outs couts (e : env) vs,
    (forall ws, sem dom op attrs (map Some ws) = eval_graph (S f) [] (fn_graph ins M outs) ws) ->
    is_if dom op = false -> is_loop dom op = false ->
    forallb plain M = true -> closed_in ins M = true -> subset outs (defs_nodes M ++ ins) = true ->
    lookups e ins = Some vs ->
    eval_node ev e (call_of dom op attrs ins couts) =
    match run ev e M with
    | Some e1 => match lookups e1 outs with Some rs => bind couts rs e | None => None end
    | None => None
    end.
  Proof.
    intros ev f dom op attrs ins M outs couts e vs Hsem I1 I2 Hp Hc Ho Hl.
    unfold call_of, Sem.eval_node. rewrite I1, I2. rewrite lookup_opts_somes, Hl. cbn [option_map]. rewrite Hsem.
    cbn [Sem.eval_graph]. unfold Sem.eval_body, fn_graph. cbn [g_ins g_nodes g_outs].
    destruct (bind_lookups ins vs e Hl) as [e0 [B A]]. rewrite B.
    pose proof (run_two ev (eval_graph f) M ins e e0 Hp Hc (fun x Hx => eq_sym (A x Hx))) as R.
    destruct (run ev e M) as [a|], (run (eval_graph f) e0 M) as [b|]; try contradiction; auto.
    destruct R as [p [-> [-> Hdef]]].
    rewrite (lookups_same_prefix outs p e e0).
    - destruct (lookups (p ++ e0) outs); auto.
    - intros x Hx. apply (subset_in _ _ Ho) in Hx. apply in_app_or in Hx. destruct Hx as [Hx|Hx].
      + left. apply Hdef. exact Hx.
      + right. symmetry. apply A. exact Hx.
  Qed.

  (* ---- every free read of a list that runs is bound ------------------------------------------------------------------ *)
  Lemma free_reads_notin : forall M D x, In x (free_reads D M) -> ~ In x D.
  Proof.
    induction M as [|n t IH]; intros D x H; cbn in H; [destruct H|]. apply in_app_or in H. destruct H as [H|H].
    - apply filter_In in H. destruct H as [_ H]. apply negb_true_iff in H. intro Q. apply mem_in in Q. congruence.
    - apply IH in H. intro Q. apply H. apply in_or_app. right. exact Q.
  Qed.

  Lemma lookup_opts_bound : forall ins (e : env) vs x, lookup_opts e ins = Some vs -> In x (present ins) -> lookup e x <> None.
  Proof.
    induction ins as [|[y|] t IH]; intros e vs x H Hx; cbn in *; [destruct Hx| |].
    - destruct (lookup e y) eqn:L; try discriminate. destruct (lookup_opts e t) eqn:Lt; try discriminate.
      destruct Hx as [<-|Hx]; [congruence | eapply IH; eauto].
    - destruct (lookup_opts e t) eqn:Lt; try discriminate. eapply IH; eauto.
  Qed.

  Lemma plain_node_reads_bound : forall ev n (e e' : env) x, plain n = true -> eval_node ev e n = Some e' ->
    In x (present (n_ins n)) -> lookup e x <> None.
  Proof.
    intros ev [dom op ins outs attrs subs] e e' x Hp H Hx. unfold plain in Hp. cbn [n_dom n_op n_ins] in *.
    apply andb_true_iff in Hp. destruct Hp as [P1 P2]. apply negb_true_iff in P1. apply negb_true_iff in P2.
    unfold Sem.eval_node in H. rewrite P1, P2 in H. destruct (lookup_opts e ins) as [vs|] eqn:L; try discriminate.
    eapply lookup_opts_bound; eauto.
  Qed.

  Lemma run_free_reads_bound : forall ev M D (e e' : env), forallb plain M = true -> run ev e M = Some e' ->
    forall x, In x (free_reads D M) -> lookup e x <> None.
  Proof.
    intros ev M. induction M as [|n t IH]; intros D e e' Hp H x Hx; cbn in Hx; [destruct Hx|].
    cbn in Hp. apply andb_true_iff in Hp. destruct Hp as [Pn Pt]. cbn [Sem.run] in H.
    destruct (eval_node ev e n) as [e1|] eqn:E; try discriminate. apply in_app_or in Hx. destruct Hx as [Hx|Hx].
    - apply filter_In in Hx. destruct Hx as [Hx _]. eapply plain_node_reads_bound; eauto.
    - pose proof (free_reads_notin _ _ _ Hx) as Hn.
      destruct (eval_node_shape V sem truth trip of_nat of_bool limit ev e n e1 E) as [b [-> Hb]].
      pose proof (IH _ _ _ Pt H x Hx) as Q. rewrite lookup_app_notin in Q; auto.
      rewrite Hb. intro R. apply Hn. apply in_or_app. left. exact R.
  Qed.

  Lemma lookups_none_somes : forall ins (e : env), lookups e ins = None -> exists x, In x ins /\ lookup e x = None.
  Proof.
    induction ins as [|x t IH]; intros e H; cbn in H; try discriminate.
    destruct (lookup e x) eqn:L; [|exists x; split; [left|]; auto].
    destruct (lookups e t) eqn:Lt; try discriminate. destruct (IH e Lt) as [y [Hy Ly]]. exists y. split; [right|]; auto.
  Qed.

  Lemma bind_reads : forall xs rs (e e1 e2 : env), bind xs rs e = Some e2 -> lookups e1 xs = Some rs ->
    forall x, In x xs -> lookup e2 x = lookup e1 x.
  Proof.
    induction xs as [|y t IH]; intros rs e e1 e2 B L x Hx; [destruct Hx|]. destruct rs as [|r rt]; cbn in B; try discriminate.
    destruct (bind t rt e) as [e2'|] eqn:Bt; cbn in B; try discriminate. inversion B; subst. cbn in L.
    destruct (lookup e1 y) as [v|] eqn:Ly; try discriminate. destruct (lookups e1 t) as [vt|] eqn:Lt; try discriminate.
    inversion L; subst. cbn. destruct (String.eqb x y) eqn:E.
    - apply String.eqb_eq in E. subst. auto.
    - eapply IH; eauto. destruct Hx as [Hx|Hx]; auto. subst. rewrite String.eqb_refl in E. discriminate.
  Qed.

  Lemma bind_total : forall xs (rs : list V) (e : env), List.length xs = List.length rs -> bind xs rs e <> None.
  Proof.
    induction xs as [|x t IH]; intros [|r rt] e H; cbn in *; try discriminate. inversion H.
    specialize (IH rt e H1). destruct (bind t rt e); cbn; congruence.
  Qed.

  Lemma lookups_length : forall xs (e : env) rs, lookups e xs = Some rs -> List.length xs = List.length rs.
  Proof.
    induction xs as [|x t IH]; intros e rs H; cbn in H.
    - inversion H. reflexivity.
    - destruct (lookup e x); try discriminate. destruct (lookups e t) eqn:L; try discriminate. inversion H. cbn. f_equal. eauto.
  Qed.

  (* ---- the call node is interchangeable with the matched segment ------------------------------------------------------ *)
  (* X: what the matched nodes define besides the pattern outputs.  Under the executable conditions extract_okb, for a
     kernel semantics that interprets the call by the body of the extracted function *)
  Theorem call_seg_equiv : forall f dom op attrs ins M outs X,
    (forall ws, sem dom op attrs (map Some ws) = eval_graph (S f) [] (fn_graph ins M outs) ws) ->
    extract_okb dom op ins M outs = true ->
    (forall x, In x (defs_nodes M) -> ~ In x outs -> In x X) ->
    forall ev, seg_equiv V sem truth trip of_nat of_bool limit X ev M [call_of dom op attrs ins outs].
  Proof.
    intros f dom op attrs ins M outs X Hsem Hok HX ev e. unfold extract_okb in Hok.
    repeat (apply andb_true_iff in Hok; destruct Hok as [Hok ?]).
    apply negb_true_iff in H3. apply negb_true_iff in H2.
    cbn [Sem.run].
    destruct (lookups e ins) as [vs|] eqn:L.
    - assert (Ho : subset outs (defs_nodes M ++ ins) = true).
      { unfold subset. apply forallb_forall. intros x Hx. apply mem_in. apply in_or_app. left. eapply subset_in; eauto. }
      rewrite (call_eq_matched ev f dom op attrs ins M outs outs e vs Hsem H3 H2 Hok H1 Ho L).
      destruct (run ev e M) as [e1|] eqn:R; auto.
      destruct (run_shape V sem truth trip of_nat of_bool limit ev M e e1 R) as [p [-> Hpd]].
      pose proof (run_two ev ev M ins e e Hok H1 (fun x _ => eq_refl)) as T. rewrite R in T.
      destruct T as [p' [E' [_ Hdef]]]. apply app_inv_tail in E'. subst p'.
      destruct (lookups (p ++ e) outs) as [rs|] eqn:Lo.
      + destruct (bind outs rs e) as [e2|] eqn:B.
        * intros x Hx. destruct (in_dec string_dec x outs) as [I|I].
          -- symmetry. eapply bind_reads; eauto.
          -- assert (~ In x (map fst p)) by (intro Q; apply Hdef in Q; apply Hx; apply HX; auto).
             rewrite lookup_app_notin; auto.
             destruct (bind_shape V outs rs e e2 B) as [b [-> Hb]]. rewrite lookup_app_notin; auto. rewrite Hb. exact I.
        * exfalso. apply (bind_total outs rs e); auto. eapply lookups_length; eauto.
      + exfalso. destruct (lookups_none_somes _ _ Lo) as [x [Hx Lx]].
        apply (lookup_in_prefix p e x); auto. apply Hdef. eapply subset_in; eauto.
    - assert (C : eval_node ev e (call_of dom op attrs ins outs) = None).
      { unfold call_of, Sem.eval_node. rewrite H3, H2. rewrite lookup_opts_somes, L. reflexivity. }
      rewrite C. destruct (run ev e M) as [e1|] eqn:R; auto.
      destruct (lookups_none_somes _ _ L) as [x [Hx Lx]].
      apply (run_free_reads_bound ev M [] e e1 Hok R x); auto. eapply subset_in; eauto.
  Qed.
End FnCall.

(* ---- an as_function application is a sound application ---------------------------------------------------------------- *)
Require Import OV.Rewrite.Apply OV.Rewrite.ApplyProofs.

(* the application performed by an as_function rule: the matched nodes of the window are removed, the only new node is
   the call of the extracted function on the pattern inputs, producing the pattern outputs.  The executable conditions
   (side_okb from the splice theorem, extract_okb) and the kernel hypothesis give the hypothesis of C07_apply_one_sound;
   no interchangeability assumption is left. *)
Theorem as_function_app_sound :
  forall V sem truth trip of_nat of_bool limit f dom op attrs ins pouts a ns outs X,
    let M := sel (a_mask a) (firstn (List.length (a_mask a)) ns) in
    (forall ws, sem dom op attrs (map Some ws)
                = eval_graph V sem truth trip of_nat of_bool limit (S f) [] (fn_graph ins M pouts) ws) ->
    a_remove a = true -> a_new a = [call_of dom op attrs ins pouts] ->
    side_okb a ns outs X = true -> extract_okb dom op ins M pouts = true ->
    (forall x, In x (defs_nodes M) -> ~ In x pouts -> In x X) ->
    app_sound_at V sem truth trip of_nat of_bool limit ns outs a X.
Proof.
  intros V sem truth trip of_nat of_bool limit f dom op attrs ins pouts a ns outs X M Hsem Hr Hn Hs He HX.
  apply side_okb_sound; auto. intro f0. unfold kept_sel. rewrite Hr, Hn. cbn [List.app].
  apply (call_seg_equiv V sem truth trip of_nat of_bool limit f dom op attrs ins M pouts X Hsem He HX).
Qed.
