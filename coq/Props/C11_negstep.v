(* C11 property theorems for the two-Slice repair of the converter's negative-step corner
   (proposed_fixes/C11_converter_negative_step_two_slices.diff; model Index/NegStepFix.v).  Statements only. *)
From Coq Require Import ZArith List Bool.
Import ListNotations.
Require Import OV.Index.NumpySpec OV.Index.OnnxSlice OV.Index.ConverterIdx OV.Index.NegStepFix OV.Index.NegStepFixProofs.
Open Scope Z_scope.

(* a negative constant start with a negative constant step (stop omitted or constant): the two Slice ops select exactly Python's
   positions for EVERY d >= 0 -- the corner (start < -d) included, no hazard hypothesis *)
Theorem C11_converter_negative_step_two_slices : forall d a b s,
  0 <= d <= MAXI -> ns_applies a b s = true ->
  conv_slice_ns d a b s = py_slice d (bval a) (bval b) (bval s).
Proof. exact conv_slice_ns_eq_python. Qed.
Print Assumptions C11_converter_negative_step_two_slices.

(* the repaired translation of a slice is never worse than the old one *)
Theorem C11_converter_slice_axis_repaired : forall d a b s,
  0 <= d <= MAXI -> conv_bounds a b s <> None ->
  ns_applies a b s = true \/ neg_start_hazard d (bval a) (bval b) (bval s) = false ->
  conv_slice_ns d a b s = py_slice d (bval a) (bval b) (bval s).
Proof. exact conv_slice_ns_sound. Qed.
Print Assumptions C11_converter_slice_axis_repaired.

(* what remains of the corner after the repair: a start, step or stop that is known only at run time *)
Theorem C11_converter_remaining_corner_is_dynamic : forall d a b s,
  ns_applies a b s = false -> neg_start_hazard d (bval a) (bval b) (bval s) = true ->
  (exists z, a = BDyn z) \/ (exists z, s = BDyn z) \/ (exists z, b = BDyn z).
Proof. exact conv_slice_ns_remaining_corner. Qed.
Print Assumptions C11_converter_remaining_corner_is_dynamic.
