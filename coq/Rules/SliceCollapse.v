(* Model of _collapse_slices.py (collapse_slice_rule, collapse_slice2_rule) and SlicesSplit (_basic_rules.py) (C05).
   Tensors are nested lists; slicing along axis a rewrites every list at depth a.  No proofs in this file. *)
From Coq Require Import ZArith List Bool.
Import ListNotations.
Local Open Scope Z_scope.

Inductive tensor := Sc (v : Z) | Dim (l : list tensor).

(* apply f to every list at depth a *)
Fixpoint along (a : nat) (f : list tensor -> list tensor) (t : tensor) : tensor :=
  match t with
  | Sc v => Sc v
  | Dim l => match a with O => Dim (f l) | S a' => Dim (map (along a' f) l) end
  end.

Fixpoint has_shape (sh : list Z) (t : tensor) : bool :=
  match sh, t with
  | [], Sc _ => true
  | d :: sh', Dim l => (Z.of_nat (length l) =? d) && forallb (has_shape sh') l
  | _, _ => false
  end.

(* ONNX Slice along one axis with step 1: negative start/end count from the back, then both are clamped to [0, n] *)
Definition clamp (n v : Z) : Z := Z.max 0 (Z.min n (if v <? 0 then v + n else v)).
Definition slice1 {A} (s e : Z) (l : list A) : list A :=
  let n := Z.of_nat (length l) in
  let s' := clamp n s in let e' := clamp n e in
  firstn (Z.to_nat (e' - s')) (skipn (Z.to_nat s') l).
Definition slice_len (s e n : Z) : Z := Z.max 0 (clamp n e - clamp n s).

(* axis normalisation (Python negative indexing of data.shape[axis], ONNX negative axes) *)
Definition norm_axis (rank : nat) (a : Z) : option nat :=
  let a' := if a <? 0 then a + Z.of_nat rank else a in
  if (0 <=? a') && (a' <? Z.of_nat rank) then Some (Z.to_nat a') else None.

Definition INT64_MAX : Z := 9223372036854775807.

(* _check_if_redundant_slice: start/end/axis/step are single-element constants (given here as their values);
   dshape = declared shape of data (None: unknown rank; a None dim: dynamic) *)
Definition check1 (dshape : option (list (option Z))) (s e a st : Z) : bool :=
  if negb (st =? 1) then false
  else if negb (s =? 0) then false
  else if e =? INT64_MAX then true
  else match dshape with
       | None => false
       | Some ds =>
           match norm_axis (length ds) a with
           | None => false                     (* IndexError in Python: treated as not firing; such a host is invalid *)
           | Some k => match nth k ds None with None => false | Some d => negb (e <? d) end
           end
       end.

(* SlicesSplit.check on the last axis of length d: begin0 = 0, end0 = begin1, end1 = d, begin1 = d // 2 *)
Definition split_check (d b0 e0 b1 e1 : Z) : bool :=
  (b0 =? 0) && (e0 =? b1) && (d =? e1) && (d / 2 =? b1).
(* Split-18(num_outputs = 2): chunk = ceil(d / 2), the last chunk is the remainder *)
Definition split2 {A} (l : list A) : list A * list A :=
  let c := Z.to_nat ((Z.of_nat (length l) + 1) / 2) in (firstn c l, skipn c l).

(* correspondence for collapse_slice_rule *)
Definition case := (option (list (option Z)) * (Z * Z * Z * Z) * bool)%type.
(* correspondence is one-directional, as the property is: what the implementation did must be permitted by the model;
   not firing is always permitted (a stricter check is never a C05 violation) *)
Definition agrees (c : case) : bool := let '(ds, (s, e, a, st), f) := c in implb f (check1 ds s e a st).
Fixpoint disagreeing (i : nat) (l : list case) : list nat :=
  match l with [] => [] | c :: t => (if agrees c then [] else [i]) ++ disagreeing (S i) t end.

(* ---------------------------------------------------------------- collapse_slice2_rule with several sliced axes.
   ONNX Slice with k entries in starts/ends/axes (all steps 1) slices the listed axes one after another; an entry is
   (normalised axis, start, end).  The model does not require the axes to be distinct. *)
Definition spec := (nat * Z * Z)%type.
Fixpoint mslice (specs : list spec) (t : tensor) : tensor :=
  match specs with
  | [] => t
  | (k, s, e) :: r => mslice r (along k (slice1 s e) t)
  end.
Fixpoint set_dim (k : nat) (v : Z) (l : list Z) : list Z :=
  match l, k with
  | [], _ => []
  | _ :: t, O => v :: t
  | x :: t, S k' => x :: set_dim k' v t
  end.
Definition step_shape (sh : list Z) (sp : spec) : list Z :=
  let '(k, s, e) := sp in set_dim k (slice_len s e (nth k sh 0)) sh.
(* the shape of the Slice output *)
Fixpoint mshape (specs : list spec) (sh : list Z) : list Z :=
  match specs with
  | [] => sh
  | sp :: r => mshape r (step_shape sh sp)
  end.

(* _same_shape: declared shapes of data and of the Slice output (None: unknown rank); a dim is static, a named symbol or
   unknown; steps = the constant `steps` operand (None: not a constant) *)
Inductive sdim := DSt (d : Z) | DSy (name : nat) | DUn.
Definition sdim_eqb (a b : sdim) : bool :=
  match a, b with DSt x, DSt y => Z.eqb x y | DSy x, DSy y => Nat.eqb x y | _, _ => false end.
Fixpoint sshape_eqb (a b : list sdim) : bool :=
  match a, b with [], [] => true | x :: a', y :: b' => sdim_eqb x y && sshape_eqb a' b' | _, _ => false end.
Definition check2 (dshape oshape : option (list sdim)) (steps : option (list Z)) : bool :=
  match dshape, oshape, steps with
  | Some ds, Some os, Some st => forallb (Z.eqb 1) st && sshape_eqb ds os
  | _, _, _ => false
  end.
(* what a declared shape says about a runtime shape under a binding of the symbol names *)
Fixpoint denotes (val : nat -> Z) (decl : list sdim) (sh : list Z) : Prop :=
  match decl, sh with
  | [], [] => True
  | DSt d :: decl', x :: sh' => x = d /\ denotes val decl' sh'
  | DSy n :: decl', x :: sh' => x = val n /\ denotes val decl' sh'
  | DUn :: decl', _ :: sh' => denotes val decl' sh'
  | _, _ => False
  end.

Definition case2 := (option (list sdim) * option (list sdim) * option (list Z) * bool)%type.
Definition agrees2 (c : case2) : bool := let '(d, o, st, f) := c in implb f (check2 d o st).
Fixpoint disagreeing2 (i : nat) (l : list case2) : list nat :=
  match l with [] => [] | c :: t => (if agrees2 c then [] else [i]) ++ disagreeing2 (S i) t end.
