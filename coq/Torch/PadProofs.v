(* C08 -- aten_constant_pad_nd / aten_pad (constant mode): the trace-time reordering
   paddings = (pad + zeros)[-2::-2] + (pad + zeros)[-1::-2] gives ONNX Pad the begin / end pair PyTorch means for every
   dimension (negative pads included), so shapes agree; along one axis Pad-18 adds / removes the slabs constant_pad_nd does. *)
From Coq Require Import ZArith List Bool Lia ZifyBool.
Require Import OV.Torch.Onnx OV.Torch.Onnx2 OV.Torch.Spec OV.Torch.Spec2 OV.Torch.Aten OV.Torch.Aten2
               OV.Torch.Lemmas OV.Torch.ShapeProofs OV.Torch.StackProofs OV.Torch.DiagProofs.
Import ListNotations.
Local Open Scope Z_scope.

(* ------------------------------------------------------------------ python [-2::-2] / [-1::-2] *)
Lemma iota_succ : forall n : nat, iota (Z.of_nat (S n)) = 0 :: map (fun j => j + 1) (iota (Z.of_nat n)).
Proof.
  intro n. unfold iota. rewrite !Nat2Z.id. cbn [seq map]. f_equal.
  rewrite <- seq_shift. rewrite !map_map. apply map_ext. intro x. lia.
Qed.

Lemma down2_spec : forall (n : nat) l c (fuel : nat), (c = 0 \/ c = 1) -> 2 * Z.of_nat n <= zlen l -> (n <= fuel)%nat ->
  py_down2 l (2 * (Z.of_nat n - 1) + c) fuel
  = map (fun j => nth (Z.to_nat (2 * (Z.of_nat n - 1 - j) + c)) l 0) (iota (Z.of_nat n)).
Proof.
  induction n; intros l c fuel Hc Hl Hf.
  - change (iota (Z.of_nat 0)) with (@nil Z). cbn [map]. destruct fuel; [reflexivity|]. cbn [py_down2].
    replace (2 * (Z.of_nat 0 - 1) + c <? 0) with true by lia. reflexivity.
  - destruct fuel as [|f]; [lia|]. cbn [py_down2].
    replace (2 * (Z.of_nat (S n) - 1) + c <? 0) with false by lia.
    rewrite (nthZ_nth _ l _ 0) by lia.
    rewrite iota_succ. cbn [map]. f_equal; [f_equal; lia|].
    replace (2 * (Z.of_nat (S n) - 1) + c - 2) with (2 * (Z.of_nat n - 1) + c) by lia.
    rewrite IHn by lia. rewrite map_map. apply map_ext. intro j. f_equal. lia.
Qed.

Lemma nth_repeat0 : forall (k m : nat), nth k (repeat 0 m) 0 = 0.
Proof. induction k; destruct m; cbn; auto. Qed.
Lemma nth_app_zeros : forall (pad : list Z) m k, 0 <= k ->
  nth (Z.to_nat k) (pad ++ repeat 0 m) 0 = match nthZ pad k with Some v => v | None => 0 end.
Proof.
  intros pad m k Hk. destruct (Z_lt_ge_dec k (zlen pad)) as [H|H].
  - rewrite app_nth1 by (unfold zlen in H; lia). rewrite (nthZ_nth _ pad k 0) by lia. reflexivity.
  - rewrite app_nth2 by (unfold zlen in H; lia). rewrite nth_repeat0.
    unfold nthZ. replace (k <? 0) with false by lia.
    assert (nth_error pad (Z.to_nat k) = None) as -> by (apply nth_error_None; unfold zlen in H; lia). reflexivity.
Qed.

Definition pad_begin (r : Z) (pad : list Z) (i : Z) : Z := fst (torch_pad_pair r pad i).
Definition pad_end (r : Z) (pad : list Z) (i : Z) : Z := snd (torch_pad_pair r pad i).

(* the reordering, for every rank and every legal pad list *)
Lemma pad_paddings_layout : forall r pad, 0 <= r -> zlen pad mod 2 = 0 -> zlen pad <= 2 * r ->
  pad_paddings r pad = map (pad_begin r pad) (iota r) ++ map (pad_end r pad) (iota r).
Proof.
  intros r pad Hr Hev Hle. unfold pad_paddings.
  set (padded := pad ++ repeat 0 (Z.to_nat (r * 2 - zlen pad))).
  assert (HL : zlen padded = 2 * r).
  { unfold padded. rewrite zlen_app. unfold zlen at 2. rewrite repeat_length. lia. }
  rewrite HL.
  assert (Hlen : length padded = Z.to_nat (2 * r)) by (unfold zlen in HL; lia).
  pose proof (down2_spec (Z.to_nat r) padded 0 (length padded) (or_introl eq_refl)) as H0.
  pose proof (down2_spec (Z.to_nat r) padded 1 (length padded) (or_intror eq_refl)) as H1.
  rewrite Z2Nat.id in H0, H1 by assumption.
  replace (2 * r - 2) with (2 * (r - 1) + 0) by lia. replace (2 * r - 1) with (2 * (r - 1) + 1) by lia.
  rewrite H0, H1 by lia.
  f_equal; apply map_ext_in; intros i Hi; apply iota_In in Hi; unfold padded; rewrite nth_app_zeros by lia;
    unfold pad_begin, pad_end, torch_pad_pair; cbn [fst snd].
  - replace (2 * (r - 1 - i) + 0) with (2 * (r - 1 - i)) by lia. reflexivity.
  - reflexivity.
Qed.

Lemma nthZ_map_iota : forall B (g : Z -> B) n i, 0 <= i < n -> nthZ (map g (iota n)) i = Some (g i).
Proof.
  intros B g n i H. unfold nthZ. replace (i <? 0) with false by lia.
  unfold iota. rewrite map_map. rewrite nth_error_map. rewrite nth_error_nth' with (d := O) by (rewrite seq_length; lia).
  rewrite seq_nth by lia. cbn [option_map]. f_equal. f_equal. lia.
Qed.

Lemma pad_paddings_pair : forall r pad i, 0 <= i < r -> zlen pad mod 2 = 0 -> zlen pad <= 2 * r ->
  nthZ (pad_paddings r pad) i = Some (pad_begin r pad i) /\ nthZ (pad_paddings r pad) (r + i) = Some (pad_end r pad i).
Proof.
  intros r pad i Hi Hev Hle. rewrite pad_paddings_layout by lia. split.
  - unfold nthZ. replace (i <? 0) with false by lia. rewrite nth_error_app1 by (rewrite map_length, iota_length; lia).
    pose proof (nthZ_map_iota _ (pad_begin r pad) r i Hi) as H. unfold nthZ in H. replace (i <? 0) with false in H by lia. exact H.
  - unfold nthZ. replace (r + i <? 0) with false by lia. rewrite nth_error_app2 by (rewrite map_length, iota_length; lia).
    rewrite map_length, iota_length by lia. replace (Z.to_nat (r + i) - Z.to_nat r)%nat with (Z.to_nat i) by lia.
    pose proof (nthZ_map_iota _ (pad_end r pad) r i Hi) as H. unfold nthZ in H. replace (i <? 0) with false in H by lia. exact H.
Qed.

(* ------------------------------------------------------------------ shapes *)
Lemma nthZ_cons_succ : forall A (x : A) t j, 0 <= j -> nthZ (x :: t) (j + 1) = nthZ t j.
Proof.
  intros A x t j H. unfold nthZ. replace (j + 1 <? 0) with false by lia. replace (j <? 0) with false by lia.
  replace (Z.to_nat (j + 1)) with (S (Z.to_nat j)) by lia. reflexivity.
Qed.

Lemma drop_app_len : forall (a b : list Z), drop (zlen a) (a ++ b) = b.
Proof. intros. unfold drop, zlen. rewrite Nat2Z.id. rewrite skipn_app, skipn_all, Nat.sub_diag. reflexivity. Qed.

Definition pad_dim (n b e : Z) : option Z := if pad_cut n b e then None else Some (n + b + e).

Lemma zip_pad_iota : forall (s : list Z) (B E : Z -> Z) k,
  zip_pad s (map B (map (Z.add k) (iota (zlen s)))) (map E (map (Z.add k) (iota (zlen s))))
  = omap_all (fun j => obind (nthZ s j) (fun n => pad_dim n (B (k + j)) (E (k + j)))) (iota (zlen s)).
Proof.
  induction s as [|n s IH]; intros B E k; [reflexivity|].
  unfold zlen. cbn [length]. fold (zlen s). replace (Z.of_nat (S (length s))) with (Z.of_nat (S (Z.to_nat (zlen s)))) by (unfold zlen; lia).
  rewrite iota_succ. rewrite Z2Nat.id by apply zlen_nonneg.
  cbn [map zip_pad omap_all]. cbn [nthZ Z.ltb Z.compare Z.to_nat nth_error obind].
  rewrite !map_map.
  rewrite (map_ext (fun x => B (k + (x + 1))) (fun x => B (k + 1 + x))) by (intro; f_equal; lia).
  rewrite (map_ext (fun x => E (k + (x + 1))) (fun x => E (k + 1 + x))) by (intro; f_equal; lia).
  specialize (IH B E (k + 1)). rewrite !map_map in IH. rewrite IH.
  rewrite omap_all_compose.
  rewrite (omap_all_ext _ _ (fun x => obind (nthZ (n :: s) (x + 1)) (fun n0 => pad_dim n0 (B (k + (x + 1))) (E (k + (x + 1)))))
                            (fun j => obind (nthZ s j) (fun n0 => pad_dim n0 (B (k + 1 + j)) (E (k + 1 + j))))).
  - unfold pad_dim. replace (k + 0) with k by lia.
    destruct (omap_all _ (iota (zlen s))); destruct (pad_cut n (B k) (E k)); reflexivity.
  - intros x Hx. apply iota_In in Hx. rewrite nthZ_cons_succ by lia.
    replace (k + (x + 1)) with (k + 1 + x) by lia. reflexivity.
Qed.

Lemma pad_shape_correct : forall s pad out,
  shape_ok s -> torch_pad_shape s pad = Some out -> aten_pad_shape s pad = Some out.
Proof.
  intros s pad out Hok. unfold torch_pad_shape, aten_pad_shape, pad_shape.
  destruct (negb (zlen pad mod 2 =? 0) || (2 * zlen s <? zlen pad)) eqn:Hd; [discriminate|].
  pose proof (zlen_nonneg _ s) as Hr.
  assert (Hev : zlen pad mod 2 = 0) by lia. assert (Hle : zlen pad <= 2 * zlen s) by lia.
  rewrite pad_paddings_layout by assumption.
  assert (Hl : forall g : Z -> Z, zlen (map g (iota (zlen s))) = zlen s) by (intro; apply zlen_map_iota; assumption).
  rewrite zlen_app, !Hl. replace (zlen s + zlen s =? 2 * zlen s) with true by lia.
  assert (Ht : take (zlen s) (map (pad_begin (zlen s) pad) (iota (zlen s)) ++ map (pad_end (zlen s) pad) (iota (zlen s)))
               = map (pad_begin (zlen s) pad) (iota (zlen s))).
  { rewrite <- (Hl (pad_begin (zlen s) pad)) at 1. apply take_app_exact. }
  assert (Hdr : drop (zlen s) (map (pad_begin (zlen s) pad) (iota (zlen s)) ++ map (pad_end (zlen s) pad) (iota (zlen s)))
               = map (pad_end (zlen s) pad) (iota (zlen s))).
  { rewrite <- (Hl (pad_begin (zlen s) pad)) at 1. apply drop_app_len. }
  rewrite Ht, Hdr.
  pose proof (zip_pad_iota s (pad_begin (zlen s) pad) (pad_end (zlen s) pad) 0) as Hz.
  rewrite (map_ext (Z.add 0) (fun x => x)) in Hz by (intro; lia). rewrite map_id in Hz. rewrite Hz.
  apply omap_all_weaken. intros i y.
  destruct (nthZ s i) as [n|] eqn:En; [|discriminate]. cbn [obind].
  assert (Hn : 0 <= n).
  { unfold shape_ok in Hok. rewrite Forall_forall in Hok. apply Hok. unfold nthZ in En. destruct (i <? 0); [discriminate|]. eapply nth_error_In; eassumption. }
  unfold pad_begin, pad_end, pad_dim, pad_cut. replace (0 + i) with i by lia.
  destruct (torch_pad_pair (zlen s) pad i) as [b e]. cbn [fst snd].
  destruct ((n + b + e <? 0) || (b <? 0) && (n + b <? 0) || (e <? 0) && (n + Z.min b 0 + e <? 0)) eqn:Ec; [discriminate|].
  intro H. replace (n <? Z.max (- b) 0 + Z.max (- e) 0) with false by lia. exact H.
Qed.

(* ------------------------------------------------------------------ values along one axis *)
Lemma torch_narrow_some : forall A (xs : list A) start len, 0 <= start -> 0 <= len -> start + len <= zlen xs ->
  torch_narrow xs start len = Some (take len (drop start xs)).
Proof.
  intros A xs start len H1 H2 H3. unfold torch_narrow.
  replace ((len <? 0) || (start <? - zlen xs) || (zlen xs <? start)) with false by lia.
  replace (start <? 0) with false by lia. replace (zlen xs - len <? start) with false by lia. reflexivity.
Qed.
Lemma torch_narrow_dom : forall A (xs : list A) start len out, 0 <= start -> torch_narrow xs start len = Some out ->
  0 <= len /\ start + len <= zlen xs.
Proof.
  intros A xs start len out H1. unfold torch_narrow.
  destruct ((len <? 0) || (start <? - zlen xs) || (zlen xs <? start)) eqn:E; [discriminate|].
  replace (start <? 0) with false by lia. destruct (zlen xs - len <? start) eqn:E2; [discriminate|]. intros _. lia.
Qed.
Lemma take_take : forall A (l : list A) a b, 0 <= a <= b -> take a (take b l) = take a l.
Proof. intros A l a b H. unfold take. rewrite firstn_firstn. f_equal. lia. Qed.

Lemma pad_axis_correct : forall A (fill : A) xs pb pe out,
  torch_pad_axis fill xs pb pe = Some out -> pad_axis fill xs pb pe = Some out.
Proof.
  intros A fill xs pb pe out. unfold torch_pad_axis, pad_axis, pad_cut.
  pose proof (zlen_nonneg _ xs) as Hn. set (n := zlen xs) in *.
  destruct (n + pb + pe <? 0) eqn:E0; [discriminate|].
  destruct (pb <? 0) eqn:Eb.
  - destruct (torch_narrow xs (- pb) (n + pb)) as [ys|] eqn:Ey; [|discriminate]. cbn [obind].
    assert (Hnb : 0 <= - pb) by lia.
    destruct (torch_narrow_dom _ _ _ _ _ Hnb Ey) as [Hy1 Hy2]. fold n in Hy2.
    rewrite torch_narrow_some in Ey by (fold n; lia). inversion Ey; subst ys; clear Ey.
    assert (Hly : zlen (take (n + pb) (drop (- pb) xs)) = n + pb).
    { rewrite zlen_take; [reflexivity|]. rewrite zlen_drop by (fold n; lia). fold n. lia. }
    rewrite Hly.
    destruct (pe <? 0) eqn:Ee.
    + destruct (torch_narrow _ 0 (n + pb + pe)) as [zs|] eqn:Ez; [|discriminate]. cbn [obind].
      rewrite torch_narrow_some in Ez by (rewrite ?Hly; lia). inversion Ez; subst zs; clear Ez.
      intro H; inversion H; subst out; clear H.
      replace (n <? Z.max (- pb) 0 + Z.max (- pe) 0) with false by lia.
      rewrite (drop_neg _ 0) by lia. rewrite take_take by lia.
      replace (Z.max (- pb) 0) with (- pb) by lia. replace (n - - pb - Z.max (- pe) 0) with (n + pb + pe) by lia. reflexivity.
    + cbn [obind]. intro H; inversion H; subst out; clear H.
      replace (n <? Z.max (- pb) 0 + Z.max (- pe) 0) with false by lia.
      replace (Z.max (- pb) 0) with (- pb) by lia. replace (n - - pb - Z.max (- pe) 0) with (n + pb) by lia. reflexivity.
  - cbn [obind]. destruct (pe <? 0) eqn:Ee.
    + destruct (torch_narrow xs 0 (zlen xs + pe)) as [zs|] eqn:Ez; [|discriminate]. cbn [obind].
      destruct (torch_narrow_dom _ _ _ _ _ (Z.le_refl 0) Ez) as [Hz1 Hz2]. fold n in Hz1, Hz2.
      rewrite torch_narrow_some in Ez by (fold n; lia). inversion Ez; subst zs; clear Ez.
      intro H; inversion H; subst out; clear H. fold n.
      replace (n <? Z.max (- pb) 0 + Z.max (- pe) 0) with false by lia.
      replace (Z.max (- pb) 0) with 0 by lia. replace (n - 0 - Z.max (- pe) 0) with (n + pe) by lia. reflexivity.
    + cbn [obind]. intro H; inversion H; subst out; clear H.
      replace (n <? Z.max (- pb) 0 + Z.max (- pe) 0) with false by lia.
      replace (Z.max (- pb) 0) with 0 by lia. replace (n - 0 - Z.max (- pe) 0) with n by lia.
      rewrite drop_neg by lia. rewrite take_all by (fold n; lia). reflexivity.
Qed.

(* the composition the function emits, along axis a: the pair PyTorch means for that dimension reaches Pad *)
Lemma aten_pad_axis_correct : forall A (fill : A) r a xs pad out,
  0 <= a < r -> zlen pad mod 2 = 0 -> zlen pad <= 2 * r ->
  torch_pad_axis fill xs (pad_begin r pad a) (pad_end r pad a) = Some out ->
  aten_pad_axis fill r a xs pad = Some out.
Proof.
  intros A fill r a xs pad out Ha Hev Hle H. unfold aten_pad_axis.
  destruct (pad_paddings_pair r pad a Ha Hev Hle) as [-> ->]. cbn [obind]. apply pad_axis_correct. exact H.
Qed.
