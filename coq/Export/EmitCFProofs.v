(* Semantic round trip of the exporter's statement emission for NESTED graphs (C13): If, Loop (`while` and `for`
   forms), the un-SSA assignments around them.  Models: Export/EmitCF.v (emission, side conditions), Graph/Sem.v,
   Script/PySem.v.  The straight-line part is Export/EmitProofs.v (node_step), reused for every plain node. *)
From Coq Require Import List String Ascii Bool Arith ZArith Lia.
Require Import OV.Export.Cleanup OV.Export.CleanupProofs.
Require Import OV.Graph.Syntax OV.Graph.Names OV.Graph.Sem OV.Graph.SemProofs OV.Script.Syntax OV.Script.Translate OV.Gen.ScriptTables
               OV.Script.PySem OV.Export.Emit OV.Export.EmitProofs OV.Export.EmitCF OV.Gen.ExportTables.
Import ListNotations.
Local Open Scope string_scope.

Section PyFacts.
  Variable V : Type.
  Variable sem : string -> string -> list (string * attrv) -> list (option V) -> option (list V).
  Variable truth : V -> option bool.
  Variable trip : V -> option nat.
  Variable of_nat : nat -> V.
  Variable limit : nat.
  Variable globals : list (string * lit).

  Notation exec_block := (exec_block V sem truth trip of_nat limit globals).
  Notation eval_expr := (eval_expr V sem globals).
  Notation penv := (penv V).
  Notation outcome := (outcome V).

  Definition oseq (r : option outcome) (k : penv -> option outcome) : option outcome :=
    match r with Some (ONormal _ pe') => k pe' | Some o => Some o | None => None end.

  Lemma exec_block_if : forall fu c t f rest pe,
    exec_block (S fu) (SIf c t f :: rest) pe =
    match eval_expr pe c with
    | Some vc => match ptruth V truth vc with
                 | Some true => oseq (exec_block fu t pe) (exec_block (S fu) rest)
                 | Some false => oseq (exec_block fu f pe) (exec_block (S fu) rest)
                 | None => None
                 end
    | None => None
    end.
  Proof.
    intros. cbn [PySem.exec_block]. destruct (eval_expr pe c) as [vc|]; [|reflexivity].
    destruct (ptruth V truth vc) as [[|]|]; reflexivity.
  Qed.

  Definition while_iter (fu : nat) (c : string) (body : list stmt) : nat -> penv -> option outcome :=
    fix iter (k : nat) (pe : penv) {struct k} : option outcome :=
    match plookup V pe c with
    | Some vc =>
      match ptruth V truth vc with
      | Some false => Some (ONormal V pe)
      | Some true =>
        match k with
        | O => None
        | S k' =>
          match exec_block fu body pe with
          | Some (ONormal _ pe') => iter k' pe'
          | Some (OBreak _ pe') => Some (ONormal V pe')
          | Some (OReturn _ vs) => Some (OReturn V vs)
          | None => None
          end
        end
      | None => None
      end
    | None => None
    end.

  Lemma exec_block_while : forall fu c body rest pe,
    exec_block (S fu) (SWhile c body :: rest) pe = oseq (while_iter fu c body limit pe) (exec_block (S fu) rest).
  Proof.
    intros. reflexivity.
  Qed.

  Definition for_iter (fu : nat) (i : string) (body : list stmt) : nat -> nat -> penv -> option outcome :=
    fix iter (k j : nat) (pe : penv) {struct k} : option outcome :=
    match k with
    | O => Some (ONormal V pe)
    | S k' =>
      match exec_block fu body ((i, PT V (of_nat j)) :: pe) with
      | Some (ONormal _ pe') => iter k' (S j) pe'
      | Some (OBreak _ pe') => Some (ONormal V pe')
      | Some (OReturn _ vs) => Some (OReturn V vs)
      | None => None
      end
    end.

  Lemma while_iter_O : forall fu c body pe,
    while_iter fu c body 0 pe =
    match plookup V pe c with
    | Some vc => match ptruth V truth vc with Some false => Some (ONormal V pe) | Some true => None | None => None end
    | None => None
    end.
  Proof. reflexivity. Qed.
  Lemma while_iter_S : forall fu c body k pe,
    while_iter fu c body (S k) pe =
    match plookup V pe c with
    | Some vc =>
      match ptruth V truth vc with
      | Some false => Some (ONormal V pe)
      | Some true =>
        match exec_block fu body pe with
        | Some (ONormal _ pe') => while_iter fu c body k pe'
        | Some (OBreak _ pe') => Some (ONormal V pe')
        | Some (OReturn _ vs) => Some (OReturn V vs)
        | None => None
        end
      | None => None
      end
    | None => None
    end.
  Proof. reflexivity. Qed.
  Lemma for_iter_S : forall fu i body k j pe,
    for_iter fu i body (S k) j pe =
    match exec_block fu body ((i, PT V (of_nat j)) :: pe) with
    | Some (ONormal _ pe') => for_iter fu i body k (S j) pe'
    | Some (OBreak _ pe') => Some (ONormal V pe')
    | Some (OReturn _ vs) => Some (OReturn V vs)
    | None => None
    end.
  Proof. reflexivity. Qed.

  Lemma exec_block_for : forall fu i bound body rest pe,
    exec_block (S fu) (SFor i bound body :: rest) pe =
    match eval_expr pe bound with
    | Some vb => match ptrip V trip vb with
                 | Some n => oseq (for_iter fu i body n 0 pe) (exec_block (S fu) rest)
                 | None => None
                 end
    | None => None
    end.
  Proof.
    intros. cbn [PySem.exec_block]. destruct (eval_expr pe bound) as [vb|]; [|reflexivity].
    destruct (ptrip V trip vb) as [n|]; reflexivity.
  Qed.

  Lemma exec_block_nil' : forall fu pe, exec_block (S fu) [] pe = Some (ONormal V pe).
  Proof. reflexivity. Qed.

  (* ---- `x = y` lines, top to bottom ------------------------------------------------------------------- *)
  Fixpoint pvals (pe : penv) (xs : list string) : option (list V) :=
    match xs with
    | [] => Some []
    | x :: t => match plookup V pe x, pvals pe t with
                | Some (PT _ v), Some vs => Some (v :: vs)
                | _, _ => None
                end
    end.

  Lemma eval_var_bound : forall pe y v, plookup V pe y = Some v -> eval_expr pe (EVar y) = Some v.
  Proof. intros pe y v H. cbn [PySem.eval_expr]. rewrite H. reflexivity. Qed.

  Lemma pvals_length : forall pe xs vs, pvals pe xs = Some vs -> List.length vs = List.length xs.
  Proof.
    induction xs as [|x t IH]; intros vs H; cbn [pvals] in H; [inversion H; reflexivity|].
    destruct (plookup V pe x) as [[v|? ?]|]; try discriminate. destruct (pvals pe t) as [vt|]; [|discriminate].
    inversion H; subst. cbn [List.length]. rewrite (IH vt eq_refl). reflexivity.
  Qed.

  Lemma pvals_ext : forall pe pe' xs, (forall x, In x xs -> plookup V pe' x = plookup V pe x) -> pvals pe' xs = pvals pe xs.
  Proof.
    induction xs as [|x t IH]; intros H; [reflexivity|]. cbn [pvals].
    rewrite (H x (or_introl eq_refl)), IH; [reflexivity|]. intros y Hy. apply H. right. exact Hy.
  Qed.

  Fixpoint seqok (L R : list string) : Prop :=
    match L, R with
    | x :: l, _ :: r => ~ In x r /\ seqok l r
    | _, _ => True
    end.

  Lemma seqokb_sound : forall L R, seqokb L R = true -> seqok L R.
  Proof.
    induction L as [|x l IH]; intros [|y r] H; cbn [seqok]; try exact I.
    cbn [seqokb] in H. apply andb_true_iff in H. destruct H as [H1 H2]. split.
    - apply memb_false_In. apply negb_true_iff. exact H1.
    - apply IH. exact H2.
  Qed.

  Lemma assigns_exec : forall L R vs fu rest pe,
    pvals pe R = Some vs -> List.length L = List.length R -> nodupb L = true -> seqok L R ->
    exists pe', exec_block (S fu) (assigns L R ++ rest)%list pe = exec_block (S fu) rest pe' /\
                pvals pe' L = Some vs /\ (forall z, ~ In z L -> plookup V pe' z = plookup V pe z).
  Proof.
    induction L as [|x l IH]; intros [|y r] vs fu rest pe Hv Hl Hn Hs; cbn [List.length] in Hl; try discriminate.
    - cbn [pvals] in Hv. inversion Hv; subst. exists pe. split; [reflexivity|]. split; [reflexivity|]. intros; reflexivity.
    - cbn [pvals] in Hv. destruct (plookup V pe y) as [[v|? ?]|] eqn:Py; try discriminate.
      destruct (pvals pe r) as [vt|] eqn:Pr; [|discriminate]. inversion Hv; subst vs. clear Hv.
      destruct Hs as [Hs1 Hs2]. apply nodupb_cons in Hn. destruct Hn as [Hn1 Hn2].
      unfold assigns. cbn [combine map app fst snd]. rewrite exec_block_assign. rewrite (eval_var_bound pe y _ Py).
      destruct (IH r vt fu rest ((x, PT V v) :: pe)) as (pe' & X & P & F).
      + rewrite <- Pr. apply pvals_ext. intros z Hz. cbn [plookup]. destruct (String.eqb z x) eqn:E; [|reflexivity].
        apply String.eqb_eq in E. subst z. contradiction.
      + injection Hl as Hl. exact Hl.
      + exact Hn2.
      + exact Hs2.
      + exists pe'. split; [exact X|]. split.
        * cbn [pvals]. rewrite (F x Hn1). cbn [plookup]. rewrite String.eqb_refl. rewrite P. reflexivity.
        * intros z Hz. rewrite F by (intros C; apply Hz; right; exact C). cbn [plookup].
          destruct (String.eqb z x) eqn:E; [|reflexivity]. apply String.eqb_eq in E. subst z. exfalso. apply Hz. left. reflexivity.
  Qed.
End PyFacts.

(* use_operators: the operator expression printed for a two-input node evaluates to what the call of that operator
   evaluates to (Script/PySem.v reads `a <op> b` through the converter's operator table primop_map), for operands that
   are not both Python scalars (two inlined literals: Python arithmetic, which PySem leaves undefined) *)
Section OperatorSem.
  Variable V : Type.
  Variable sem : string -> string -> list (string * attrv) -> list (option V) -> option (list V).
  Variable globals : list (string * lit).

  Theorem binop_denotes_call : forall cls opname a b (pe : penv V) va vb,
    lookup_assoc cls primop_map = Some opname -> String.eqb cls "Mod" = false ->
    eval_expr V sem globals pe a = Some va -> eval_expr V sem globals pe b = Some vb -> is_scalar V va && is_scalar V vb = false ->
    eval_expr V sem globals pe (EBin cls a b) = eval_expr V sem globals pe (ECall (COp opname) [Some a; Some b] []).
  Proof.
    intros cls opname a b pe va vb Hop Hmod Ha Hb Hsc. cbn [PySem.eval_expr]. rewrite Hop, Ha, Hb, Hsc.
    unfold binop_attrs. rewrite Hmod. reflexivity.
  Qed.

  Theorem cmpop_denotes_call : forall cls opname a b (pe : penv V) va vb,
    lookup_assoc cls primop_map = Some opname -> String.eqb opname "NotEqual" = false ->
    eval_expr V sem globals pe a = Some va -> eval_expr V sem globals pe b = Some vb -> is_scalar V va && is_scalar V vb = false ->
    eval_expr V sem globals pe (ECmp cls a b) = eval_expr V sem globals pe (ECall (COp opname) [Some a; Some b] []).
  Proof.
    intros cls opname a b pe va vb Hop Hne Ha Hb Hsc. cbn [PySem.eval_expr]. rewrite Hop, Ha, Hb, Hsc, Hne. reflexivity.
  Qed.
End OperatorSem.

Lemma lookup_app_other : forall (V : Type) (b e : env V) x, ~ In x (map fst b) -> lookup (b ++ e)%list x = lookup e x.
Proof.
  induction b as [|[y v] t IH]; intros e x H; [reflexivity|]. cbn [app lookup].
  destruct (String.eqb x y) eqn:E.
  - apply String.eqb_eq in E. subst. exfalso. apply H. left. reflexivity.
  - apply IH. intros C. apply H. right. exact C.
Qed.

Lemma emit_all_app : forall A (f : A -> option (list stmt)) a b,
  emit_all f (a ++ b)%list = match emit_all f a, emit_all f b with Some x, Some y => Some (x ++ y)%list | _, _ => None end.
Proof.
  induction a as [|x t IH]; intros b; cbn [app emit_all].
  - destruct (emit_all f b); reflexivity.
  - rewrite IH. destruct (f x); [|reflexivity]. destruct (emit_all f t); [|reflexivity].
    destruct (emit_all f b); [|reflexivity]. rewrite app_assoc. reflexivity.
Qed.

Lemma forallb_nonempty_notin : forall l, forallb nonempty l = true -> ~ In "" l.
Proof.
  intros l H C. rewrite forallb_forall in H. specialize (H "" C). discriminate H.
Qed.

Section Nested.
  Variable V : Type.
  Variable sem : string -> string -> list (string * attrv) -> list (option V) -> option (list V).
  Variable truth : V -> option bool.
  Variable trip : V -> option nat.
  Variable of_nat : nat -> V.
  Variable of_bool : bool -> V.
  Variable limit : nat.                            (* the same bound for ONNX loops without trip count and Python `while` *)
  Variable globals : list (string * lit).
  Variable kw : list string.
  Variable rename : vname -> string.
  Variable infun : bool.
  Variable rm : remaps.
  Variable NN : list vname.
  Variable brk : bool.
  Variable use_ops : option bool.

  Notation tr := (tr rename rm).
  Notation tv := (tv rename rm).
  Notation tvo := (tvo rename rm).

  Hypothesis tr_inj : forall a b, In a NN -> In b NN -> a <> "" -> b <> "" -> tr a = tr b -> a = b.
  Hypothesis none_free : forall x, In x NN -> x <> "" -> tr x <> "None".
  Hypothesis sem_identity : forall v, sem "" "Identity" [] [Some v] = Some [v].
  Hypothesis truth_of_bool : forall b, truth (of_bool b) = Some b.
  (* for the Loop form `for` + `if not c: break` only (flag brk): Not negates a condition; every value is readable as a
     condition (Python leaves the loop on an exhausted range without looking at the condition, the ONNX Loop reads it) *)
  Hypothesis sem_not : forall v b, truth v = Some b -> exists r, sem "" "Not" [] [Some v] = Some [r] /\ truth r = Some (negb b).
  Hypothesis truth_total : brk = true -> forall v, exists b, truth v = Some b.

  Notation exec_block := (exec_block V sem truth trip of_nat limit globals).
  Notation eval_expr := (eval_expr V sem globals).
  Notation eval_node := (eval_node V sem truth trip of_nat of_bool limit).
  Notation run := (run V sem truth trip of_nat of_bool limit).
  Notation eval_body := (eval_body V sem truth trip of_nat of_bool limit).
  Notation loop_iter := (loop_iter V truth of_nat of_bool).
  Notation penv := (penv V).
  Notation Inv := (Inv V tr).
  Notation scoped := (scoped NN).
  Notation pvals := (pvals V).
  Notation while_iter := (while_iter V sem truth trip of_nat limit globals).
  Notation for_iter := (for_iter V sem truth trip of_nat limit globals).

  (* what the emission of a node list guarantees, at one nesting level: `evr` evaluates the subgraphs of the nodes,
     the Python statements run with exec_block (S fp) *)
  Definition corr (evr : env V -> graph -> list V -> option (list V)) (fp : nat)
                  (D Dfin : list vname) (ns : list node) (ss : list stmt) : Prop :=
    (scoped D -> scoped Dfin) /\ (forall x, In x D -> In x Dfin) /\
    forall e (pe : penv) rest, Inv D e pe -> scoped D ->
      match run evr e ns with
      | None => exec_block (S fp) (ss ++ rest)%list pe = None
      | Some e' => exists pe', exec_block (S fp) (ss ++ rest)%list pe = exec_block (S fp) rest pe' /\
                               Inv Dfin e' pe' /\ (forall x, In x D -> lookup e' x = lookup e x)
      end.

  Lemma tv_tr : forall x, nonempty x = true -> tv x = tr x.
  Proof. intros x H. unfold EmitCF.tv. unfold nonempty in H. apply negb_true_iff in H. rewrite H. reflexivity. Qed.
  Lemma map_tv_tr : forall l, forallb nonempty l = true -> map tv l = map tr l.
  Proof.
    intros l H. apply map_ext_in. intros x Hx. apply tv_tr. rewrite forallb_forall in H. apply H. exact Hx.
  Qed.

  Lemma inv_pvals : forall D e (pe : penv) os, Inv D e pe -> (forall o, In o os -> In o D) ->
    exists vs, lookups e os = Some vs /\ pvals pe (map tr os) = Some vs.
  Proof.
    intros D e pe os HI. induction os as [|o t IH]; intros Hin.
    - exists []. split; reflexivity.
    - destruct IH as (vs & L1 & L2); [intros y Hy; apply Hin; right; exact Hy|].
      destruct (HI o (Hin o (or_introl eq_refl))) as (v & Lo & Po).
      exists (v :: vs). cbn [lookups map EmitCFProofs.pvals]. rewrite Lo, L1, Po, L2. split; reflexivity.
  Qed.

  Lemma inv_weaken : forall D D' e (pe : penv), Inv D' e pe -> (forall x, In x D -> In x D') -> Inv D e pe.
  Proof. intros D D' e pe H Hs x Hx. apply H. apply Hs. exact Hx. Qed.

  Lemma inv_reenv : forall D e e' (pe : penv), Inv D e' pe -> (forall x, In x D -> lookup e' x = lookup e x) -> Inv D e pe.
  Proof. intros D e e' pe H Hf x Hx. destruct (H x Hx) as (v & L & P). exists v. rewrite <- (Hf x Hx). split; assumption. Qed.

  Lemma bind_some_length : forall xs (vs : list V) e, List.length xs = List.length vs -> exists e', Sem.bind xs vs e = Some e'.
  Proof.
    induction xs as [|x t IH]; intros [|v vt] e H; cbn [List.length] in H; try discriminate.
    - exists e. reflexivity.
    - destruct (IH vt e) as [e1 E1]; [injection H as H; exact H|]. exists ((x, v) :: e1). cbn [Sem.bind]. rewrite E1. reflexivity.
  Qed.

  Lemma bind_none_length : forall xs (vs : list V) e, List.length xs <> List.length vs -> Sem.bind xs vs e = None.
  Proof.
    induction xs as [|x t IH]; intros [|v vt] e H; cbn [List.length Sem.bind] in *; try reflexivity; [contradiction H; reflexivity|].
    rewrite IH; [reflexivity|]. intros C. apply H. rewrite C. reflexivity.
  Qed.

  Lemma bind_pvals : forall outs (vs : list V) e e' (pe' : penv),
    Sem.bind outs vs e = Some e' -> pvals pe' (map tr outs) = Some vs -> nodupb outs = true ->
    forall x, In x outs -> exists v, lookup e' x = Some v /\ plookup V pe' (tr x) = Some (PT V v).
  Proof.
    induction outs as [|o t IH]; intros [|v vt] e e' pe' Hb Hp Hn x Hx; cbn [Sem.bind] in Hb; try discriminate; [contradiction|].
    destruct (Sem.bind t vt e) as [e1|] eqn:E1; [|discriminate]. cbn [option_map] in Hb. inversion Hb; subst e'. clear Hb.
    cbn [map EmitCFProofs.pvals] in Hp. destruct (plookup V pe' (tr o)) as [[w|? ?]|] eqn:Po; try discriminate.
    destruct (pvals pe' (map tr t)) as [wt|] eqn:Pt; [|discriminate]. inversion Hp; subst w wt. clear Hp.
    apply nodupb_cons in Hn. destruct Hn as [Hn1 Hn2].
    destruct (String.eqb x o) eqn:Exo.
    - apply String.eqb_eq in Exo. subst x. exists v. cbn [lookup]. rewrite String.eqb_refl. split; [reflexivity|exact Po].
    - destruct Hx as [Hx|Hx]; [subst; rewrite String.eqb_refl in Exo; discriminate|].
      destruct (IH vt e e1 pe' E1 Pt Hn2 x Hx) as (u & L1 & L2). exists u. cbn [lookup]. rewrite Exo. split; assumption.
  Qed.

  (* after `out_k = src_k`: the new names join the visible ones *)
  Lemma inv_extend : forall D e e' (pe pe' : penv) outs vs,
    Inv D e pe -> scoped D -> Sem.bind outs vs e = Some e' ->
    pvals pe' (map tr outs) = Some vs -> (forall z, ~ In z (map tr outs) -> plookup V pe' z = plookup V pe z) ->
    nodupb outs = true -> (forall o, In o outs -> o <> "" /\ In o NN /\ ~ In o D) ->
    Inv (outs ++ D)%list e' pe'.
  Proof.
    intros D e e' pe pe' outs vs HI HD Hb Hp Hf Hn Ho x Hx. apply in_app_or in Hx. destruct Hx as [Hx|Hx].
    - eapply bind_pvals; eassumption.
    - destruct (HI x Hx) as (v & L & P). destruct (HD x Hx) as [HxN Hxne]. exists v. split.
      + rewrite (bind_lookup_other V outs vs e e' x Hb); [exact L|]. intros C. destruct (Ho x C) as (_ & _ & H3). contradiction.
      + rewrite Hf; [exact P|]. intros C. apply in_map_iff in C. destruct C as (o & Eo & Hin).
        destruct (Ho o Hin) as (H1 & H2 & H3). assert (o = x) by (apply tr_inj; assumption). subst o. contradiction.
  Qed.

  Lemma scoped_app : forall outs D, scoped D -> (forall o, In o outs -> o <> "" /\ In o NN) -> scoped (outs ++ D)%list.
  Proof.
    intros outs D HD Ho x Hx. apply in_app_or in Hx. destruct Hx as [Hx|Hx]; [|apply HD; exact Hx].
    destruct (Ho x Hx). split; assumption.
  Qed.

  Lemma freshb_spec : forall D x, freshb NN D x = true -> x <> "" /\ In x NN /\ ~ In x D.
  Proof.
    intros D x H. unfold freshb in H. apply andb_true_iff in H. destruct H as [H H3]. apply andb_true_iff in H. destruct H as [H1 H2].
    split; [apply nonempty_true; exact H1|]. split; [apply memb_In; exact H2|]. apply memb_false_In. apply negb_true_iff. exact H3.
  Qed.
  Lemma freshb_all : forall D l, forallb (freshb NN D) l = true -> forall o, In o l -> o <> "" /\ In o NN /\ ~ In o D.
  Proof. intros D l H o Ho. apply freshb_spec. rewrite forallb_forall in H. apply H. exact Ho. Qed.
  Lemma freshb_nonempty : forall D l, forallb (freshb NN D) l = true -> forallb nonempty l = true.
  Proof.
    intros D l H. apply forallb_forall. intros x Hx. rewrite forallb_forall in H. specialize (H x Hx).
    unfold freshb in H. apply andb_true_iff in H. destruct H as [H _]. apply andb_true_iff in H. apply H.
  Qed.

  (* ---- one nesting level ------------------------------------------------------------------------------ *)
  Section Level.
  Variable fp' : nat.                                                (* nested blocks run with exec_block (S fp') *)
  Variable evg' : env V -> graph -> list V -> option (list V).       (* evaluates the subgraphs of nested nodes *)
  Variable elist : list node -> option (list stmt).                  (* emission of a nested node list *)
  Variable wsub : list vname -> list node -> option (list vname).
  Hypothesis Hsub : forall D ns sb Db, elist ns = Some sb -> wsub D ns = Some Db -> corr evg' fp' D Db ns sb.
  Hypothesis Htail : forall ns i u sb, elist (ns ++ [Node "" "Identity" [Some i] [u] [] []])%list = Some sb ->
                                       tr u = tr i -> u <> "" -> elist ns = Some sb.
  Hypothesis Hfp : forall ns sb, elist ns = Some sb -> fp' <> 0.       (* a nested body has one more level of Python fuel *)

  Definition esub (g : graph) : option (list stmt) := if is_nil (g_inits g) then elist (g_nodes g) else None.

  (* a branch of an If: its statements, then `out_k = branch_out_k` *)
  Lemma branch_step : forall D g outs sb e (pe : penv),
    wf_branch rename rm wsub D g outs = true -> esub g = Some sb ->
    Inv D e pe -> scoped D ->
    nodupb outs = true -> nodupb (map tv outs) = true -> forallb (freshb NN D) outs = true ->
    match eval_body evg' e g [] with
    | None => exec_block (S fp') (sb ++ assigns (map tv outs) (map tv (g_outs g)))%list pe = None
    | Some vs => exists e' pe', Sem.bind outs vs e = Some e' /\
                                exec_block (S fp') (sb ++ assigns (map tv outs) (map tv (g_outs g)))%list pe = Some (ONormal V pe') /\
                                Inv (outs ++ D)%list e' pe'
    end.
  Proof.
    intros D g outs sb e pe Hw He HI HD Hn Hnt Hfr.
    unfold wf_branch in Hw. destruct (wsub D (g_nodes g)) as [Db|] eqn:Ew.
    2:{ rewrite andb_false_r in Hw. discriminate. }
    apply andb_true_iff in Hw. destruct Hw as [Hw Hw5]. apply andb_true_iff in Hw5. destruct Hw5 as [Hw5 Hw6].
    apply andb_true_iff in Hw. destruct Hw as [Hw Hw4]. apply andb_true_iff in Hw. destruct Hw as [Hw Hw3].
    apply andb_true_iff in Hw. destruct Hw as [Hw1 Hw2].
    unfold esub in He. rewrite Hw2 in He.
    destruct (Hsub D (g_nodes g) sb Db He Ew) as (Hsc & Hincl & Hrun).
    destruct g as [gi gin gn go]. cbn [g_ins g_inits g_nodes g_outs] in *.
    destruct gi; [|discriminate Hw1]. unfold Sem.eval_body. cbn [g_ins g_nodes g_outs Sem.bind].
    specialize (Hrun e pe (assigns (map tv outs) (map tv go)) HI HD).
    destruct (run evg' e gn) as [eb|]; [|exact Hrun].
    destruct Hrun as (peb & X & Ib & Fr). rewrite X.
    rewrite forallb_forall in Hw5.
    destruct (inv_pvals Db eb peb go Ib) as (vs & L1 & L2); [intros o Ho; apply memb_In; apply Hw5; exact Ho|].
    rewrite L1. apply Nat.eqb_eq in Hw3.
    assert (Hlen : List.length outs = List.length vs).
    { rewrite (pvals_length V peb _ _ L2), map_length. symmetry. exact Hw3. }
    destruct (bind_some_length outs vs e Hlen) as [e' Eb]. 
    rewrite (map_tv_tr go Hw4). rewrite (map_tv_tr outs (freshb_nonempty D outs Hfr)).
    destruct (assigns_exec V sem truth trip of_nat limit globals (map tr outs) (map tr go) vs fp' [] peb L2) as (pe' & X2 & P2 & F2).
    - rewrite !map_length. symmetry. exact Hw3.
    - rewrite <- (map_tv_tr outs (freshb_nonempty D outs Hfr)). exact Hnt.
    - apply seqokb_sound. rewrite <- (map_tv_tr go Hw4). rewrite <- (map_tv_tr outs (freshb_nonempty D outs Hfr)). exact Hw6.
    - exists e', pe'. split; [exact Eb|]. split.
      + rewrite app_nil_r in X2. rewrite X2. reflexivity.
      + eapply inv_extend with (pe := peb); try eassumption.
        * apply inv_reenv with (e' := eb); [|exact Fr]. eapply inv_weaken; [exact Ib|exact Hincl].
        * intros o Ho. apply (freshb_all D outs Hfr o Ho).
  Qed.

  Definition node_corr (D Dn : list vname) (n : node) (ss : list stmt) : Prop :=
    forall e (pe : penv) rest, Inv D e pe -> scoped D ->
      match eval_node (eval_body evg') e n with
      | None => exec_block (S (S fp')) (ss ++ rest)%list pe = None
      | Some e' => exists pe', exec_block (S (S fp')) (ss ++ rest)%list pe = exec_block (S (S fp')) rest pe' /\
                               Inv Dn e' pe' /\ (forall x, In x D -> lookup e' x = lookup e x)
      end.

  Lemma if_core : forall D c outs gt ge st se e (pe : penv) rest,
    In c D -> wf_branch rename rm wsub D gt outs = true -> wf_branch rename rm wsub D ge outs = true ->
    esub gt = Some st -> esub ge = Some se -> Inv D e pe -> scoped D ->
    nodupb outs = true -> nodupb (map tv outs) = true -> forallb (freshb NN D) outs = true ->
    match (match lookup e c with
           | Some cv => match truth cv with
                        | Some b => match eval_body evg' e (if b then gt else ge) [] with
                                    | Some vs => Sem.bind outs vs e
                                    | None => None
                                    end
                        | None => None
                        end
           | None => None
           end) with
    | None => exec_block (S (S fp')) (SIf (EVar (tr c)) (st ++ assigns (map tv outs) (map tv (g_outs gt)))%list
                                                       (se ++ assigns (map tv outs) (map tv (g_outs ge)))%list :: rest) pe = None
    | Some e' => exists pe', exec_block (S (S fp')) (SIf (EVar (tr c)) (st ++ assigns (map tv outs) (map tv (g_outs gt)))%list
                                                       (se ++ assigns (map tv outs) (map tv (g_outs ge)))%list :: rest) pe
                             = exec_block (S (S fp')) rest pe' /\
                             Inv (outs ++ D)%list e' pe' /\ (forall x, In x D -> lookup e' x = lookup e x)
    end.
  Proof.
    intros D c outs gt ge st se e pe rest Hc Hwt Hwe Het Hee HI HD Hn Hnt Hfr.
    destruct (HI c Hc) as (cv & Lc & Pc). rewrite Lc.
    rewrite (exec_block_if V sem truth trip of_nat limit globals). rewrite (eval_var_bound V sem globals pe (tr c) _ Pc).
    cbn [ptruth]. destruct (truth cv) as [b|]; [|reflexivity].
    assert (Hframe : forall vs e', Sem.bind outs vs e = Some e' -> forall x, In x D -> lookup e' x = lookup e x).
    { intros vs e' Eb x Hx. apply (bind_lookup_other V outs vs e e' x Eb). intros C.
      destruct (freshb_all D outs Hfr x C) as (_ & _ & H3). contradiction. }
    destruct b.
    - pose proof (branch_step D gt outs st e pe Hwt Het HI HD Hn Hnt Hfr) as B.
      destruct (eval_body evg' e gt []) as [vs|]; [|rewrite B; reflexivity].
      destruct B as (e' & pe' & Eb & X & I'). rewrite Eb. exists pe'. rewrite X. cbn [oseq]. split; [reflexivity|]. split; [exact I'|].
      eapply Hframe. exact Eb.
    - pose proof (branch_step D ge outs se e pe Hwe Hee HI HD Hn Hnt Hfr) as B.
      destruct (eval_body evg' e ge []) as [vs|]; [|rewrite B; reflexivity].
      destruct B as (e' & pe' & Eb & X & I'). rewrite Eb. exists pe'. rewrite X. cbn [oseq]. split; [reflexivity|]. split; [exact I'|].
      eapply Hframe. exact Eb.
  Qed.

  Lemma if_step : forall D dom ins outs attrs subs ss Dn,
    wf_if rename rm NN wsub D dom ins outs attrs subs = Some Dn ->
    emit_if rename None rm [] esub ins outs attrs subs = Some ss ->
    node_corr D Dn (Node dom "If" ins outs attrs subs) ss /\ Dn = (outs ++ D)%list /\ (forall o, In o outs -> o <> "" /\ In o NN).
  Proof.
    intros D dom ins outs attrs subs ss Dn Hw He.
    unfold wf_if in Hw.
    destruct ins as [|[c|] [|? ?]]; try discriminate. destruct attrs; [|discriminate].
    destruct subs as [|[n0 g0] [|[n1 g1] [|? ?]]]; try discriminate.
    match type of Hw with (if ?b then _ else _) = _ => destruct b eqn:Hc; [|discriminate] end.
    inversion Hw; subst Dn. clear Hw.
    repeat (apply andb_true_iff in Hc; let H := fresh "C" in destruct Hc as [Hc H]).
    apply String.eqb_eq in Hc. subst dom. apply memb_In in C5.
    split; [|split; [reflexivity|intros o Ho; destruct (freshb_all D outs C3 o Ho) as (A1 & A2 & _); split; assumption]].
    intros e pe rest HI HD.
    unfold emit_if in He. cbn [ref_e lookup_assoc] in He.
    unfold branch_names in C4. apply orb_true_iff in C4. destruct C4 as [C4|C4]; apply andb_true_iff in C4; destruct C4 as [E0 E1];
      apply String.eqb_eq in E0; apply String.eqb_eq in E1; subst n0 n1.
    - change (String.eqb "then_branch" "else_branch") with false in He. cbv iota in He.
      destruct (esub g0) as [st|] eqn:Et; [|discriminate]. destruct (esub g1) as [se|] eqn:Ee; [|discriminate].
      inversion He; subst ss. clear He. cbn [app].
      pose proof (if_core D c outs g0 g1 st se e pe rest C5 C0 C Et Ee HI HD C2 C1 C3) as K.
      unfold Sem.eval_node. change (is_if "" "If") with true. cbv iota. cbn [lookup_opts].
      destruct (lookup e c) as [cv|]; [|exact K]. cbn [option_map]. destruct (truth cv) as [[|]|]; [| |exact K].
      + change (find_sub "then_branch" [("then_branch", g0); ("else_branch", g1)]) with (Some g0). exact K.
      + change (find_sub "else_branch" [("then_branch", g0); ("else_branch", g1)]) with (Some g1). exact K.
    - change (String.eqb "else_branch" "else_branch") with true in He. cbv iota in He.
      destruct (esub g1) as [st|] eqn:Et; [|discriminate]. destruct (esub g0) as [se|] eqn:Ee; [|discriminate].
      inversion He; subst ss. clear He. cbn [app].
      pose proof (if_core D c outs g1 g0 st se e pe rest C5 C C0 Et Ee HI HD C2 C1 C3) as K.
      unfold Sem.eval_node. change (is_if "" "If") with true. cbv iota. cbn [lookup_opts].
      destruct (lookup e c) as [cv|]; [|exact K]. cbn [option_map]. destruct (truth cv) as [[|]|]; [| |exact K].
      + change (find_sub "then_branch" [("else_branch", g0); ("then_branch", g1)]) with (Some g1). exact K.
      + change (find_sub "else_branch" [("else_branch", g0); ("then_branch", g1)]) with (Some g0). exact K.
  Qed.

  (* ---- Loop, `while` form ------------------------------------------------------------------------------ *)
  Lemma inv_shadow : forall D e1 (pe : penv) (b : env V), Inv D e1 pe -> (forall x, In x D -> ~ In x (map fst b)) -> Inv D (b ++ e1)%list pe.
  Proof.
    intros D e1 pe b HI Hn x Hx. destruct (HI x Hx) as (v & L & P). exists v. split; [|exact P].
    rewrite lookup_app_other; [exact L|]. apply Hn. exact Hx.
  Qed.

  Lemma not_in_tr : forall D l x, scoped D -> In x D -> (forall o, In o l -> o <> "" /\ In o NN /\ ~ In o D) -> ~ In (tr x) (map tr l).
  Proof.
    intros D l x HD Hx Hl C. apply in_map_iff in C. destruct C as (o & Eo & Ho). destruct (Hl o Ho) as (H1 & H2 & H3).
    destruct (HD x Hx) as [A1 A2]. assert (o = x) by (apply tr_inj; assumption). subst o. contradiction.
  Qed.

  Section While.
    Variables (D Db : list vname) (e : env V) (iv cin cout : vname) (fins fouts : list vname) (nsb : list node) (sb : list stmt).
    Hypothesis HD : scoped D.
    Hypothesis Hcorr : corr evg' fp' (fins ++ D)%list Db nsb sb.
    Hypothesis Hnd : nodupb (iv :: cin :: fins) = true.
    Hypothesis Hiv : ~ In iv D.
    Hypothesis Hcin : cin <> "" /\ In cin NN /\ ~ In cin D.
    Hypothesis Hfins : forall o, In o fins -> o <> "" /\ In o NN /\ ~ In o D.
    Hypothesis Houts : forall o, In o (cout :: fouts) -> In o Db.
    Hypothesis Hlen : List.length fouts = List.length fins.
    Hypothesis Hndt : nodupb (tr cin :: map tr fins) = true.
    Hypothesis Hseq : seqok (tr cin :: map tr fins) (tr cout :: map tr fouts).

    Let body := Graph (iv :: cin :: fins) [] nsb (cout :: fouts).
    Let inner := (sb ++ assigns (tr cin :: map tr fins) (tr cout :: map tr fouts))%list.

    Definition gwhile (k i : nat) (cv : V) (st : list V) : option (list V) :=
      match truth cv with Some c => loop_iter (eval_body evg') e body false k i c st | None => None end.

    Lemma body_env : forall (pe : penv) st a b, Inv D e pe -> pvals pe (map tr fins) = Some st ->
      exists e0, Sem.bind (iv :: cin :: fins) (a :: b :: st) e = Some e0 /\ Inv (fins ++ D)%list e0 pe /\
                 (forall x, In x D -> lookup e0 x = lookup e x).
    Proof.
      intros pe st a b HI Hp.
      assert (Hl : List.length fins = List.length st) by (rewrite (pvals_length V pe _ _ Hp), map_length; reflexivity).
      destruct (bind_some_length fins st e Hl) as [e1 E1].
      exists ((iv, a) :: (cin, b) :: e1). cbn [Sem.bind]. rewrite E1. cbn [option_map]. split; [reflexivity|].
      apply nodupb_cons in Hnd. destruct Hnd as [Hn1 Hn2]. apply nodupb_cons in Hn2. destruct Hn2 as [Hn2 Hn3].
      assert (I1 : Inv (fins ++ D)%list e1 pe).
      { eapply inv_extend with (pe := pe); try eassumption. intros; reflexivity. }
      split.
      - change ((iv, a) :: (cin, b) :: e1) with ([(iv, a); (cin, b)] ++ e1)%list. apply inv_shadow; [exact I1|].
        intros x Hx C. cbn [map fst] in C. apply in_app_or in Hx.
        destruct C as [C|[C|[]]]; subst x.
        + destruct Hx as [Hx|Hx]; [apply Hn1; right; exact Hx | contradiction].
        + destruct Hx as [Hx|Hx]; [contradiction | apply (proj2 (proj2 Hcin)); exact Hx].
      - intros x Hx. cbn [lookup].
        destruct (String.eqb x iv) eqn:E1'; [apply String.eqb_eq in E1'; subst; contradiction|].
        destruct (String.eqb x cin) eqn:E2'; [apply String.eqb_eq in E2'; subst; exfalso; apply (proj2 (proj2 Hcin)); exact Hx|].
        apply (bind_lookup_other V fins st e e1 x E1). intros C. destruct (Hfins x C) as (_ & _ & H3). contradiction.
    Qed.

    (* one execution of the body and of the assignments that close it *)
    Lemma body_step : forall (pe : penv) st a b, Inv D e pe -> pvals pe (map tr fins) = Some st ->
      match eval_body evg' e body (a :: b :: st) with
      | None => exec_block (S fp') inner pe = None
      | Some r => exists cv' st' pe', r = cv' :: st' /\ List.length st' = List.length st /\
                    exec_block (S fp') inner pe = Some (ONormal V pe') /\
                    Inv D e pe' /\ plookup V pe' (tr cin) = Some (PT V cv') /\ pvals pe' (map tr fins) = Some st'
      end.
    Proof.
      intros pe st a b HI Hp.
      destruct (body_env pe st a b HI Hp) as (e0 & E0 & I0 & F0).
      unfold Sem.eval_body, body. cbn [g_ins g_nodes g_outs]. rewrite E0.
      destruct Hcorr as (Hsc & Hincl & Hrun).
      assert (HD' : scoped (fins ++ D)%list) by (apply scoped_app; [exact HD|intros o Ho; destruct (Hfins o Ho) as (A & B & _); split; assumption]).
      specialize (Hrun e0 pe (assigns (tr cin :: map tr fins) (tr cout :: map tr fouts)) I0 HD').
      fold inner in Hrun.
      destruct (run evg' e0 nsb) as [eb|]; [|exact Hrun].
      destruct Hrun as (peb & X & Ib & Fb).
      destruct (inv_pvals Db eb peb (cout :: fouts) Ib Houts) as (vs & L1 & L2). rewrite L1.
      cbn [map] in L2.
      destruct (assigns_exec V sem truth trip of_nat limit globals (tr cin :: map tr fins) (tr cout :: map tr fouts) vs fp' [] peb L2)
        as (pe' & X2 & P2 & F2).
      { cbn [List.length]. rewrite !map_length. rewrite Hlen. reflexivity. }
      { exact Hndt. }
      { exact Hseq. }
      rewrite app_nil_r in X2.
      cbn [EmitCFProofs.pvals] in P2.
      destruct (plookup V pe' (tr cin)) as [[cv'|? ?]|] eqn:Pc; try discriminate.
      destruct (pvals pe' (map tr fins)) as [st'|] eqn:Pf; [|discriminate]. inversion P2; subst vs. clear P2.
      exists cv', st', pe'. split; [reflexivity|]. split.
      { rewrite (pvals_length V pe' _ _ Pf), (pvals_length V pe _ _ Hp). reflexivity. }
      split; [rewrite X; rewrite X2; reflexivity|]. split; [|split; [exact Pc|exact Pf]].
      intros x Hx. destruct (HI x Hx) as (v & Lx & Px). exists v. split; [exact Lx|].
      rewrite F2.
      - assert (HxDb : In x (fins ++ D)%list) by (apply in_or_app; right; exact Hx).
        destruct (Ib x (Hincl x HxDb)) as (w & Lw & Pw). rewrite Pw. rewrite (Fb x HxDb), (F0 x Hx), Lx in Lw. inversion Lw; reflexivity.
      - intros C. destruct C as [C|C].
        + destruct (HD x Hx) as [A1 A2]. destruct Hcin as (B1 & B2 & B3).
          assert (cin = x) by (apply tr_inj; assumption). subst x. contradiction.
        + exact (not_in_tr D fins x HD Hx Hfins C).
    Qed.

    Lemma while_corr : forall k i cv st (pe : penv),
      Inv D e pe -> plookup V pe (tr cin) = Some (PT V cv) -> pvals pe (map tr fins) = Some st ->
      match gwhile k i cv st with
      | None => while_iter (S fp') (tr cin) inner k pe = None
      | Some stf => exists pe', while_iter (S fp') (tr cin) inner k pe = Some (ONormal V pe') /\
                                Inv D e pe' /\ pvals pe' (map tr fins) = Some stf
      end.
    Proof.
      induction k as [|k IH]; intros i cv st pe HI Pc Pf; unfold gwhile.
      - rewrite while_iter_O, Pc. cbn [ptruth]. destruct (truth cv) as [[|]|]; cbn [Sem.loop_iter negb]; try reflexivity.
        exists pe. split; [reflexivity|]. split; assumption.
      - rewrite while_iter_S, Pc. cbn [ptruth]. destruct (truth cv) as [[|]|]; cbn [Sem.loop_iter negb]; try reflexivity.
        2:{ exists pe. split; [reflexivity|]. split; assumption. }
        pose proof (body_step pe st (of_nat i) (of_bool true) HI Pf) as B.
        destruct (eval_body evg' e body (of_nat i :: of_bool true :: st)) as [r|]; [|rewrite B; reflexivity].
        destruct B as (cv' & st' & pe' & -> & Hl & X & I' & Pc' & Pf'). rewrite X. rewrite Hl, Nat.eqb_refl.
        specialize (IH (S i) cv' st' pe' I' Pc' Pf'). unfold gwhile in IH. exact IH.
    Qed.
  End While.

  (* ---- Loop, `for` form ------------------------------------------------------------------------------------ *)
  Lemma lookups_cons_other : forall (e : env V) x v xs, ~ In x xs -> lookups ((x, v) :: e) xs = lookups e xs.
  Proof.
    induction xs as [|y t IH]; intros H; [reflexivity|]. cbn [lookups lookup].
    destruct (String.eqb y x) eqn:E; [apply String.eqb_eq in E; subst; exfalso; apply H; left; reflexivity|].
    rewrite IH by (intros C; apply H; right; exact C). reflexivity.
  Qed.

  Lemma defs_in_names : forall ns x, In x (defs_nodes ns) -> In x (names_nodes ns).
  Proof.
    induction ns as [|n t IH]; intros x H; [contradiction|]. unfold defs_nodes in H. cbn [flat_map] in H.
    apply in_app_or in H. cbn [names_nodes]. apply in_or_app. destruct H as [H|H]; [left|right; apply IH; exact H].
    destruct n as [d o i ou a su]. cbn [n_outs] in H. cbn [names_node]. apply in_or_app. right. apply in_or_app. left. exact H.
  Qed.

  Section For.
    Variables (D Db : list vname) (e : env V) (iv cin cout : vname) (fins fouts : list vname) (nsb tailn : list node) (sb : list stmt).
    Hypothesis HD : scoped D.
    Hypothesis Hcorr : corr evg' fp' (fins ++ iv :: D)%list Db nsb sb.
    Hypothesis Hnd : nodupb (iv :: cin :: fins) = true.
    Hypothesis Hiv : iv <> "" /\ In iv NN /\ ~ In iv D.
    Hypothesis Hcin : ~ In cin D.
    Hypothesis Hfins : forall o, In o fins -> o <> "" /\ In o NN /\ ~ In o D.
    Hypothesis Houts : forall o, In o fouts -> In o Db.
    Hypothesis Hlen : List.length fouts = List.length fins.
    Hypothesis Hndt : nodupb (map tr fins) = true.
    Hypothesis Hseq : seqok (map tr fins) (map tr fouts).
    Hypothesis Hcin_nsb : ~ In cin (names_nodes nsb).
    Hypothesis Hcout_fouts : ~ In cout fouts.
    Hypothesis Htl : (tailn = [] /\ cout = cin) \/ tailn = [Node "" "Identity" [Some cin] [cout] [] []].

    Let body := Graph (iv :: cin :: fins) [] (nsb ++ tailn)%list (cout :: fouts).
    Let inner := (sb ++ assigns (map tr fins) (map tr fouts))%list.

    Lemma for_body_env : forall (pe : penv) st a b, Inv D e pe -> pvals pe (map tr fins) = Some st ->
      exists e0, Sem.bind (iv :: cin :: fins) (a :: b :: st) e = Some e0 /\ Inv (fins ++ iv :: D)%list e0 ((tr iv, PT V a) :: pe) /\
                 (forall x, In x D -> lookup e0 x = lookup e x) /\ lookup e0 cin = Some b.
    Proof.
      intros pe st a b HI Hp.
      assert (Hl : List.length fins = List.length st) by (rewrite (pvals_length V pe _ _ Hp), map_length; reflexivity).
      destruct (bind_some_length fins st e Hl) as [e1 E1].
      exists ((iv, a) :: (cin, b) :: e1). cbn [Sem.bind]. rewrite E1. cbn [option_map]. split; [reflexivity|].
      apply nodupb_cons in Hnd. destruct Hnd as [Hn1 Hn2]. apply nodupb_cons in Hn2. destruct Hn2 as [Hn2 Hn3].
      destruct Hiv as (Hiv1 & Hiv2 & Hiv3).
      assert (I1 : Inv (fins ++ D)%list e1 pe).
      { eapply inv_extend with (pe := pe); try eassumption. intros; reflexivity. }
      assert (Hcin_iv : cin <> iv) by (intros C; apply Hn1; left; exact C).
      split; [|split].
      - intros x Hx. apply in_app_or in Hx.
        assert (Hcase : x = iv \/ In x (fins ++ D)%list).
        { destruct Hx as [Hx|[Hx|Hx]]; [right; apply in_or_app; left; exact Hx | left; symmetry; exact Hx | right; apply in_or_app; right; exact Hx]. }
        destruct Hcase as [->|Hx'].
        + exists a. cbn [lookup plookup]. rewrite String.eqb_refl. rewrite String.eqb_refl. split; reflexivity.
        + destruct (I1 x Hx') as (v & L & P). exists v.
          assert (Hx_iv : x <> iv).
          { intros C. subst x. apply in_app_or in Hx'. destruct Hx' as [C|C]; [apply Hn1; right; exact C|contradiction]. }
          assert (Hx_cin : x <> cin).
          { intros C. subst x. apply in_app_or in Hx'. destruct Hx' as [C|C]; contradiction. }
          assert (HxN : x <> "" /\ In x NN).
          { apply in_app_or in Hx'. destruct Hx' as [C|C]; [destruct (Hfins x C) as (A & B & _); split; assumption|destruct (HD x C); split; assumption]. }
          split.
          * cbn [lookup]. apply String.eqb_neq in Hx_iv. apply String.eqb_neq in Hx_cin. rewrite Hx_iv, Hx_cin. exact L.
          * cbn [plookup]. destruct (String.eqb (tr x) (tr iv)) eqn:E; [|exact P].
            apply String.eqb_eq in E. exfalso. apply Hx_iv. apply tr_inj; tauto.
      - intros x Hx. cbn [lookup].
        destruct (String.eqb x iv) eqn:E1'; [apply String.eqb_eq in E1'; subst; contradiction|].
        destruct (String.eqb x cin) eqn:E2'; [apply String.eqb_eq in E2'; subst; contradiction|].
        apply (bind_lookup_other V fins st e e1 x E1). intros C. destruct (Hfins x C) as (_ & _ & H3). contradiction.
      - cbn [lookup]. apply String.eqb_neq in Hcin_iv. rewrite Hcin_iv, String.eqb_refl. reflexivity.
    Qed.

    Lemma for_body_step : forall (pe : penv) st i, Inv D e pe -> pvals pe (map tr fins) = Some st ->
      match eval_body evg' e body (of_nat i :: of_bool true :: st) with
      | None => exec_block (S fp') inner ((tr iv, PT V (of_nat i)) :: pe) = None
      | Some r => exists st' pe', r = of_bool true :: st' /\ List.length st' = List.length st /\
                    exec_block (S fp') inner ((tr iv, PT V (of_nat i)) :: pe) = Some (ONormal V pe') /\
                    Inv D e pe' /\ pvals pe' (map tr fins) = Some st'
      end.
    Proof.
      intros pe st i HI Hp.
      destruct (for_body_env pe st (of_nat i) (of_bool true) HI Hp) as (e0 & E0 & I0 & F0 & C0).
      unfold Sem.eval_body, body. cbn [g_ins g_nodes g_outs]. rewrite E0.
      destruct Hcorr as (Hsc & Hincl & Hrun).
      assert (HD' : scoped (fins ++ iv :: D)%list).
      { apply scoped_app; [|intros o Ho; destruct (Hfins o Ho) as (A & B & _); split; assumption].
        intros x [ <- | Hx ]; [destruct Hiv as (A & B & _); split; assumption|apply HD; exact Hx]. }
      specialize (Hrun e0 _ (assigns (map tr fins) (map tr fouts)) I0 HD'). fold inner in Hrun.
      rewrite (run_app V sem truth trip of_nat of_bool limit).
      destruct (run evg' e0 nsb) as [eb|] eqn:Er; [|exact Hrun].
      destruct Hrun as (peb & X & Ib & Fb).
      destruct (inv_pvals Db eb peb fouts Ib Houts) as (vs & L1 & L2).
      (* the condition is still the one passed in *)
      assert (Lc : lookup eb cin = Some (of_bool true)).
      { destruct (run_shape V sem truth trip of_nat of_bool limit evg' nsb e0 eb Er) as (b & -> & Hb).
        rewrite lookup_app_other; [exact C0|]. intros C. apply Hcin_nsb. apply defs_in_names. apply Hb. exact C. }
      assert (Lall : match run evg' eb tailn with Some e2 => lookups e2 (cout :: fouts) | None => None end = Some (of_bool true :: vs)).
      { destruct Htl as [[Ht1 Ht2]|Ht1]; [rewrite Ht1, Ht2|rewrite Ht1].
        - cbn [Sem.run lookups]. rewrite Lc, L1. reflexivity.
        - cbn [Sem.run]. unfold Sem.eval_node. change (is_if "" "Identity") with false. change (is_loop "" "Identity") with false. cbv iota.
          cbn [lookup_opts]. rewrite Lc. cbn [option_map]. rewrite sem_identity. cbn [Sem.bind option_map lookups lookup].
          rewrite String.eqb_refl. rewrite lookups_cons_other by exact Hcout_fouts. rewrite L1. reflexivity. }
      rewrite Lall.
      destruct (assigns_exec V sem truth trip of_nat limit globals (map tr fins) (map tr fouts) vs fp' [] peb L2) as (pe' & X2 & P2 & F2).
      { rewrite !map_length. symmetry. exact Hlen. }
      { exact Hndt. }
      { exact Hseq. }
      rewrite app_nil_r in X2.
      exists vs, pe'. split; [reflexivity|]. split.
      { rewrite (pvals_length V peb _ _ L2), (pvals_length V pe _ _ Hp), !map_length. exact Hlen. }
      split; [rewrite X; rewrite X2; reflexivity|]. split; [|exact P2].
      intros x Hx. destruct (HI x Hx) as (v & Lx & Px). exists v. split; [exact Lx|].
      rewrite F2 by exact (not_in_tr D fins x HD Hx Hfins).
      assert (HxDb : In x (fins ++ iv :: D)%list) by (apply in_or_app; right; right; exact Hx).
      destruct (Ib x (Hincl x HxDb)) as (w & Lw & Pw). rewrite Pw. rewrite (Fb x HxDb), (F0 x Hx), Lx in Lw. inversion Lw; reflexivity.
    Qed.

    Lemma for_corr : forall k i st (pe : penv),
      Inv D e pe -> pvals pe (map tr fins) = Some st ->
      match loop_iter (eval_body evg') e body true k i true st with
      | None => for_iter (S fp') (tr iv) inner k i pe = None
      | Some stf => exists pe', for_iter (S fp') (tr iv) inner k i pe = Some (ONormal V pe') /\
                                Inv D e pe' /\ pvals pe' (map tr fins) = Some stf
      end.
    Proof.
      induction k as [|k IH]; intros i st pe HI Pf.
      - cbn [Sem.loop_iter negb]. exists pe. split; [reflexivity|]. split; assumption.
      - cbn [Sem.loop_iter negb]. rewrite for_iter_S.
        pose proof (for_body_step pe st i HI Pf) as B.
        destruct (eval_body evg' e body (of_nat i :: of_bool true :: st)) as [r|]; [|rewrite B; reflexivity].
        destruct B as (st' & pe' & -> & Hl & X & I' & Pf'). rewrite X. rewrite Hl, Nat.eqb_refl. rewrite truth_of_bool.
        exact (IH (S i) st' pe' I' Pf').
    Qed.
  End For.

  Lemma present_all : forall (l : list (option vname)), List.length (present l) = List.length l ->
    l = map Some (present l) /\ map tvo l = map tr (present l).
  Proof.
    induction l as [|[x|] t IH]; intros H; cbn [present map List.length] in *.
    - split; reflexivity.
    - destruct IH as [I1 I2]; [injection H as H; exact H|]. split; [rewrite <- I1; reflexivity|rewrite I2; reflexivity].
    - exfalso. assert (List.length (present t) <= List.length t).
      { clear. induction t as [|[y|] u IHu]; cbn [present List.length]; lia. }
      lia.
  Qed.

  Lemma lookups_map_some : forall (e : env V) xs, lookup_opts e (map Some xs) = option_map (map Some) (lookups e xs).
  Proof.
    induction xs as [|x t IH]; [reflexivity|]. cbn [map lookup_opts lookups]. rewrite IH.
    destruct (lookup e x); [|reflexivity]. destruct (lookups e t); reflexivity.
  Qed.

  Lemma while_step : forall D dom ins outs attrs subs ss Dn,
    wf_while rename rm NN wsub D dom ins outs attrs subs = Some Dn ->
    emit_loop rename infun None rm [] esub ins outs attrs subs = Some ss ->
    node_corr D Dn (Node dom "Loop" ins outs attrs subs) ss /\ Dn = (outs ++ D)%list /\ (forall o, In o outs -> o <> "" /\ In o NN).
  Proof.
    intros D dom ins outs attrs subs ss Dn Hw He.
    unfold wf_while in Hw.
    destruct ins as [|[?|] [|[c|] actual]]; try discriminate. destruct attrs; [|discriminate].
    destruct subs as [|[bn [[|iv [|cin fins]] [|? ?] nsb [|cout fouts]]] [|? ?]]; try discriminate.
    match type of Hw with (if ?b then _ else _) = _ => destruct b eqn:Hc; [|discriminate] end.
    destruct (wsub (fins ++ D)%list nsb) as [Db|] eqn:Ew; [|discriminate].
    destruct (forallb (fun o => memb o Db) (cout :: fouts)) eqn:Hob; [|discriminate].
    inversion Hw; subst Dn. clear Hw.
    apply andb_true_iff in Hc; destruct Hc as [Hc Q22].
    apply andb_true_iff in Hc; destruct Hc as [Hc Q21].
    apply andb_true_iff in Hc; destruct Hc as [Hc Q20].
    apply andb_true_iff in Hc; destruct Hc as [Hc Q19].
    apply andb_true_iff in Hc; destruct Hc as [Hc Q18].
    apply andb_true_iff in Hc; destruct Hc as [Hc Q17].
    apply andb_true_iff in Hc; destruct Hc as [Hc Q16].
    apply andb_true_iff in Hc; destruct Hc as [Hc Q15].
    apply andb_true_iff in Hc; destruct Hc as [Hc Q14].
    apply andb_true_iff in Hc; destruct Hc as [Hc Q13].
    apply andb_true_iff in Hc; destruct Hc as [Hc Q12].
    apply andb_true_iff in Hc; destruct Hc as [Hc Q11].
    apply andb_true_iff in Hc; destruct Hc as [Hc Q10].
    apply andb_true_iff in Hc; destruct Hc as [Hc Q9].
    apply andb_true_iff in Hc; destruct Hc as [Hc Q8].
    apply andb_true_iff in Hc; destruct Hc as [Hc Q7].
    apply andb_true_iff in Hc; destruct Hc as [Hc Q6].
    apply andb_true_iff in Hc; destruct Hc as [Hc Q5].
    apply andb_true_iff in Hc; destruct Hc as [Hc Q4].
    apply andb_true_iff in Hc; destruct Hc as [Hc Q3].
    apply andb_true_iff in Hc; destruct Hc as [Hc Q2].
    apply String.eqb_eq in Hc. subst dom. apply String.eqb_eq in Q2. subst bn.
    apply Nat.eqb_eq in Q4, Q6, Q7, Q8. apply memb_In in Q19.
    pose proof (freshb_all D outs Q13) as Houts. pose proof (freshb_all D fins Q12) as Hfins. pose proof (freshb_spec D cin Q11) as Hcin.
    assert (Hiv : ~ In iv D) by (apply memb_false_In; apply negb_true_iff; exact Q10).
    split; [|split; [reflexivity|intros o Ho; destruct (Houts o Ho) as (A1 & A2 & _); split; assumption]].
    destruct (present_all actual Q4) as [Eact Etvo].
    set (acts := present actual) in *.
    assert (Hne_fins : forallb nonempty fins = true) by (eapply freshb_nonempty; exact Q12).
    assert (Hne_outs : forallb nonempty outs = true) by (eapply freshb_nonempty; exact Q13).
    rewrite (map_tv_tr fins Hne_fins) in *. rewrite (map_tv_tr outs Hne_outs) in *. rewrite (map_tv_tr fouts Q15) in *.
    rewrite (tv_tr cout Q16) in *. rewrite Etvo in *.
    (* the emitted statements *)
    unfold emit_loop in He. cbn [assigns_n assigns_o src_o src_n] in He.
    destruct (loop_form_of (None :: Some c :: actual) (Graph (iv :: cin :: fins) [] nsb (cout :: fouts))) as [[| | |]|] eqn:Ef; try discriminate Q3.
    cbn [g_ins g_outs] in He. unfold esub in He. cbn [g_inits g_nodes is_nil] in He.
    destruct (elist nsb) as [sb|] eqn:Eel; [|discriminate].
    change (has_in (None :: Some c :: actual) 1) with true in He. cbv iota in He.
    change (nth 1 (None :: Some c :: actual) None) with (Some c) in He.
    change (skipn 2 (None :: Some c :: actual)) with actual in He.
    replace (List.length (None :: Some c :: actual) - 2) with (List.length actual) in He by (cbn [List.length]; lia).
    rewrite <- Q7 in He at 1. rewrite firstn_all in He. rewrite <- Q8 in He. rewrite firstn_all in He.
    rewrite (map_tv_tr fins Hne_fins), (map_tv_tr outs Hne_outs), (map_tv_tr fouts Q15), (tv_tr cout Q16), Etvo in He.
    inversion He; subst ss. clear He.
    pose proof (Hsub (fins ++ D)%list nsb sb Db Eel Ew) as Hcorr.
    intros e pe rest HI HD.
    (* graph side *)
    unfold Sem.eval_node. change (is_if "" "Loop") with false. change (is_loop "" "Loop") with true. cbv iota.
    change (find_sub "body" [("body", Graph (iv :: cin :: fins) [] nsb (cout :: fouts))]) with (Some (Graph (iv :: cin :: fins) [] nsb (cout :: fouts))).
    cbv iota. cbn [lookup_opts].
    rewrite forallb_forall in Q5.
    destruct (inv_pvals D e pe (c :: acts) HI) as (vs0 & L0 & P0).
    { intros o [<-|Ho]; [exact Q19|]. apply memb_In. apply Q5. exact Ho. }
    cbn [lookups] in L0. destruct (lookup e c) as [cv|] eqn:Lc; [|discriminate].
    destruct (lookups e acts) as [st0|] eqn:Ls; [|discriminate]. inversion L0; subst vs0. clear L0.
    cbn [option_map]. fold acts.
    (* Python: the assignments before the loop *)
    rewrite Ls. cbn [app]. rewrite <- !app_assoc. cbn [app map] in *.
    set (R := (SWhile (tr cin) (sb ++ SAssign (tr cin) (EVar (tr cout)) :: assigns (map tr fins) (map tr fouts)) :: assigns (map tr outs) (map tr fins) ++ rest)%list).
    change (SAssign (tr cin) (EVar (tr c)) :: assigns (map tr fins) (map tr acts) ++ R)%list
      with (assigns (tr cin :: map tr fins) (tr c :: map tr acts) ++ R)%list.
    destruct (assigns_exec V sem truth trip of_nat limit globals (tr cin :: map tr fins) (tr c :: map tr acts) (cv :: st0) (S fp') R pe P0)
      as (pe1 & X1 & P1 & F1).
    { cbn [List.length]. rewrite !map_length. rewrite Q4, Q6. reflexivity. }
    { exact Q20. }
    { apply seqokb_sound. exact Q21. }
    rewrite X1. clear X1. unfold R. clear R.
    cbn [EmitCFProofs.pvals] in P1. destruct (plookup V pe1 (tr cin)) as [[cv1|? ?]|] eqn:Pc1; try discriminate.
    destruct (pvals pe1 (map tr fins)) as [st1|] eqn:Pf1; [|discriminate]. inversion P1; subst cv1 st1. clear P1.
    assert (I1 : Inv D e pe1).
    { intros x Hx. destruct (HI x Hx) as (v & Lx & Px). exists v. split; [exact Lx|]. rewrite F1; [exact Px|].
      intros [C|C].
      - destruct (HD x Hx) as [A1 A2]. destruct Hcin as (B1 & B2 & B3). assert (cin = x) by (apply tr_inj; assumption). subst x. contradiction.
      - exact (not_in_tr D fins x HD Hx Hfins C). }
    rewrite (exec_block_while V sem truth trip of_nat limit globals).
    change (sb ++ SAssign (tr cin) (EVar (tr cout)) :: assigns (map tr fins) (map tr fouts))%list
      with (sb ++ assigns (tr cin :: map tr fins) (tr cout :: map tr fouts))%list.
    assert (Hob' : forall o, In o (cout :: fouts) -> In o Db) by (intros o Ho; apply memb_In; rewrite forallb_forall in Hob; apply Hob; exact Ho).
    pose proof (while_corr D Db e iv cin cout fins fouts nsb sb HD Hcorr Q9 Hiv Hcin Hfins Hob' (eq_trans Q7 (eq_sym Q6)) Q20
                  (seqokb_sound _ _ Q22) limit 0 cv st0 pe1 I1 Pc1 Pf1) as W.
    unfold gwhile in W.
    destruct (truth cv) as [c0|]; [|rewrite W; reflexivity].
    destruct (loop_iter (eval_body evg') e (Graph (iv :: cin :: fins) [] nsb (cout :: fouts)) false limit 0 c0 st0) as [stf|]; [|rewrite W; reflexivity].
    destruct W as (pe2 & X2 & I2 & P2). rewrite X2. cbn [oseq].
    (* the assignments after the loop *)
    assert (Hlf : List.length outs = List.length stf).
    { rewrite (pvals_length V pe2 _ _ P2), map_length. rewrite Q8, Q6. reflexivity. }
    destruct (bind_some_length outs stf e Hlf) as [e' Eb]. rewrite Eb.
    destruct (assigns_exec V sem truth trip of_nat limit globals (map tr outs) (map tr fins) stf (S fp') rest pe2 P2) as (pe3 & X3 & P3 & F3).
    { rewrite !map_length. rewrite Q8, Q6. reflexivity. }
    { exact Q17. }
    { apply seqokb_sound. exact Q18. }
    exists pe3. split; [exact X3|]. split.
    - eapply inv_extend with (pe := pe2); try eassumption.
    - intros x Hx. apply (bind_lookup_other V outs stf e e' x Eb). intros C. destruct (Houts x C) as (_ & _ & H3). contradiction.
  Qed.

  Lemma split_tail_spec : forall cin cout nodes nsb, split_tail cin cout nodes = Some nsb ->
    (nodes = nsb /\ cout = cin) \/ nodes = (nsb ++ [Node "" "Identity" [Some cin] [cout] [] []])%list.
  Proof.
    intros cin cout nodes nsb H. unfold split_tail in H. destruct (String.eqb cout cin) eqn:E.
    - left. apply String.eqb_eq in E. inversion H. split; [reflexivity|exact E].
    - right. destruct (rev nodes) as [|[d o [|[i|] [|? ?]] [|u [|? ?]] [|? ?] [|? ?]] r] eqn:Er; try discriminate.
      destruct (String.eqb d "" && String.eqb o "Identity" && String.eqb i cin && String.eqb u cout) eqn:C; [|discriminate].
      inversion H; subst nsb. clear H.
      apply andb_true_iff in C. destruct C as [C C4]. apply andb_true_iff in C. destruct C as [C C3]. apply andb_true_iff in C. destruct C as [C1 C2].
      apply String.eqb_eq in C1, C2, C3, C4. subst d o i u.
      rewrite <- (rev_involutive nodes), Er. reflexivity.
  Qed.

  Lemma for_step : forall D dom ins outs attrs subs ss Dn,
    wf_for rename rm NN wsub D dom ins outs attrs subs = Some Dn ->
    emit_loop rename infun None rm [] esub ins outs attrs subs = Some ss ->
    node_corr D Dn (Node dom "Loop" ins outs attrs subs) ss /\ Dn = (outs ++ D)%list /\ (forall o, In o outs -> o <> "" /\ In o NN).
  Proof.
    intros D dom ins outs attrs subs ss Dn Hw He.
    unfold wf_for in Hw.
    destruct ins as [|[m|] [|[?|] actual]]; try discriminate. destruct attrs; [|discriminate].
    destruct subs as [|[bn [[|iv [|cin fins]] [|? ?] nodes [|cout fouts]]] [|? ?]]; try discriminate.
    destruct (split_tail cin cout nodes) as [nsb|] eqn:Est; [|discriminate].
    match type of Hw with (if ?b then _ else _) = _ => destruct b eqn:Hc; [|discriminate] end.
    destruct (wsub (fins ++ iv :: D)%list nsb) as [Db|] eqn:Ew; [|discriminate].
    match type of Hw with (if ?b then _ else _) = _ => destruct b eqn:Hob; [|discriminate] end.
    inversion Hw; subst Dn. clear Hw.
    apply andb_true_iff in Hob. destruct Hob as [Hob Hcd].
    apply andb_true_iff in Hc; destruct Hc as [Hc Q25].
    apply andb_true_iff in Hc; destruct Hc as [Hc Q24].
    apply andb_true_iff in Hc; destruct Hc as [Hc Q23].
    apply andb_true_iff in Hc; destruct Hc as [Hc Q22].
    apply andb_true_iff in Hc; destruct Hc as [Hc Q21].
    apply andb_true_iff in Hc; destruct Hc as [Hc Q20].
    apply andb_true_iff in Hc; destruct Hc as [Hc Q19].
    apply andb_true_iff in Hc; destruct Hc as [Hc Q18].
    apply andb_true_iff in Hc; destruct Hc as [Hc Q17].
    apply andb_true_iff in Hc; destruct Hc as [Hc Q16].
    apply andb_true_iff in Hc; destruct Hc as [Hc Q15].
    apply andb_true_iff in Hc; destruct Hc as [Hc Q14].
    apply andb_true_iff in Hc; destruct Hc as [Hc Q13].
    apply andb_true_iff in Hc; destruct Hc as [Hc Q12].
    apply andb_true_iff in Hc; destruct Hc as [Hc Q11].
    apply andb_true_iff in Hc; destruct Hc as [Hc Q10].
    apply andb_true_iff in Hc; destruct Hc as [Hc Q9].
    apply andb_true_iff in Hc; destruct Hc as [Hc Q8].
    apply andb_true_iff in Hc; destruct Hc as [Hc Q7].
    apply andb_true_iff in Hc; destruct Hc as [Hc Q6].
    apply andb_true_iff in Hc; destruct Hc as [Hc Q5].
    apply andb_true_iff in Hc; destruct Hc as [Hc Q4].
    apply andb_true_iff in Hc; destruct Hc as [Hc Q3].
    apply andb_true_iff in Hc; destruct Hc as [Hc Q2].
    apply String.eqb_eq in Hc. subst dom. apply String.eqb_eq in Q2. subst bn.
    apply Nat.eqb_eq in Q4, Q6, Q7, Q8. apply memb_In in Q19. apply String.eqb_eq in Q23.
    pose proof (freshb_all D outs Q13) as Houts. pose proof (freshb_all D fins Q12) as Hfins. pose proof (freshb_spec D iv Q10) as Hiv.
    assert (Hcin : ~ In cin D) by (apply memb_false_In; apply negb_true_iff; exact Q11).
    assert (Hcin_nsb : ~ In cin (names_nodes nsb)) by (apply memb_false_In; apply negb_true_iff; exact Q24).
    assert (Hcout_fouts : ~ In cout fouts) by (apply memb_false_In; apply negb_true_iff; exact Q25).
    split; [|split; [reflexivity|intros o Ho; destruct (Houts o Ho) as (A1 & A2 & _); split; assumption]].
    destruct (present_all actual Q4) as [Eact Etvo].
    set (acts := present actual) in *.
    assert (Hne_fins : forallb nonempty fins = true) by (eapply freshb_nonempty; exact Q12).
    assert (Hne_outs : forallb nonempty outs = true) by (eapply freshb_nonempty; exact Q13).
    rewrite (map_tv_tr fins Hne_fins) in *. rewrite (map_tv_tr outs Hne_outs) in *. rewrite (map_tv_tr fouts Q15) in *.
    rewrite Etvo in *.
    (* the emitted statements *)
    unfold emit_loop in He. cbn [assigns_n assigns_o src_o src_n] in He.
    destruct (loop_form_of (Some m :: None :: actual) (Graph (iv :: cin :: fins) [] nodes (cout :: fouts))) as [[| | |]|] eqn:Ef; try discriminate Q3.
    cbn [g_ins g_outs] in He. unfold esub in He. cbn [g_inits g_nodes is_nil] in He.
    destruct (elist nodes) as [sb|] eqn:Eel; [|discriminate].
    destruct infun; [|discriminate].
    change (has_in (Some m :: None :: actual) 1) with false in He. cbv iota in He.
    change (skipn 2 (Some m :: None :: actual)) with actual in He.
    replace (List.length (Some m :: None :: actual) - 2) with (List.length actual) in He by (cbn [List.length]; lia).
    rewrite <- Q7 in He at 1. rewrite firstn_all in He. rewrite <- Q8 in He. rewrite firstn_all in He.
    rewrite (map_tv_tr fins Hne_fins), (map_tv_tr outs Hne_outs), (map_tv_tr fouts Q15), Etvo in He.
    cbn [app tvo] in He. inversion He; subst ss. clear He.
    (* the body's nodes and the pass-through *)
    assert (Hel : elist nsb = Some sb /\ exists tailn, nodes = (nsb ++ tailn)%list /\
                  ((tailn = [] /\ cout = cin) \/ tailn = [Node "" "Identity" [Some cin] [cout] [] []])).
    { destruct (split_tail_spec cin cout nodes nsb Est) as [[E1 E2]|E1].
      - subst nodes. split; [exact Eel|]. exists []. split; [rewrite app_nil_r; reflexivity|left; split; [reflexivity|exact E2]].
      - subst nodes. split.
        + apply (Htail nsb cin cout sb Eel Q23). apply nonempty_true. exact Q16.
        + eexists. split; [reflexivity|right; reflexivity]. }
    destruct Hel as (Eel' & tailn & Enodes & Htl). subst nodes.
    pose proof (Hsub (fins ++ iv :: D)%list nsb sb Db Eel' Ew) as Hcorr.
    intros e pe rest HI HD.
    (* graph side *)
    unfold Sem.eval_node. change (is_if "" "Loop") with false. change (is_loop "" "Loop") with true. cbv iota.
    change (find_sub "body" [("body", Graph (iv :: cin :: fins) [] (nsb ++ tailn)%list (cout :: fouts))])
      with (Some (Graph (iv :: cin :: fins) [] (nsb ++ tailn)%list (cout :: fouts))).
    cbv iota. cbn [lookup_opts].
    rewrite forallb_forall in Q5.
    destruct (inv_pvals D e pe (m :: acts) HI) as (vs0 & L0 & P0).
    { intros o [ <- | Ho ]; [exact Q19|]. apply memb_In. apply Q5. exact Ho. }
    cbn [lookups] in L0. destruct (lookup e m) as [mv|] eqn:Lm; [|discriminate].
    destruct (lookups e acts) as [st0|] eqn:Ls; [|discriminate]. inversion L0; subst vs0. clear L0.
    cbn [option_map]. fold acts. rewrite Ls.
    cbn [map EmitCFProofs.pvals] in P0. destruct (plookup V pe (tr m)) as [[mv'|? ?]|] eqn:Pm; try discriminate.
    destruct (pvals pe (map tr acts)) as [st0'|] eqn:Pa; [|discriminate]. inversion P0; subst mv' st0'. clear P0.
    (* Python: the assignments before the loop *)
    rewrite <- !app_assoc.
    destruct (assigns_exec V sem truth trip of_nat limit globals (map tr fins) (map tr acts) st0 (S fp')
                ((SFor (tr iv) (EVar (tr m)) (sb ++ assigns (map tr fins) (map tr fouts)) :: assigns (map tr outs) (map tr fins)) ++ rest)%list pe Pa)
      as (pe1 & X1 & P1 & F1).
    { rewrite !map_length. rewrite Q4, Q6. reflexivity. }
    { exact Q20. }
    { apply seqokb_sound. exact Q21. }
    cbn [app] in X1. cbn [app]. rewrite X1. clear X1.
    assert (I1 : Inv D e pe1).
    { intros x Hx. destruct (HI x Hx) as (v & Lx & Px). exists v. split; [exact Lx|]. rewrite F1; [exact Px|].
      exact (not_in_tr D fins x HD Hx Hfins). }
    rewrite (exec_block_for V sem truth trip of_nat limit globals).
    assert (Pm1 : plookup V pe1 (tr m) = Some (PT V mv)).
    { rewrite F1; [exact Pm|]. exact (not_in_tr D fins m HD Q19 Hfins). }
    rewrite (eval_var_bound V sem globals pe1 (tr m) _ Pm1). cbn [ptrip].
    destruct (trip mv) as [k|]; [|reflexivity]. cbn [option_map].
    assert (Hob' : forall o, In o fouts -> In o Db) by (intros o Ho; apply memb_In; rewrite forallb_forall in Hob; apply Hob; exact Ho).
    pose proof (for_corr D Db e iv cin cout fins fouts nsb tailn sb HD Hcorr Q9 Hiv Hcin Hfins Hob' (eq_trans Q7 (eq_sym Q6)) Q20
                  (seqokb_sound _ _ Q22) Hcin_nsb Hcout_fouts Htl k 0 st0 pe1 I1 P1) as W.
    destruct (loop_iter (eval_body evg') e (Graph (iv :: cin :: fins) [] (nsb ++ tailn)%list (cout :: fouts)) true k 0 true st0) as [stf|]; [|rewrite W; reflexivity].
    destruct W as (pe2 & X2 & I2 & P2). rewrite X2. cbn [oseq].
    assert (Hlf : List.length outs = List.length stf).
    { rewrite (pvals_length V pe2 _ _ P2), map_length. rewrite Q8, Q6. reflexivity. }
    destruct (bind_some_length outs stf e Hlf) as [e' Eb]. rewrite Eb.
    destruct (assigns_exec V sem truth trip of_nat limit globals (map tr outs) (map tr fins) stf (S fp') rest pe2 P2) as (pe3 & X3 & P3 & F3).
    { rewrite !map_length. rewrite Q8, Q6. reflexivity. }
    { exact Q17. }
    { apply seqokb_sound. exact Q18. }
    exists pe3. split; [exact X3|]. split.
    - eapply inv_extend with (pe := pe2); try eassumption.
    - intros x Hx. apply (bind_lookup_other V outs stf e e' x Eb). intros C. destruct (Houts x C) as (_ & _ & H3). contradiction.
  Qed.

  (* ---- Loop, `for` + `if not c: break` form --------------------------------------------------------------- *)
  Lemma exec_break : forall q (pe : penv), exec_block (S q) [SBreak] pe = Some (OBreak V pe).
  Proof. reflexivity. Qed.

  Lemma not_break_step : forall (pe : penv) x cv c rest, fp' <> 0 ->
    plookup V pe x = Some (PT V cv) -> truth cv = Some c ->
    exec_block (S fp') (SIf (EUn "Not" (EVar x)) [SBreak] [] :: rest) pe =
    if c then exec_block (S fp') rest pe else Some (OBreak V pe).
  Proof.
    intros pe x cv c rest Hf Px Hc. destruct fp' as [|q]; [contradiction Hf; reflexivity|].
    rewrite (exec_block_if V sem truth trip of_nat limit globals).
    assert (Ev : eval_expr pe (EUn "Not" (EVar x)) = option_map (PT V) (sem1 V sem "" "Not" [] [Some cv])).
    { cbn [PySem.eval_expr]. change (lookup_assoc "Not" primop_map) with (Some "Not"). rewrite Px. reflexivity. }
    rewrite Ev. destruct (sem_not cv c Hc) as (r & Sr & Tr). unfold sem1. rewrite Sr. cbn [option_map ptruth]. rewrite Tr.
    destruct c; cbn [negb].
    - rewrite exec_block_nil'. cbn [oseq]. reflexivity.
    - rewrite exec_break. cbn [oseq]. reflexivity.
  Qed.

  Section ForBreak.
    Variables (D Db : list vname) (e : env V) (iv cin cout : vname) (fins fouts : list vname) (nsb : list node) (sb : list stmt).
    Hypothesis HD : scoped D.
    Hypothesis Hcorr : corr evg' fp' (fins ++ iv :: D)%list Db nsb sb.
    Hypothesis Hnd : nodupb (iv :: cin :: fins) = true.
    Hypothesis Hiv : iv <> "" /\ In iv NN /\ ~ In iv D.
    Hypothesis Hcin : cin <> "" /\ In cin NN /\ ~ In cin D.
    Hypothesis Hfins : forall o, In o fins -> o <> "" /\ In o NN /\ ~ In o D.
    Hypothesis Houts : forall o, In o (cout :: fouts) -> In o Db.
    Hypothesis Hlen : List.length fouts = List.length fins.
    Hypothesis Hndt : nodupb (tr cin :: map tr fins) = true.
    Hypothesis Hseq : seqok (tr cin :: map tr fins) (tr cout :: map tr fouts).
    Hypothesis Hfp0 : fp' <> 0.
    Hypothesis Htot : forall v, exists b, truth v = Some b.

    Let body := Graph (iv :: cin :: fins) [] nsb (cout :: fouts).
    Let inner := (sb ++ assigns (tr cin :: map tr fins) (tr cout :: map tr fouts))%list.

    Lemma fb_iv_cin : tr cin <> tr iv.
    Proof.
      intros C. destruct Hcin as (A1 & A2 & _). destruct Hiv as (B1 & B2 & _).
      assert (cin = iv) by (apply tr_inj; assumption). subst cin.
      apply nodupb_cons in Hnd. destruct Hnd as [Hn1 _]. apply Hn1. left. reflexivity.
    Qed.

    Lemma fb_body_step : forall (pe : penv) st i, Inv D e pe -> pvals pe (map tr fins) = Some st ->
      match eval_body evg' e body (of_nat i :: of_bool true :: st) with
      | None => exec_block (S fp') inner ((tr iv, PT V (of_nat i)) :: pe) = None
      | Some r => exists cv' st' pe', r = cv' :: st' /\ List.length st' = List.length st /\
                    exec_block (S fp') inner ((tr iv, PT V (of_nat i)) :: pe) = Some (ONormal V pe') /\
                    Inv D e pe' /\ plookup V pe' (tr cin) = Some (PT V cv') /\ pvals pe' (map tr fins) = Some st'
      end.
    Proof.
      intros pe st i HI Hp.
      destruct (for_body_env D e iv cin cin fins [] HD Hnd Hiv (proj2 (proj2 Hcin)) Hfins (or_introl (conj eq_refl eq_refl)) pe st (of_nat i) (of_bool true) HI Hp) as (e0 & E0 & I0 & F0 & C0).
      unfold Sem.eval_body, body. cbn [g_ins g_nodes g_outs]. rewrite E0.
      destruct Hcorr as (Hsc & Hincl & Hrun).
      assert (HD' : scoped (fins ++ iv :: D)%list).
      { apply scoped_app; [|intros o Ho; destruct (Hfins o Ho) as (A & B & _); split; assumption].
        intros x [ <- | Hx ]; [destruct Hiv as (A & B & _); split; assumption|apply HD; exact Hx]. }
      specialize (Hrun e0 _ (assigns (tr cin :: map tr fins) (tr cout :: map tr fouts)) I0 HD'). fold inner in Hrun.
      destruct (run evg' e0 nsb) as [eb|]; [|exact Hrun].
      destruct Hrun as (peb & X & Ib & Fb).
      destruct (inv_pvals Db eb peb (cout :: fouts) Ib Houts) as (vs & L1 & L2). rewrite L1. cbn [map] in L2.
      destruct (assigns_exec V sem truth trip of_nat limit globals (tr cin :: map tr fins) (tr cout :: map tr fouts) vs fp' [] peb L2)
        as (pe' & X2 & P2 & F2).
      { cbn [List.length]. rewrite !map_length. rewrite Hlen. reflexivity. }
      { exact Hndt. }
      { exact Hseq. }
      rewrite app_nil_r in X2. cbn [EmitCFProofs.pvals] in P2.
      destruct (plookup V pe' (tr cin)) as [[cv'|? ?]|] eqn:Pc; try discriminate.
      destruct (pvals pe' (map tr fins)) as [st'|] eqn:Pf; [|discriminate]. inversion P2; subst vs. clear P2.
      exists cv', st', pe'. split; [reflexivity|]. split.
      { rewrite (pvals_length V pe' _ _ Pf), (pvals_length V pe _ _ Hp). reflexivity. }
      split; [rewrite X; rewrite X2; reflexivity|]. split; [|split; [exact Pc|exact Pf]].
      intros x Hx. destruct (HI x Hx) as (v & Lx & Px). exists v. split; [exact Lx|].
      rewrite F2.
      - assert (HxDb : In x (fins ++ iv :: D)%list) by (apply in_or_app; right; right; exact Hx).
        destruct (Ib x (Hincl x HxDb)) as (w & Lw & Pw). rewrite Pw. rewrite (Fb x HxDb), (F0 x Hx), Lx in Lw. inversion Lw; reflexivity.
      - intros [C|C].
        + destruct (HD x Hx) as [A1 A2]. destruct Hcin as (B1 & B2 & B3). assert (cin = x) by (apply tr_inj; assumption). subst x. contradiction.
        + exact (not_in_tr D fins x HD Hx Hfins C).
    Qed.

    Lemma fb_env_iv : forall (pe : penv) a st cv, Inv D e pe -> pvals pe (map tr fins) = Some st -> plookup V pe (tr cin) = Some (PT V cv) ->
      Inv D e ((tr iv, PT V a) :: pe) /\ pvals ((tr iv, PT V a) :: pe) (map tr fins) = Some st /\
      plookup V ((tr iv, PT V a) :: pe) (tr cin) = Some (PT V cv).
    Proof.
      intros pe a st cv HI Hp Pc. destruct Hiv as (B1 & B2 & B3). split; [|split].
      - intros x Hx. destruct (HI x Hx) as (v & L & P). exists v. split; [exact L|]. cbn [plookup].
        destruct (String.eqb (tr x) (tr iv)) eqn:E; [|exact P]. apply String.eqb_eq in E. destruct (HD x Hx) as [A1 A2].
        assert (x = iv) by (apply tr_inj; assumption). subst x. contradiction.
      - rewrite <- Hp. apply pvals_ext. intros z Hz. cbn [plookup]. destruct (String.eqb z (tr iv)) eqn:E; [|reflexivity].
        apply String.eqb_eq in E. subst z. apply in_map_iff in Hz. destruct Hz as (f & Ef & Hf). destruct (Hfins f Hf) as (A1 & A2 & _).
        assert (f = iv) by (apply tr_inj; assumption). subst f. apply nodupb_cons in Hnd. destruct Hnd as [Hn1 _]. exfalso. apply Hn1. right. exact Hf.
      - cbn [plookup]. pose proof fb_iv_cin as Hne. apply String.eqb_neq in Hne. rewrite Hne. exact Pc.
    Qed.

    Lemma fb_corr : forall k i cv c st (pe : penv),
      truth cv = Some c -> Inv D e pe -> plookup V pe (tr cin) = Some (PT V cv) -> pvals pe (map tr fins) = Some st ->
      match loop_iter (eval_body evg') e body true k i c st with
      | None => for_iter (S fp') (tr iv) (SIf (EUn "Not" (EVar (tr cin))) [SBreak] [] :: inner) k i pe = None
      | Some stf => exists pe', for_iter (S fp') (tr iv) (SIf (EUn "Not" (EVar (tr cin))) [SBreak] [] :: inner) k i pe = Some (ONormal V pe') /\
                                Inv D e pe' /\ pvals pe' (map tr fins) = Some stf
      end.
    Proof.
      induction k as [|k IH]; intros i cv c st pe Hc HI Pc Pf.
      - destruct c; cbn [Sem.loop_iter negb]; exists pe; (split; [reflexivity|split; assumption]).
      - rewrite for_iter_S.
        destruct (fb_env_iv pe (of_nat i) st cv HI Pf Pc) as (Ii & Pfi & Pci).
        rewrite (not_break_step _ (tr cin) cv c inner Hfp0 Pci Hc).
        destruct c; cbn [Sem.loop_iter negb].
        + pose proof (fb_body_step pe st i HI Pf) as B.
          destruct (eval_body evg' e body (of_nat i :: of_bool true :: st)) as [r|]; [|rewrite B; reflexivity].
          destruct B as (cv' & st' & pe' & -> & Hl & X & I' & Pc' & Pf'). rewrite X. rewrite Hl, Nat.eqb_refl.
          destruct (Htot cv') as [c' Hc']. rewrite Hc'. exact (IH (S i) cv' c' st' pe' Hc' I' Pc' Pf').
        + eexists. split; [reflexivity|]. split; assumption.
    Qed.
  End ForBreak.

  Lemma forbreak_step : forall D dom ins outs attrs subs ss Dn, brk = true ->
    wf_forbreak rename rm NN wsub D dom ins outs attrs subs = Some Dn ->
    emit_loop rename infun None rm [] esub ins outs attrs subs = Some ss ->
    node_corr D Dn (Node dom "Loop" ins outs attrs subs) ss /\ Dn = (outs ++ D)%list /\ (forall o, In o outs -> o <> "" /\ In o NN).
  Proof.
    intros D dom ins outs attrs subs ss Dn Hbrk Hw He.
    unfold wf_forbreak in Hw.
    destruct ins as [|[m|] [|[c|] actual]]; try discriminate. destruct attrs; [|discriminate].
    destruct subs as [|[bn [[|iv [|cin fins]] [|? ?] nsb [|cout fouts]]] [|? ?]]; try discriminate.
    match type of Hw with (if ?b then _ else _) = _ => destruct b eqn:Hc; [|discriminate] end.
    destruct (wsub (fins ++ iv :: D)%list nsb) as [Db|] eqn:Ew; [|discriminate].
    destruct (forallb (fun o => memb o Db) (cout :: fouts)) eqn:Hob; [|discriminate].
    inversion Hw; subst Dn. clear Hw.
    apply andb_true_iff in Hc; destruct Hc as [Hc Q23].
    apply andb_true_iff in Hc; destruct Hc as [Hc Q22].
    apply andb_true_iff in Hc; destruct Hc as [Hc Q21].
    apply andb_true_iff in Hc; destruct Hc as [Hc Q20].
    apply andb_true_iff in Hc; destruct Hc as [Hc Q19].
    apply andb_true_iff in Hc; destruct Hc as [Hc Q18].
    apply andb_true_iff in Hc; destruct Hc as [Hc Q17].
    apply andb_true_iff in Hc; destruct Hc as [Hc Q16].
    apply andb_true_iff in Hc; destruct Hc as [Hc Q15].
    apply andb_true_iff in Hc; destruct Hc as [Hc Q14].
    apply andb_true_iff in Hc; destruct Hc as [Hc Q13].
    apply andb_true_iff in Hc; destruct Hc as [Hc Q12].
    apply andb_true_iff in Hc; destruct Hc as [Hc Q11].
    apply andb_true_iff in Hc; destruct Hc as [Hc Q10].
    apply andb_true_iff in Hc; destruct Hc as [Hc Q9].
    apply andb_true_iff in Hc; destruct Hc as [Hc Q8].
    apply andb_true_iff in Hc; destruct Hc as [Hc Q7].
    apply andb_true_iff in Hc; destruct Hc as [Hc Q6].
    apply andb_true_iff in Hc; destruct Hc as [Hc Q5].
    apply andb_true_iff in Hc; destruct Hc as [Hc Q4].
    apply andb_true_iff in Hc; destruct Hc as [Hc Q3].
    apply andb_true_iff in Hc; destruct Hc as [Hc Q2].
    apply String.eqb_eq in Hc. subst dom. apply String.eqb_eq in Q2. subst bn.
    apply Nat.eqb_eq in Q4, Q6, Q7, Q8. apply memb_In in Q19, Q20.
    pose proof (freshb_all D outs Q13) as Houts. pose proof (freshb_all D fins Q12) as Hfins.
    pose proof (freshb_spec D cin Q11) as Hcin. pose proof (freshb_spec D iv Q10) as Hiv.
    split; [|split; [reflexivity|intros o Ho; destruct (Houts o Ho) as (A1 & A2 & _); split; assumption]].
    destruct (present_all actual Q4) as [Eact Etvo].
    set (acts := present actual) in *.
    assert (Hne_fins : forallb nonempty fins = true) by (eapply freshb_nonempty; exact Q12).
    assert (Hne_outs : forallb nonempty outs = true) by (eapply freshb_nonempty; exact Q13).
    rewrite (map_tv_tr fins Hne_fins) in *. rewrite (map_tv_tr outs Hne_outs) in *. rewrite (map_tv_tr fouts Q15) in *.
    rewrite (tv_tr cout Q16) in *. rewrite Etvo in *.
    unfold emit_loop in He. cbn [assigns_n assigns_o src_o src_n] in He.
    destruct (loop_form_of (Some m :: Some c :: actual) (Graph (iv :: cin :: fins) [] nsb (cout :: fouts))) as [[| | |]|] eqn:Ef; try discriminate Q3.
    cbn [g_ins g_outs] in He. unfold esub in He. cbn [g_inits g_nodes is_nil] in He.
    destruct (elist nsb) as [sb|] eqn:Eel; [|discriminate].
    change (has_in (Some m :: Some c :: actual) 1) with true in He. cbv iota in He.
    change (nth 1 (Some m :: Some c :: actual) None) with (Some c) in He.
    change (skipn 2 (Some m :: Some c :: actual)) with actual in He.
    replace (List.length (Some m :: Some c :: actual) - 2) with (List.length actual) in He by (cbn [List.length]; lia).
    rewrite <- Q7 in He at 1. rewrite firstn_all in He. rewrite <- Q8 in He. rewrite firstn_all in He.
    rewrite (map_tv_tr fins Hne_fins), (map_tv_tr outs Hne_outs), (map_tv_tr fouts Q15), (tv_tr cout Q16), Etvo in He.
    cbn [tvo] in He. inversion He; subst ss. clear He.
    pose proof (Hsub (fins ++ iv :: D)%list nsb sb Db Eel Ew) as Hcorr.
    pose proof (Hfp nsb sb Eel) as Hfp0.
    pose proof (truth_total Hbrk) as Htot.
    intros e pe rest HI HD.
    unfold Sem.eval_node. change (is_if "" "Loop") with false. change (is_loop "" "Loop") with true. cbv iota.
    change (find_sub "body" [("body", Graph (iv :: cin :: fins) [] nsb (cout :: fouts))]) with (Some (Graph (iv :: cin :: fins) [] nsb (cout :: fouts))).
    cbv iota. cbn [lookup_opts].
    rewrite forallb_forall in Q5.
    destruct (inv_pvals D e pe (m :: c :: acts) HI) as (vs0 & L0 & P0).
    { intros o [ <- | [ <- | Ho ] ]; [exact Q19|exact Q20|]. apply memb_In. apply Q5. exact Ho. }
    cbn [lookups] in L0. destruct (lookup e m) as [mv|] eqn:Lm; [|discriminate]. destruct (lookup e c) as [cv|] eqn:Lc; [|discriminate].
    destruct (lookups e acts) as [st0|] eqn:Ls; [|discriminate]. inversion L0; subst vs0. clear L0.
    cbn [option_map]. fold acts. rewrite Ls.
    cbn [map EmitCFProofs.pvals] in P0. destruct (plookup V pe (tr m)) as [[mv'|? ?]|] eqn:Pm; try discriminate.
    destruct (plookup V pe (tr c)) as [[cv0|? ?]|] eqn:Pcc; try discriminate.
    destruct (pvals pe (map tr acts)) as [st0'|] eqn:Pa; [|discriminate]. inversion P0; subst mv' cv0 st0'. clear P0.
    cbn [app]. rewrite <- !app_assoc. cbn [app map] in *.
    set (LOOP := SFor (tr iv) (EVar (tr m)) (SIf (EUn "Not" (EVar (tr cin))) [SBreak] [] :: sb ++ SAssign (tr cin) (EVar (tr cout)) :: assigns (map tr fins) (map tr fouts))).
    set (R := (LOOP :: assigns (map tr outs) (map tr fins) ++ rest)%list).
    change (SAssign (tr cin) (EVar (tr c)) :: assigns (map tr fins) (map tr acts) ++ R)%list
      with (assigns (tr cin :: map tr fins) (tr c :: map tr acts) ++ R)%list.
    assert (P0 : pvals pe (tr c :: map tr acts) = Some (cv :: st0)) by (cbn [EmitCFProofs.pvals]; rewrite Pcc, Pa; reflexivity).
    destruct (assigns_exec V sem truth trip of_nat limit globals (tr cin :: map tr fins) (tr c :: map tr acts) (cv :: st0) (S fp') R pe P0)
      as (pe1 & X1 & P1 & F1).
    { cbn [List.length]. rewrite !map_length. rewrite Q4, Q6. reflexivity. }
    { exact Q21. }
    { apply seqokb_sound. exact Q22. }
    rewrite X1. clear X1. unfold R, LOOP. clear R LOOP.
    cbn [EmitCFProofs.pvals] in P1. destruct (plookup V pe1 (tr cin)) as [[cv1|? ?]|] eqn:Pc1; try discriminate.
    destruct (pvals pe1 (map tr fins)) as [st1|] eqn:Pf1; [|discriminate]. inversion P1; subst cv1 st1. clear P1.
    assert (Hout1 : forall x, In x D -> ~ In (tr x) (tr cin :: map tr fins)).
    { intros x Hx [C|C].
      - destruct (HD x Hx) as [A1 A2]. destruct Hcin as (B1 & B2 & B3). assert (cin = x) by (apply tr_inj; assumption). subst x. contradiction.
      - exact (not_in_tr D fins x HD Hx Hfins C). }
    assert (I1 : Inv D e pe1).
    { intros x Hx. destruct (HI x Hx) as (v & Lx & Px). exists v. split; [exact Lx|]. rewrite F1; [exact Px|]. apply Hout1. exact Hx. }
    rewrite (exec_block_for V sem truth trip of_nat limit globals).
    assert (Pm1 : plookup V pe1 (tr m) = Some (PT V mv)) by (rewrite F1; [exact Pm|apply Hout1; exact Q19]).
    rewrite (eval_var_bound V sem globals pe1 (tr m) _ Pm1). cbn [ptrip].
    destruct (trip mv) as [k|]; [|reflexivity]. cbn [option_map].
    destruct (Htot cv) as [c0 Hc0]. rewrite Hc0.
    change (sb ++ SAssign (tr cin) (EVar (tr cout)) :: assigns (map tr fins) (map tr fouts))%list
      with (sb ++ assigns (tr cin :: map tr fins) (tr cout :: map tr fouts))%list.
    assert (Hob' : forall o, In o (cout :: fouts) -> In o Db) by (intros o Ho; apply memb_In; rewrite forallb_forall in Hob; apply Hob; exact Ho).
    pose proof (fb_corr D Db e iv cin cout fins fouts nsb sb HD Hcorr Q9 Hiv Hcin Hfins Hob' (eq_trans Q7 (eq_sym Q6)) Q21
                  (seqokb_sound _ _ Q23) Hfp0 Htot k 0 cv c0 st0 pe1 Hc0 I1 Pc1 Pf1) as W.
    destruct (loop_iter (eval_body evg') e (Graph (iv :: cin :: fins) [] nsb (cout :: fouts)) true k 0 c0 st0) as [stf|]; [|rewrite W; reflexivity].
    destruct W as (pe2 & X2 & I2 & P2). rewrite X2. cbn [oseq].
    assert (Hlf : List.length outs = List.length stf).
    { rewrite (pvals_length V pe2 _ _ P2), map_length. rewrite Q8, Q6. reflexivity. }
    destruct (bind_some_length outs stf e Hlf) as [e' Eb]. rewrite Eb.
    destruct (assigns_exec V sem truth trip of_nat limit globals (map tr outs) (map tr fins) stf (S fp') rest pe2 P2) as (pe3 & X3 & P3 & F3).
    { rewrite !map_length. rewrite Q8, Q6. reflexivity. }
    { exact Q17. }
    { apply seqokb_sound. exact Q18. }
    exists pe3. split; [exact X3|]. split.
    - eapply inv_extend with (pe := pe2); try eassumption.
    - intros x Hx. apply (bind_lookup_other V outs stf e e' x Eb). intros C. destruct (Houts x C) as (_ & _ & H3). contradiction.
  Qed.

  (* ---- a plain node: Export/EmitProofs.v node_step, plus the frame ---------------------------------------- *)
  Lemma plain_step : forall u D n ss Dn,
    wf_plain kw rename rm NN u D n = Some Dn -> emit_node kw tr n = Some ss ->
    node_corr D Dn n ss /\ Dn = (filter nonempty (n_outs n) ++ D)%list /\ (forall o, In o (filter nonempty (n_outs n)) -> o <> "" /\ In o NN).
  Proof.
    intros u D n ss Dn Hw He. unfold wf_plain in Hw.
    match type of Hw with (if ?b then _ else _) = _ => destruct b eqn:Hc; [|discriminate] end.
    inversion Hw; subst Dn. clear Hw.
    apply andb_true_iff in Hc; destruct Hc as [Hc _].
    apply andb_true_iff in Hc; destruct Hc as [Hc Q5]. apply andb_true_iff in Hc; destruct Hc as [Hc Q4].
    apply andb_true_iff in Hc; destruct Hc as [Hc Q3]. apply andb_true_iff in Hc; destruct Hc as [Q1 Q2].
    pose proof (freshb_all D _ Q2) as Hfr.
    split; [|split; [reflexivity|intros o Ho; destruct (Hfr o Ho) as (A1 & A2 & _); split; assumption]].
    intros e pe rest HI HD.
    assert (Hins : forall x, In x (present (n_ins n)) -> In x D).
    { intros x Hx. apply memb_In. rewrite forallb_forall in Q1. apply Q1. exact Hx. }
    assert (Houts : forall o, In o (n_outs n) -> o <> "" -> ~ In o D /\ In o NN).
    { intros o Ho Hne. destruct (Hfr o) as (_ & A2 & A3); [apply in_filter_nonempty; split; assumption|]. split; assumption. }
    assert (Hph : ph_free tr NN 0 (n_outs n)).
    { intros p Hp x Hx _ C. unfold phb in Q4. rewrite forallb_forall in Q4. specialize (Q4 p Hp).
      apply negb_true_iff in Q4. apply memb_false_In in Q4. apply Q4. rewrite <- C. apply in_map. exact Hx. }
    pose proof (node_step V sem truth trip of_nat of_bool limit limit globals kw tr NN tr_inj (eval_body evg') none_free
                  n ss D e pe He HI HD Hins Houts Q3 Hph Q5 (S fp') rest) as St.
    destruct (eval_node (eval_body evg') e n) as [e'|] eqn:En; [|exact St].
    destruct St as (pe' & X & I'). exists pe'. split; [exact X|]. split; [exact I'|].
    intros x Hx. destruct (eval_node_shape V sem truth trip of_nat of_bool limit _ e n e' En) as (b & -> & Hb).
    apply lookup_app_other. rewrite Hb. intros C. destruct (HD x Hx) as [_ Hne]. destruct (Houts x C Hne) as [H1 _]. contradiction.
  Qed.

  (* use_operators: the line `o = a <sym> b` runs like the call line of the same node, whenever the operands are bound *)
  Lemma operator_step : forall u D dom op ins outs attrs sym p ss Dn,
    u = Some p ->
    wf_plain kw rename rm NN u D (Node dom op ins outs attrs []) = Some Dn ->
    lookup_assoc op use_operators_table = Some sym ->
    String.eqb op "If" = false -> String.eqb op "Loop" = false -> String.eqb op "Scan" = false ->
    emit_operator rename u rm [] sym ins outs = Some ss ->
    exists ss', emit_node kw tr (Node dom op ins outs attrs []) = Some ss' /\
      forall e (pe : penv) rest, Inv D e pe ->
        exec_block (S (S fp')) (ss ++ rest)%list pe = exec_block (S (S fp')) (ss' ++ rest)%list pe.
  Proof.
    intros u D dom op ins outs attrs sym p ss Dn Hu Hw Hop N1 N2 N3 He. subst u. unfold wf_plain in Hw.
    match type of Hw with (if ?b then _ else _) = _ => destruct b eqn:Hc; [|discriminate] end. clear Hw.
    apply andb_true_iff in Hc; destruct Hc as [Hc Q6]. apply andb_true_iff in Hc; destruct Hc as [Hc Q5].
    apply andb_true_iff in Hc; destruct Hc as [Hc _]. apply andb_true_iff in Hc; destruct Hc as [Hc _]. apply andb_true_iff in Hc; destruct Hc as [Q1 _].
    unfold op_line_okb in Q6. cbn [n_op n_dom n_attrs n_ins n_outs] in Q6, Q1, Q5. rewrite Hop in Q6.
    apply andb_true_iff in Q6; destruct Q6 as [Q6 R5]. apply andb_true_iff in Q6; destruct Q6 as [Q6 R4].
    apply andb_true_iff in Q6; destruct Q6 as [Q6 R3]. apply andb_true_iff in Q6; destruct Q6 as [R1 R2].
    apply String.eqb_eq in R1. subst dom. apply negb_true_iff in R2.
    destruct attrs as [|? ?]; [|discriminate R3].
    destruct ins as [|[a|] [|[b|] [|? ?]]]; try discriminate R4. destruct outs as [|o [|? ?]]; try discriminate R4.
    destruct (pyop sym) as [[cmp cls]|] eqn:Ep; [|discriminate R5].
    destruct (lookup_assoc cls primop_map) as [o'|] eqn:Epm; [|discriminate R5].
    apply andb_true_iff in R5; destruct R5 as [R5 R8]. apply andb_true_iff in R5; destruct R5 as [R6 R7].
    apply String.eqb_eq in R6. subst o'. apply negb_true_iff in R7. apply negb_true_iff in R8.
    unfold call_okb in Q5. apply andb_true_iff in Q5. destruct Q5 as [Q5 _]. apply String.eqb_eq in Q5.
    assert (Eo : is_empty o = false) by (apply negb_true_iff; exact R4).
    eexists. split.
    - unfold emit_node. unfold is_cf. rewrite N1, N2, N3. cbn [String.eqb orb negb is_nil existsb].
      unfold suppressed_identity. rewrite R2. cbn [andb out_names]. rewrite Eo, Q5. cbn [map in_expr option_map]. reflexivity.
    - intros e pe rest HI. unfold emit_operator in He. rewrite Ep in He. cbv beta iota in He.
      assert (Hr : forall x, ref_e rename rm [] (Some x) = EVar (tr x)) by (intros x; reflexivity).
      rewrite !Hr in He. cbn [neg_operand] in He. rewrite (tv_tr o R4) in He.
      assert (He' : ss = [SAssign (tr o) ((if cmp then ECmp else EBin) cls (EVar (tr a)) (EVar (tr b)))]).
      { match type of He with context [if ?c then _ else _] => destruct c end; inversion He; reflexivity. }
      subst ss. cbn [app]. rewrite !(exec_block_assign V sem truth trip of_nat limit globals).
      rewrite forallb_forall in Q1.
      destruct (HI a) as (va & _ & Pa); [apply memb_In; apply Q1; left; reflexivity|].
      destruct (HI b) as (vb & _ & Pb); [apply memb_In; apply Q1; right; left; reflexivity|].
      pose proof (eval_var_bound V sem globals pe (tr a) _ Pa) as Ea. pose proof (eval_var_bound V sem globals pe (tr b) _ Pb) as Eb.
      destruct cmp.
      + rewrite (cmpop_denotes_call V sem globals cls op (EVar (tr a)) (EVar (tr b)) pe _ _ Epm R8 Ea Eb eq_refl). reflexivity.
      + rewrite (binop_denotes_call V sem globals cls op (EVar (tr a)) (EVar (tr b)) pe _ _ Epm R7 Ea Eb eq_refl). reflexivity.
  Qed.

  Notation en := (emit_node_with kw rename infun use_ops None rm [] esub).
  Notation wn := (wf_node kw rename rm NN brk use_ops wsub).

  Lemma any_step : forall D n ss Dn, wn D n = Some Dn -> en n = Some ss ->
    node_corr D Dn n ss /\ exists news, Dn = (news ++ D)%list /\ (forall o, In o news -> o <> "" /\ In o NN).
  Proof.
    intros D [dom op ins outs attrs subs] ss Dn Hw He. unfold wf_node in Hw. unfold emit_node_with in He.
    cbn [andb] in He.
    destruct (String.eqb op "If") eqn:E1.
    { apply String.eqb_eq in E1. subst op. destruct (if_step D dom ins outs attrs subs ss Dn Hw He) as (A & B & C).
      split; [exact A|]. exists outs. split; assumption. }
    destruct (String.eqb op "Loop") eqn:E2.
    { apply String.eqb_eq in E2. subst op. unfold wf_loop in Hw.
      destruct (wf_while rename rm NN wsub D dom ins outs attrs subs) as [r|] eqn:Ewh.
      - inversion Hw; subst r. destruct (while_step D dom ins outs attrs subs ss Dn Ewh He) as (A & B & C).
        split; [exact A|]. exists outs. split; assumption.
      - destruct (wf_for rename rm NN wsub D dom ins outs attrs subs) as [r|] eqn:Efo.
        + inversion Hw; subst r. destruct (for_step D dom ins outs attrs subs ss Dn Efo He) as (A & B & C).
          split; [exact A|]. exists outs. split; assumption.
        + destruct (Bool.bool_dec brk true) as [Hb|Hb]; [|apply Bool.not_true_is_false in Hb; rewrite Hb in Hw; discriminate].
          rewrite Hb in Hw.
          destruct (forbreak_step D dom ins outs attrs subs ss Dn Hb Hw He) as (A & B & C).
          split; [exact A|]. exists outs. split; assumption. }
    destruct (String.eqb op "Scan") eqn:E3; [discriminate|]. destruct subs as [|? ?]; [|cbn [is_nil negb] in He; discriminate He]. cbn [is_nil negb] in He.
    revert Hw He. generalize use_ops as u. intros u Hw He.
    destruct u as [p|].
    2:{ destruct (plain_step None D _ ss Dn Hw He) as (A & B & C). split; [exact A|]. eexists. split; [exact B|exact C]. }
    revert He. destruct (lookup_assoc op use_operators_table) as [sym|] eqn:Eop; intros He.
    2:{ destruct (plain_step (Some p) D _ ss Dn Hw He) as (A & B & C). split; [exact A|]. eexists. split; [exact B|exact C]. }
    destruct (operator_step (Some p) D dom op ins outs attrs sym p ss Dn eq_refl Hw Eop E1 E2 E3 He) as (ss' & He' & Heq).
    destruct (plain_step (Some p) D _ ss' Dn Hw He') as (A & B & C). split; [|eexists; split; [exact B|exact C]].
    intros e pe rest HI HD. rewrite (Heq e pe rest HI). exact (A e pe rest HI HD).
  Qed.

  Lemma list_corr : forall ns D Dfin ss,
    wf_list kw rename rm NN brk use_ops wsub D ns = Some Dfin -> emit_all en ns = Some ss ->
    corr (eval_body evg') (S fp') D Dfin ns ss.
  Proof.
    induction ns as [|n t IH]; intros D Dfin ss Hw He.
    - cbn [wf_list] in Hw. inversion Hw; subst Dfin. cbn [emit_all] in He. inversion He; subst ss.
      split; [tauto|]. split; [tauto|]. intros e pe rest HI HD. cbn [Sem.run app]. exists pe. split; [reflexivity|]. split; [exact HI|reflexivity].
    - cbn [wf_list] in Hw. destruct (wn D n) as [D1|] eqn:W1; [|discriminate].
      cbn [emit_all] in He. destruct (en n) as [s1|] eqn:E1; [|discriminate]. destruct (emit_all en t) as [s2|] eqn:E2; [|discriminate].
      inversion He; subst ss. clear He.
      destruct (any_step D n s1 D1 W1 E1) as (N1 & news & -> & Hnews).
      destruct (IH _ Dfin s2 Hw eq_refl) as (T1 & T2 & T3).
      split; [|split].
      + intros HD. apply T1. apply scoped_app; assumption.
      + intros x Hx. apply T2. apply in_or_app. right. exact Hx.
      + intros e pe rest HI HD. cbn [Sem.run]. rewrite <- app_assoc.
        specialize (N1 e pe (s2 ++ rest)%list HI HD).
        destruct (eval_node (eval_body evg') e n) as [e1|]; [|exact N1].
        destruct N1 as (pe1 & X1 & I1 & F1). rewrite X1.
        specialize (T3 e1 pe1 rest I1 (scoped_app news D HD Hnews)).
        destruct (run (eval_body evg') e1 t) as [e2|]; [|exact T3].
        destruct T3 as (pe2 & X2 & I2 & F2). exists pe2. split; [exact X2|]. split; [exact I2|].
        intros x Hx. rewrite F2; [apply F1; exact Hx|]. apply in_or_app. right. exact Hx.
  Qed.
  End Level.

  (* ---- every nesting depth --------------------------------------------------------------------------------- *)
  Lemma emit_id_suppressed : forall sub i u, tr u = tr i -> u <> "" ->
    emit_node_with kw rename infun use_ops None rm [] sub (Node "" "Identity" [Some i] [u] [] []) = Some [].
  Proof.
    intros sub i u E Hne. unfold emit_node_with. cbn [inl_drop].
    assert (Hid : match use_ops with Some _ => lookup_assoc "Identity" use_operators_table | None => @None string end = None) by (destruct use_ops; reflexivity).
    rewrite Hid. clear Hid.
    change (String.eqb "Identity" "If") with false. change (String.eqb "Identity" "Loop") with false.
    change (String.eqb "Identity" "Scan") with false. cbv iota. cbn [is_nil negb].
    unfold emit_node. change (negb (String.eqb "" "") || is_cf "Identity" || negb (is_nil (@nil (string * graph))) || existsb is_other []) with false.
    cbv iota. unfold suppressed_identity. change (String.eqb "Identity" "Identity") with true. cbn [andb out_names in_name].
    assert (is_empty u = false) as -> by (apply String.eqb_neq; exact Hne).
    rewrite E, String.eqb_refl. reflexivity.
  Qed.

  Lemma emit_nodes_tail : forall fu ns i u sb,
    emit_nodes kw rename infun use_ops None rm [] fu (ns ++ [Node "" "Identity" [Some i] [u] [] []])%list = Some sb ->
    tr u = tr i -> u <> "" -> emit_nodes kw rename infun use_ops None rm [] fu ns = Some sb.
  Proof.
    intros [|fu] ns i u sb H E Hne; [discriminate H|]. cbn [emit_nodes] in *. rewrite emit_all_app in H.
    destruct (emit_all (emit_node_with kw rename infun use_ops None rm []
                (fun g : graph => if is_nil (g_inits g) then emit_nodes kw rename infun use_ops None rm [] fu (g_nodes g) else None)) ns) as [s1|]; [|discriminate].
    cbn [emit_all] in H. rewrite (emit_id_suppressed _ i u E Hne) in H. cbn [app] in H. rewrite app_nil_r in H. exact H.
  Qed.

  Notation eval_graph := (eval_graph V sem truth trip of_nat of_bool limit).

  Theorem nodes_corr : forall d ns D Dfin ss fp' fg',
    emit_nodes kw rename infun use_ops None rm [] (S d) ns = Some ss ->
    wf_cf kw rename rm NN brk use_ops (S d) D ns = Some Dfin ->
    d <= fp' -> d <= fg' ->
    corr (eval_body (eval_graph fg')) (S fp') D Dfin ns ss.
  Proof.
    induction d as [|d IH]; intros ns D Dfin ss fp' fg' He Hw Hp Hg.
    - cbn [emit_nodes] in He. cbn [wf_cf] in Hw.
      apply (list_corr fp' (eval_graph fg') (emit_nodes kw rename infun use_ops None rm [] 0) (wf_cf kw rename rm NN brk use_ops 0)); [| | |exact Hw|exact He].
      + intros D0 ns0 sb Db H0. cbn [emit_nodes] in H0. discriminate H0.
      + apply emit_nodes_tail.
      + intros ns0 sb0 H0. cbn [emit_nodes] in H0. discriminate H0.
    - destruct fp' as [|fp'']; [lia|]. destruct fg' as [|fg'']; [lia|].
      change (emit_nodes kw rename infun use_ops None rm [] (S (S d)) ns)
        with (emit_all (emit_node_with kw rename infun use_ops None rm [] (esub (emit_nodes kw rename infun use_ops None rm [] (S d)))) ns) in He.
      change (wf_cf kw rename rm NN brk use_ops (S (S d)) D ns) with (wf_list kw rename rm NN brk use_ops (wf_cf kw rename rm NN brk use_ops (S d)) D ns) in Hw.
      apply (list_corr (S fp'') (eval_graph (S fg'')) (emit_nodes kw rename infun use_ops None rm [] (S d)) (wf_cf kw rename rm NN brk use_ops (S d))); [| | |exact Hw|exact He].
      + intros D0 ns0 sb Db H0 H1. apply (IH ns0 D0 Db sb fp'' fg'' H0 H1); lia.
      + apply emit_nodes_tail.
      + intros ns0 sb0 _. discriminate.
  Qed.
End Nested.

Lemma emit_all_ext : forall A (f g : A -> option (list stmt)) l, (forall a, f a = g a) -> emit_all f l = emit_all g l.
Proof. intros A f g l H. induction l as [|a t IH]; [reflexivity|]. cbn [emit_all]. rewrite H, IH. reflexivity. Qed.

Section MainCF.
  Variable V : Type.
  Variable sem : string -> string -> list (string * attrv) -> list (option V) -> option (list V).
  Variable truth : V -> option bool.
  Variable trip : V -> option nat.
  Variable of_nat : nat -> V.
  Variable of_bool : bool -> V.
  Variable limit : nat.
  Variable globals : list (string * lit).
  Variable kw : list string.
  Variable prename rename : vname -> string.
  Variable infun : bool.
  (* used by the counted Loop form only: the pass-through `cond_out = Identity(cond_in)` of the body and the constant
     true condition of a Loop without condition input *)
  Hypothesis sem_identity : forall v, sem "" "Identity" [] [Some v] = Some [v].
  Hypothesis truth_of_bool : forall b, truth (of_bool b) = Some b.
  (* used by the form `for` + `if not c: break` only, which is in the class when brk = true *)
  Variable brk : bool.
  Hypothesis sem_not : forall v b, truth v = Some b -> exists r, sem "" "Not" [] [Some v] = Some [r] /\ truth r = Some (negb b).
  Hypothesis truth_total : brk = true -> forall v, exists b, truth v = Some b.

  Theorem export_cf_ops_sound : forall use_ops fname ivals g f sk,
    export_cf kw prename rename infun use_ops None false fname ivals g = Some (f, sk) ->
    nested_ops_okb kw prename rename infun brk use_ops ivals g = true ->
    forall fp fg xs, depth_graph g <= S fp -> depth_graph g <= S fg ->
      eval_script V sem truth trip of_nat limit globals (S (S fp)) f xs =
      match init_env V sem ivals with
      | Some outer => eval_graph V sem truth trip of_nat of_bool limit (S (S fg)) outer g xs
      | None => None
      end.
  Proof.
    intros use_ops fname ivals g f sk He Hok fp fg xs Hfp Hfg.
    unfold nested_ops_okb in Hok. unfold export_cf in He.
    destruct (scan rename infun None false ivals g) as [rm consts] eqn:Esc. cbn [fst snd] in Hok.
    set (NN := nested_names rm g) in *. set (t := tr rename rm) in *.
    apply andb_true_iff in Hok; destruct Hok as [Hok K10]. apply andb_true_iff in Hok; destruct Hok as [Hok K9].
    apply andb_true_iff in Hok; destruct Hok as [Hok K8]. apply andb_true_iff in Hok; destruct Hok as [Hok K7].
    apply andb_true_iff in Hok; destruct Hok as [Hok K6]. apply andb_true_iff in Hok; destruct Hok as [Hok K5].
    apply andb_true_iff in Hok; destruct Hok as [Hok K4]. apply andb_true_iff in Hok; destruct Hok as [Hok K3].
    apply andb_true_iff in Hok; destruct Hok as [Hok K2]. apply andb_true_iff in Hok; destruct Hok as [K0 K1].
    destruct consts; [|discriminate K0]. clear K0.
    assert (Hinit_eq : emit_all (emit_init_cf kw rename None false rm) ivals = emit_all (emit_init kw t) ivals).
    { apply emit_all_ext. intros iv. reflexivity. }
    rewrite Hinit_eq in He. clear Hinit_eq.
    destruct (emit_all (emit_init kw t) ivals) as [si|] eqn:Ei; [|discriminate].
    destruct (emit_nodes kw rename infun use_ops None rm [] (depth_graph g) (g_nodes g)) as [sn|] eqn:En; [|discriminate].
    inversion He; subst f sk. clear He.
    assert (tr_inj : forall a b, In a NN -> In b NN -> a <> "" -> b <> "" -> t a = t b -> a = b).
    { intros a b Ha Hb _ _ E. exact (nodupb_map_inj t NN K4 a b Ha Hb E). }
    apply negb_true_iff in K5. apply memb_false_In in K5. apply negb_true_iff in K6. apply memb_false_In in K6.
    assert (none_free : forall x, In x NN -> x <> "" -> t x <> "None").
    { intros x Hx _ C. apply K5. rewrite <- C. apply in_map. exact Hx. }
    assert (empty_free : forall x, In x NN -> t x <> "").
    { intros x Hx C. apply K6. rewrite <- C. apply in_map. exact Hx. }
    destruct g as [ins inits nodes outs]. cbn [g_ins g_inits g_nodes g_outs] in *.
    apply list_eqb_eq in K1.
    rewrite forallb_forall in K3.
    assert (HD0N : forall x, In x (ins ++ inits)%list -> In x NN) by (intros x Hx; specialize (K3 x Hx); apply andb_true_iff in K3; apply memb_In; apply K3).
    assert (Hne0 : ~ In "" (ins ++ inits)%list).
    { intros C. specialize (K3 "" C). apply andb_true_iff in K3. destruct K3 as [K3 _]. discriminate K3. }
    assert (Hne_ins : ~ In "" ins) by (intros C; apply Hne0; apply in_or_app; left; exact C).
    assert (Hpar : map prename ins = map t ins).
    { rewrite forallb_forall in K7. apply map_ext_in. intros x Hx. apply String.eqb_eq. apply K7. exact Hx. }
    unfold eval_script. cbn [f_tparams f_body]. rewrite Hpar.
    change (fun o : vname => EVar (tr_with rename rm o)) with (fun o : vname => EVar (t o)).
    assert (Hinit : forall x, In x (map fst ivals) -> t (t x) = t x /\ t x <> "").
    { intros x Hx. rewrite K1 in Hx. split.
      - rewrite forallb_forall in K8. apply String.eqb_eq. apply K8. exact Hx.
      - apply empty_free. apply HD0N. apply in_or_app. right. exact Hx. }
    assert (Hconst : ivals <> [] -> cleanup kw "Constant" = "Constant").
    { intros Hnn. apply orb_true_iff in K9. destruct K9 as [Hc|Hc]; [destruct ivals; [contradiction Hnn; reflexivity | discriminate Hc]|].
      unfold call_okb in Hc. apply andb_true_iff in Hc. apply String.eqb_eq. apply Hc. }
    pose proof (fun pe => init_run V sem truth trip of_nat limit globals kw t ivals si Ei Hconst Hinit (S fp)
                            (sn ++ [SReturn (map (fun o => EVar (t o)) outs)])%list pe) as IR.
    destruct (init_env V sem ivals) as [outer|].
    2:{ destruct (pbind V (map t ins) xs []) as [pe1|]; [|reflexivity]. rewrite (IR pe1). reflexivity. }
    cbn [eval_graph]. unfold eval_body at 1. cbn [g_ins g_nodes g_outs].
    pose proof (bind_pbind_defined V t ins 0 xs outer []) as BD. rewrite (out_names_named t ins 0 Hne_ins) in BD.
    destruct (Sem.bind ins xs outer) as [e0|] eqn:Eb; [|rewrite BD; reflexivity].
    destruct BD as [pe1 Hp]. rewrite Hp. destruct (IR pe1) as [IR1 IR2]. rewrite IR1. rewrite K1 in IR2.
    pose proof (start_inv V t NN tr_inj ins inits xs outer e0 pe1 K2 Hne0 HD0N IR2 Eb Hp) as I0.
    assert (HD0 : scoped NN (ins ++ inits)%list).
    { intros x Hx. split; [apply HD0N; exact Hx | intros C; subst x; contradiction]. }
    cbn [depth_graph] in En, K10, Hfp, Hfg.
    match type of En with emit_nodes _ _ _ _ _ _ _ (S ?d) _ = _ => set (d0 := d) in * end.
    destruct (wf_cf kw rename rm NN brk use_ops (S d0) (ins ++ inits)%list nodes) as [Dfin|] eqn:Ewf; [|discriminate].
    rewrite forallb_forall in K10.
    destruct (nodes_corr V sem truth trip of_nat of_bool limit globals kw rename infun rm NN brk use_ops tr_inj none_free sem_identity truth_of_bool sem_not truth_total
                d0 nodes (ins ++ inits)%list Dfin sn fp fg En Ewf ltac:(lia) ltac:(lia)) as (_ & _ & NR).
    specialize (NR e0 (rev_bind V t outer pe1) [SReturn (map (fun o => EVar (t o)) outs)] I0 HD0).
    change (Sem.eval_graph V sem truth trip of_nat of_bool limit (S fg)) with (Sem.eval_body V sem truth trip of_nat of_bool limit (Sem.eval_graph V sem truth trip of_nat of_bool limit fg)).
    destruct (Sem.run V sem truth trip of_nat of_bool limit (Sem.eval_body V sem truth trip of_nat of_bool limit (Sem.eval_graph V sem truth trip of_nat of_bool limit fg)) e0 nodes)
      as [e'|]; [|rewrite NR; reflexivity].
    destruct NR as (pe' & X & I' & _). rewrite X. rewrite exec_block_return.
    destruct (rets_ok V sem globals t Dfin e' pe' outs I') as (vs & L1 & L2).
    { intros o Ho. apply memb_In. apply K10. exact Ho. }
    rewrite L1, L2. reflexivity.
  Qed.

  Theorem export_cf_sound : forall fname ivals g f sk,
    export_cf kw prename rename infun None None false fname ivals g = Some (f, sk) ->
    nested_okb kw prename rename infun brk ivals g = true ->
    forall fp fg xs, depth_graph g <= S fp -> depth_graph g <= S fg ->
      eval_script V sem truth trip of_nat limit globals (S (S fp)) f xs =
      match init_env V sem ivals with
      | Some outer => eval_graph V sem truth trip of_nat of_bool limit (S (S fg)) outer g xs
      | None => None
      end.
  Proof. exact (export_cf_ops_sound None). Qed.
End MainCF.

Require Import OV.Gen.ExportTables.

(* ---- concrete witnesses (integers as tensors: a value is true when positive) ---------------------------------- *)
Definition zsem2 (dom op : string) (attrs : list (string * attrv)) (args : list (option Z)) : option (list Z) :=
  if String.eqb op "Pow" then match args with [Some a; Some b] => Some [Z.pow a b] | _ => None end else
  if String.eqb op "Identity" then match args with [Some a] => Some [a] | _ => None end else
  if String.eqb op "Not" then match args with [Some a] => Some [if Z.ltb 0 a then 0%Z else 1%Z] | _ => None end else zsem dom op attrs args.
Definition ztruth (z : Z) : option bool := Some (Z.ltb 0 z).
Definition zscript2 (f : func) (xs : list Z) : option (list Z) :=
  eval_script Z zsem2 ztruth (fun z => Some (Z.to_nat z)) Z.of_nat 10 [] 4 f xs.
Definition zgraph2 (outer : list (vname * Z)) (g : graph) (xs : list Z) : option (list Z) :=
  eval_graph Z zsem2 ztruth (fun z => Some (Z.to_nat z)) Z.of_nat (fun b : bool => if b then 1%Z else 0%Z) 10 4 outer g xs.

(* non-vacuity: an If whose else branch holds a `while` loop (reading the outer value `x` and the initializer `w`),
   names needing the clean-up -- nested_okb holds, the export is the expected program, both sides agree *)
Definition g_nested : graph :=
  Graph ["x"] ["w"]
    [Node "" "If" [Some "x"] ["r.0"] []
       [("then_branch", Graph [] [] [Node "" "Neg" [Some "x"] ["t.1"] [] []] ["t.1"]);
        ("else_branch",
         Graph [] []
           [Node "" "Abs" [Some "x"] ["a"] [] [];
            Node "" "Loop" [None; Some "a"; Some "a"; Some "w"] ["fin"; "acc"] []
              [("body", Graph ["i"; "c"; "s"; "t"] []
                          [Node "" "Constant" [] ["one"] [("value", ATensor 7 [] [1%Z])] [];
                           Node "" "Sub" [Some "s"; Some "one"] ["s2"] [] [];
                           Node "" "Add" [Some "t"; Some "x"] ["t2"] [] []]
                          ["s2"; "s2"; "t2"])];
            Node "" "Sub" [Some "acc"; Some "fin"] ["while"] [] []] ["while"])];
     Node "" "Sub" [Some "r.0"; Some "x"] ["y"] [] []] ["y"].
Definition iv_nested : list (vname * attrv) := [("w", ATensor 7 [] [100%Z])].
Definition f_nested : func :=
  {| f_name := "g"; f_tparams := ["x"]; f_aparams := [];
     f_body :=
       [SAssign "w" (ECall (COp "Constant") [] [("value", KLit (ATensor 7 [] [100%Z]))]);
        SIf (EVar "x")
          [SAssign "t_1" (ECall (COp "Neg") [Some (EVar "x")] []); SAssign "r_0" (EVar "t_1")]
          [SAssign "a" (ECall (COp "Abs") [Some (EVar "x")] []);
           SAssign "c" (EVar "a"); SAssign "s" (EVar "a"); SAssign "t" (EVar "w");
           SWhile "c"
             [SAssign "one" (ECall (COp "Constant") [] [("value", KLit (ATensor 7 [] [1%Z]))]);
              SAssign "s2" (ECall (COp "Sub") [Some (EVar "s"); Some (EVar "one")] []);
              SAssign "t2" (ECall (COp "Add") [Some (EVar "t"); Some (EVar "x")] []);
              SAssign "c" (EVar "s2"); SAssign "s" (EVar "s2"); SAssign "t" (EVar "t2")];
           SAssign "fin" (EVar "s"); SAssign "acc" (EVar "t");
           SAssign "r_while" (ECall (COp "Sub") [Some (EVar "acc"); Some (EVar "fin")] []);
           SAssign "r_0" (EVar "r_while")];
        SAssign "y" (ECall (COp "Sub") [Some (EVar "r_0"); Some (EVar "x")] []);
        SReturn [EVar "y"]] |}.
Theorem export_nested_example :
  nested_okb kwlist (cleanup kwlist) (cleanup kwlist) false false iv_nested g_nested = true /\
  export_cf kwlist (cleanup kwlist) (cleanup kwlist) false None None false "g" iv_nested g_nested = Some (f_nested, []) /\
  zscript2 f_nested [(-3)%Z] = Some [94%Z] /\ zscript2 f_nested [5%Z] = Some [(-10)%Z] /\
  option_map (fun outer => zgraph2 outer g_nested [(-3)%Z]) (init_env Z zsem2 iv_nested) = Some (Some [94%Z]) /\
  option_map (fun outer => zgraph2 outer g_nested [5%Z]) (init_env Z zsem2 iv_nested) = Some (Some [(-10)%Z]).
Proof. vm_compute. repeat split. Qed.

(* use_operators + inline_const: Pow with the inlined constant -2 as base is printed `y = -2 ** x`, which Python reads
   as -(2 ** x): the exported program denotes another computation (4 against -4 on x = 2) *)
Definition g_powneg : graph :=
  Graph ["x"] []
    [Node "" "Constant" [] ["m2"] [("value", ATensor 7 [] [254%Z; 255%Z; 255%Z; 255%Z; 255%Z; 255%Z; 255%Z; 255%Z])] [];
     Node "" "Pow" [Some "m2"; Some "x"] ["y"] [] []] ["y"].
Theorem export_pow_negative_base_refuted :
  exists f, export_cf kwlist (cleanup kwlist) (cleanup kwlist) false (Some false) (Some as_read_fx) false "g" [] g_powneg = Some (f, []) /\
            f_body f = [SAssign "y" (EUn "USub" (EBin "Pow" (ELit (LInt 2%Z)) (EVar "x"))); SReturn [EVar "y"]].
Proof. eexists. split; vm_compute; reflexivity. Qed.

(* ---- repair variants of the option paths (proposed_fixes C13_11, C13_05): as read / repaired --------------------- *)
Theorem export_pow_negative_base_repaired :
  exists f, export_cf kwlist (cleanup kwlist) (cleanup kwlist) false (Some true) (Some as_read_fx) false "g" [] g_powneg = Some (f, []) /\
            f_body f = [SAssign "y" (EBin "Pow" (ELit (LInt (-2)%Z)) (EVar "x")); SReturn [EVar "y"]].
Proof. eexists. split; vm_compute; reflexivity. Qed.

(* inline_const: a Constant that is a graph output is dropped; as read the `return` names the dropped variable (which no
   statement binds), with C13_05 it returns the literal *)
Definition g_const_out : graph :=
  Graph ["x"] []
    [Node "" "Neg" [Some "x"] ["t"] [] [];
     Node "" "Constant" [] ["c"] [("value", ATensor 7 [] [3%Z; 0%Z; 0%Z; 0%Z; 0%Z; 0%Z; 0%Z; 0%Z])] []] ["t"; "c"].
Definition repaired_fx : inline_fx := {| fx_finite := true; fx_nonempty := true; fx_src_ref := true; fx_init_raw := true |}.
Theorem export_inlined_source_refuted :
  exists f, export_cf kwlist (cleanup kwlist) (cleanup kwlist) false None (Some as_read_fx) false "g" [] g_const_out = Some (f, []) /\
            f_body f = [SAssign "t" (ECall (COp "Neg") [Some (EVar "x")] []); SReturn [EVar "t"; EVar "c"]] /\
            zscript f [1%Z] = None.
Proof. eexists. repeat split; vm_compute; reflexivity. Qed.
Theorem export_inlined_source_repaired :
  exists f, export_cf kwlist (cleanup kwlist) (cleanup kwlist) false None (Some repaired_fx) false "g" [] g_const_out = Some (f, []) /\
            f_body f = [SAssign "t" (ECall (COp "Neg") [Some (EVar "x")] []); SReturn [EVar "t"; ELit (LInt 3%Z)]].
Proof. eexists. split; vm_compute; reflexivity. Qed.

(* non-vacuity for the counted Loop form: `for i in range(n)` with the iteration number used and the condition passed
   through by the last node of the body *)
Definition g_for : graph :=
  Graph ["x"; "n"] []
    [Node "" "Loop" [Some "n"; None; Some "x"] ["y.0"] []
       [("body", Graph ["i"; "c"; "s"] []
                   [Node "" "Add" [Some "s"; Some "x"] ["s1"] [] [];
                    Node "" "Add" [Some "s1"; Some "i"] ["s2"] [] [];
                    Node "" "Identity" [Some "c"] ["c2"] [] []]
                   ["c2"; "s2"])]] ["y.0"].
Definition f_for : func :=
  {| f_name := "g"; f_tparams := ["x"; "n"]; f_aparams := [];
     f_body := [SAssign "s" (EVar "x");
                SFor "i" (EVar "n") [SAssign "s1" (ECall (COp "Add") [Some (EVar "s"); Some (EVar "x")] []);
                                     SAssign "s2" (ECall (COp "Add") [Some (EVar "s1"); Some (EVar "i")] []);
                                     SAssign "s" (EVar "s2")];
                SAssign "y_0" (EVar "s");
                SReturn [EVar "y_0"]] |}.
Theorem export_for_example :
  nested_okb kwlist (cleanup kwlist) (cleanup kwlist) true false [] g_for = true /\
  export_cf kwlist (cleanup kwlist) (cleanup kwlist) true None None false "g" [] g_for = Some (f_for, []) /\
  zscript2 f_for [5%Z; 3%Z] = Some [23%Z] /\ zgraph2 [] g_for [5%Z; 3%Z] = Some [23%Z] /\
  zscript2 f_for [5%Z; 0%Z] = Some [5%Z] /\ zgraph2 [] g_for [5%Z; 0%Z] = Some [5%Z].
Proof. vm_compute. repeat split. Qed.

(* ---- semantics of the option paths (partial) ------------------------------------------------------------------ *)
(* inline_const: the expression printed for an inlined constant evaluates to the tensor the dropped Constant node
   denotes, for the literals Script.Syntax can express (INT64 scalar, finite FLOAT scalar, INT64 vector); the only
   assumption relates the two encodings of a tensor attribute (raw bytes in the graph, values in a script literal). *)
Definition script_lit (l : ilit) : option lit :=
  match l with IInt z => Some (LInt z) | IFloat b => Some (LFloat b) | IInts zs => Some (LInts zs) | IFloats _ => None end.

Lemma float_expr_finite : forall b, nonfinite_b b = false -> float_expr b = ELit (LFloat b).
Proof.
  intros b H. unfold float_expr, is_nan_bits. unfold nonfinite_b in H. apply Z.leb_gt in H.
  assert (Z.ltb 2139095040 (Z.modulo b 2147483648) = false) as -> by (apply Z.ltb_ge; lia).
  destruct (Z.eqb b 2139095040) eqn:E1; [apply Z.eqb_eq in E1; subst b; vm_compute in H; discriminate|].
  destruct (Z.eqb b 4286578688) eqn:E2; [apply Z.eqb_eq in E2; subst b; vm_compute in H; discriminate|].
  reflexivity.
Qed.

Section InlineSem.
  Variable V : Type.
  Variable sem : string -> string -> list (string * attrv) -> list (option V) -> option (list V).
  Variable globals : list (string * lit).

  Theorem inline_literal_denotes : forall fx a l sl v (pe : penv V),
    fx_finite fx = true -> const_lit_fx fx a = Some l -> script_lit l = Some sl ->
    sem "" "Constant" [("value", lit_attr sl)] [] = sem "" "Constant" [("value", a)] [] ->      (* the two encodings denote the same tensor *)
    sem "" "Constant" [("value", a)] [] = Some [v] ->
    eval_expr V sem globals pe (ilit_expr l) = Some (PS V sl v).
  Proof.
    intros fx a l sl v pe Hfin Hc Hs Henc Hv. unfold const_lit_fx in Hc. destruct (const_lit a) as [l0|]; [|discriminate].
    destruct (lit_okb fx l0) eqn:Hok; [|discriminate]. inversion Hc; subst l0. clear Hc.
    assert (Hev : forall s, s = sl -> eval_expr V sem globals pe (ELit s) = Some (PS V sl v)).
    { intros s ->. cbn [PySem.eval_expr]. unfold const_val. rewrite Henc, Hv. reflexivity. }
    destruct l as [z|b|zs|bs]; cbn [script_lit] in Hs; inversion Hs; subst sl; cbn [ilit_expr].
    - apply Hev. reflexivity.
    - rewrite float_expr_finite; [apply Hev; reflexivity|].
      unfold lit_okb in Hok. rewrite Hfin in Hok. cbn [andb] in Hok. apply andb_true_iff in Hok. destruct Hok as [Hok _].
      apply negb_true_iff in Hok. exact Hok.
    - apply Hev. reflexivity.
  Qed.
End InlineSem.


(* every entry of the use_operators table found in the source prints an operator that the converter reads back as the
   entry's own ONNX operator (none of them is Mod or NotEqual) -- but for the dead entry "Lesser", which names no operator *)
Definition operator_entry_okb (e : string * string) : bool :=
  match pyop (snd e) with
  | Some (_, cls) => match lookup_assoc cls primop_map with
                     | Some o => (String.eqb o (fst e) || String.eqb (fst e) "Lesser") && negb (String.eqb cls "Mod") && negb (String.eqb o "NotEqual")
                     | None => false
                     end
  | None => false
  end.
Theorem operator_table_reads_back : forallb operator_entry_okb use_operators_table = true.
Proof. vm_compute. reflexivity. Qed.

(* non-vacuity for the form with a trip count AND a condition: `for i in range(n): if not c: break; ...` *)
Definition g_forbreak : graph :=
  Graph ["x"; "n"] []
    [Node "" "Loop" [Some "n"; Some "x"; Some "x"] ["y"] []
       [("body", Graph ["i"; "c"; "s"] []
                   [Node "" "Constant" [] ["one"] [("value", ATensor 7 [] [1%Z])] [];
                    Node "" "Sub" [Some "s"; Some "one"] ["s2"] [] []]
                   ["s2"; "s2"])]] ["y"].
Definition f_forbreak : func :=
  {| f_name := "g"; f_tparams := ["x"; "n"]; f_aparams := [];
     f_body := [SAssign "c" (EVar "x"); SAssign "s" (EVar "x");
                SFor "i" (EVar "n") [SIf (EUn "Not" (EVar "c")) [SBreak] [];
                                     SAssign "one" (ECall (COp "Constant") [] [("value", KLit (ATensor 7 [] [1%Z]))]);
                                     SAssign "s2" (ECall (COp "Sub") [Some (EVar "s"); Some (EVar "one")] []);
                                     SAssign "c" (EVar "s2"); SAssign "s" (EVar "s2")];
                SAssign "y" (EVar "s");
                SReturn [EVar "y"]] |}.
Theorem export_forbreak_example :
  nested_okb kwlist (cleanup kwlist) (cleanup kwlist) true true [] g_forbreak = true /\
  nested_okb kwlist (cleanup kwlist) (cleanup kwlist) true false [] g_forbreak = false /\
  export_cf kwlist (cleanup kwlist) (cleanup kwlist) true None None false "g" [] g_forbreak = Some (f_forbreak, []) /\
  zscript2 f_forbreak [2%Z; 5%Z] = Some [0%Z] /\ zgraph2 [] g_forbreak [2%Z; 5%Z] = Some [0%Z] /\
  zscript2 f_forbreak [5%Z; 2%Z] = Some [3%Z] /\ zgraph2 [] g_forbreak [5%Z; 2%Z] = Some [3%Z] /\
  zscript2 f_forbreak [(-1)%Z; 4%Z] = Some [(-1)%Z] /\ zgraph2 [] g_forbreak [(-1)%Z; 4%Z] = Some [(-1)%Z].
Proof. vm_compute. repeat split. Qed.

(* non-vacuity of the theorem with use_operators on: the nested example printed with operators (`-`, `+`) is in the class
   and computes the same values *)
Theorem export_nested_ops_example :
  nested_ops_okb kwlist (cleanup kwlist) (cleanup kwlist) false false (Some true) iv_nested g_nested = true /\
  exists f, export_cf kwlist (cleanup kwlist) (cleanup kwlist) false (Some true) None false "g" iv_nested g_nested = Some (f, []) /\
            In (SAssign "y" (EBin "Sub" (EVar "r_0") (EVar "x"))) (f_body f) /\
            zscript2 f [(-3)%Z] = Some [94%Z] /\ zscript2 f [5%Z] = Some [(-10)%Z].
Proof. split; [vm_compute; reflexivity|]. eexists. split; [vm_compute; reflexivity|]. split; [cbn; tauto|]. split; vm_compute; reflexivity. Qed.

(* a node of another domain that happens to be called like an entry of the operator table is printed as the operator all
   the same (the exporter looks at op_type only): outside the class (op_line_okb), and the program denotes something else *)
Definition g_foreign_add : graph :=
  Graph ["x"] [] [Node "custom" "Add" [Some "x"; Some "x"] ["y"] [] []] ["y"].
Theorem export_foreign_domain_operator :
  exists f, export_cf kwlist (cleanup kwlist) (cleanup kwlist) false (Some true) None false "g" [] g_foreign_add = Some (f, []) /\
            f_body f = [SAssign "y" (EBin "Add" (EVar "x") (EVar "x")); SReturn [EVar "y"]] /\
            nested_ops_okb kwlist (cleanup kwlist) (cleanup kwlist) false false (Some true) [] g_foreign_add = false.
Proof. eexists. repeat split; vm_compute; reflexivity. Qed.
