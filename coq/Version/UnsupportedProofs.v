(* C10 -- "when a conversion is not supported the model is left as it was": every request (source s, target t) outside
   smin <= s <= t <= smax, on the native path with the below-minimum pre-check (C10_03), raises and leaves the model
   exactly as it was; without the pre-check a source below the supported minimum is re-stamped (refuted). *)
From Coq Require Import ZArith List Bool String Lia.
Import ListNotations.
Require Import OV.Gen.VersionTables OV.Version.Model OV.Version.Model2 OV.Version.Adapters
               OV.Version.ConvertProofs OV.Version.Std OV.Version.Model2Proofs.
Local Open Scope Z_scope.

Definition unsupported (smin smax s t : Z) : bool := (t <? smin) || (t >? smax) || (s <? smin) || (t <? s).

Section Unsupported.
  Variable adapt : adapter.
  Variables smin smax : Z.

  (* a work list that contains a default-domain node at version s > t cannot finish *)
  Lemma conv_downgrade_aborts : forall s t f todo,
    t < s -> forallb (at_version s) todo = true -> existsb n_dflt todo = true ->
    exists e, conv adapt t (Some s) f todo = GAbort e todo [].
  Proof.
    intros s t. induction f as [|f IH]; intros todo Hlt Hu Hex; [cbn; eauto|].
    rewrite conv_S. destruct todo as [|n rest]; [discriminate|].
    cbn [forallb existsb] in Hu, Hex. apply andb_true_iff in Hu as [Hn Hrest].
    destruct (n_dflt n) eqn:Ed; cbn [negb].
    - pose proof Hn as Hn'. rewrite at_version_unfold, Ed in Hn'. cbn in Hn'. apply andb_true_iff in Hn' as [Ho _].
      assert (Ev : (match n_ver n with Some v => Some v | None => Some s end) = Some s).
      { destruct (n_ver n) as [v|]; cbn in Ho; [apply Z.eqb_eq in Ho; subst v|]; reflexivity. }
      rewrite Ev. destruct (n_ref n); [eauto|].
      assert (E : (t <? s) = true) by (apply Z.ltb_lt; lia). rewrite E. eauto.
    - cbn in Hex. destruct (IH rest Hlt Hrest Hex) as (e & ->). cbn. eauto.
  Qed.

  Lemma below_min_exists : forall s todo, s < smin ->
    forallb (at_version s) todo = true -> existsb n_dflt todo = true -> existsb (below_min smin (Some s)) todo = true.
  Proof.
    intros s. induction todo as [|n rest IH]; intros Hlt Hu Hex; [discriminate|].
    cbn [forallb existsb] in *. apply andb_true_iff in Hu as [Hn Hrest].
    destruct (n_dflt n) eqn:Ed.
    - rewrite at_version_unfold, Ed in Hn. cbn in Hn. apply andb_true_iff in Hn as [Ho _].
      destruct n as [o d v r a i sh sb]. cbn in Ed, Ho. subst d. cbn [below_min andb].
      assert (E : match (match v with Some x => Some x | None => Some s end) with Some nv => nv <? smin | None => false end = true).
      { destruct v as [x|]; cbn in Ho; [apply Z.eqb_eq in Ho; subst x|]; apply Z.ltb_lt; lia. }
      rewrite E. reflexivity.
    - cbn in Hex. rewrite (IH Hlt Hrest Hex). apply orb_true_r.
  Qed.

  (* the exhaustive statement over all (s, t): function-free model (as after the inlining of the public entry) with at
     least one default-domain node, consistent at s; request outside smin <= s <= t <= smax => exception, model untouched *)
  Theorem native2_unsupported_unchanged : forall own refuse fuel s t M,
    consistent_at s M = true -> m_funcs M = [] -> existsb n_dflt (m_graph M) = true ->
    unsupported smin smax s t = true ->
    exists e, convert_native2 own refuse true adapt smin smax fuel M t = MRaised e M [].
  Proof.
    intros own refuse fuel s t M Hc Hf Hex Hu. unfold convert_native2.
    destruct ((t >? smax) || (t <? smin)) eqn:Er; [eauto|].
    apply orb_false_iff in Er as [Er1 Er2].
    rewrite (default_version_consistent s M Hc), Hf. cbn [versions_of existsb orb].
    assert (Hg : forallb (at_version s) (m_graph M) = true) by (apply consistent_at_inv in Hc; tauto).
    unfold unsupported in Hu. rewrite Er1, Er2 in Hu. cbn in Hu.
    destruct (s <? smin) eqn:Es.
    - apply Z.ltb_lt in Es. rewrite (below_min_exists s _ Es Hg Hex). rewrite !orb_false_r, orb_true_r. eauto.
    - cbn in Hu. apply Z.ltb_lt in Hu.
      destruct (_ || _); [eauto|].
      destruct (conv_downgrade_aborts s t fuel (m_graph M) Hu Hg Hex) as (e & ->).
      exists e. destruct M; cbn in *. now subst.
  Qed.
End Unsupported.

(* without the pre-check: a model at opset 11 (below the supported minimum) is "converted" to 18 by stamping *)
Definition w_below_min : model := Model (Some 11) None [Node "Squeeze" true None false [("axes"%string, AInts [0])] [true] [] []] [].
Lemma below_min_refuted : forall fx own refuse, exists M',
  unsupported supported_min supported_max 11 18 = true /\ consistent_at 11 w_below_min = true /\
  convert_native2 own refuse false (std_adapt fx) supported_min supported_max big_fuel w_below_min 18 = MDone M' [] /\
  m_decl M' = Some 18 /\ map n_attrs (m_graph M') = [[("axes"%string, AInts [0])]].
Proof. intros [[] []] [] []; eexists; vm_compute; repeat split; reflexivity. Qed.

Lemma below_min_fixed_example : forall fx own refuse,
  convert_native2 own refuse true (std_adapt fx) supported_min supported_max big_fuel w_below_min 18 = MRaised ERefused w_below_min [] /\
  existsb n_dflt (m_graph w_below_min) = true.
Proof. intros [[] []] [] []; vm_compute; split; reflexivity. Qed.
