(* Structural well-formedness of ONNX graphs as an executable checker (DESIGN 3.3, used as a
   verified checker on the implementation's real protos by C02, C04, C07, C18).
   The checker threads the list of all names defined so far anywhere in the model (`seen`) and
   the names visible at the current point (`vis`).  No proofs in this file. *)
From Coq Require Import List String Bool.
Require Import OV.Graph.Syntax.
Import ListNotations.
Local Open Scope list_scope.

(* add definitions one by one; fail on a name that was already defined anywhere *)
Fixpoint add_defs (xs : list vname) (seen : list vname) : option (list vname) :=
  match xs with
  | [] => Some seen
  | x :: t => if mem x seen then None else add_defs t (x :: seen)
  end.

Definition all_in (xs vis : list vname) : bool := forallb (fun x => mem x vis) xs.

(* initializers that are not also declared as inputs *)
Definition pure_inits (ins inits : list vname) : list vname := filter (fun x => negb (mem x ins)) inits.

(* check_graph fuel sub vis seen g = Some seen'  when g is well-formed in a context where `vis` is
   visible from enclosing graphs and `seen` has been defined so far (anywhere).
   sub = true for a subgraph: its outputs must be produced inside it (not captured, not an input). *)
Fixpoint check_graph (fuel : nat) (sub : bool) (vis seen : list vname) (g : graph) {struct fuel}
  : option (list vname) :=
  match fuel with
  | O => None
  | S f =>
    let 'Graph ins inits nodes outs := g in
    if negb (nodupb inits) then None else
    match add_defs (ins ++ pure_inits ins inits) seen with
    | None => None
    | Some seen0 =>
      let local0 := ins ++ pure_inits ins inits in
      let fix go (ns : list node) (local seen : list vname) {struct ns} : option (list vname * list vname) :=
        match ns with
        | [] => Some (local, seen)
        | Node _ _ nins nouts _ subs :: t =>
          if negb (all_in (present nins) (local ++ vis)) then None else
          let fix gosubs (l : list (string * graph)) (seen : list vname) {struct l} : option (list vname) :=
            match l with
            | [] => Some seen
            | (_, sg) :: t' =>
              match check_graph f true (local ++ vis) seen sg with
              | Some seen' => gosubs t' seen'
              | None => None
              end
            end in
          match gosubs subs seen with
          | None => None
          | Some seen1 =>
            match add_defs nouts seen1 with
            | None => None
            | Some seen2 => go t (nouts ++ local) seen2
            end
          end
        end in
      match go nodes local0 seen0 with
      | None => None
      | Some (local, seen') =>
        if negb (nodupb outs) then None
        else if sub then
          (* produced inside: defined by a node of this graph *)
          if all_in outs (flat_map n_outs nodes) then Some seen' else None
        else
          if all_in outs local then Some seen' else None
      end
    end
  end.

Definition wf_graphb (g : graph) : bool :=
  match check_graph (depth_graph g) false [] [] g with Some _ => true | None => false end.

(* the converter's extra rule (C02): no graph input is returned directly *)
Definition no_input_returned (g : graph) : bool :=
  forallb (fun o => negb (mem o (g_ins g))) (g_outs g).

(* every (domain) used by a node, nested ones included, is imported exactly once *)
Fixpoint domains_node (n : node) : list string :=
  let 'Node d _ _ _ _ subs := n in
  d :: (fix go (l : list (string * graph)) : list string :=
          match l with [] => [] | (_, g) :: t => domains_graph g ++ go t end) subs
with domains_graph (g : graph) : list string :=
  let 'Graph _ _ nodes _ := g in
  (fix go (l : list node) : list string :=
     match l with [] => [] | n :: t => domains_node n ++ go t end) nodes.

Definition imports_ok (imports : list string) (g : graph) : bool :=
  nodupb imports && subset (domains_graph g) imports.

(* topological order + scoping only (what onnx.checker requires of an arbitrary model, C04):
   same traversal, identical result: kept as an alias so callers name what they mean *)
Definition topo_scopedb := wf_graphb.
