(* C06 -- helpers for the correspondence check: compare what the real matcher returned on a case with
   the model (under each of the four settings of the merge flags), with the model's output nodes, and
   check the sigma found by the independent spec evaluation with `instanceb`.  No proofs. *)
From Coq Require Import List ZArith NArith String Bool Arith.
Require Import OV.Match.Pattern OV.Match.Matcher OV.Match.Spec.
Import ListNotations.

Inductive obs :=
| ObsOk (b : list (string * bval)) (nodes : list nid) (outs : list bval)
| ObsFail
| ObsErr.

Record case := mkCase {
  c_p : gpat;
  c_roots : list pid;            (* GraphPattern.output_nodes of the real pattern *)
  c_g : hgraph;
  c_root : nid;
  c_rm : bool;                   (* check_nodes_are_removable *)
  c_commute : bool;              (* the rule was expanded with commute() and the variants tried in order *)
  c_obs : obs;
  c_sigma : option sigma         (* an instance found by brute force that explains the observation *)
}.

Definition map_eqb (a b : list (string * bval)) : bool :=
  Nat.eqb (List.length a) (List.length b) &&
  forallb (fun xb => match assoc String.eqb (fst xb) b with Some v => bval_eqb v (snd xb) | None => false end) a.

Definition matched_obs_eqb (m : matched) (o : obs) : bool :=
  match o with
  | ObsOk b n outs => map_eqb (m_b m) b && list_eqb Nat.eqb (m_nodes m) n && list_eqb bval_eqb (m_outs m) outs
  | _ => false
  end.

Definition model_result (fl : flags) (c : case) : res matched :=
  if c_commute c then
    match run_commute fl (c_p c) (c_g c) (c_root c) (c_rm c) with
    | Ok (_, m) => Ok m | Fail => Fail | Err => Err | Soft st => Soft st
    end
  else run fl (c_p c) (c_g c) (c_root c) (c_rm c).

Definition agrees (fl : flags) (c : case) : bool :=
  match model_result fl c, c_obs c with
  | Ok m, o => matched_obs_eqb m o
  | Fail, ObsFail => true
  | Err, ObsErr => true
  | _, _ => false
  end.

Definition b2n (b : bool) (w : N) : N := if b then w else 0%N.

(* bits 0..15: bit k (k = 8*fresh_iter + 4*out_fail + 2*keep_vb + keep_nb) is set when the model under that setting of the flags
   agrees with the observation; bit 0 = as pinned, bit 15 = all repaired *)
Definition flag_settings (a : bool) : list flags :=
  flat_map (fun fi => flat_map (fun o => flat_map (fun v => map (fun n => mkF v n o fi a) [false; true]) [false; true])
                               [false; true]) [false; true].

Fixpoint mask_from (c : case) (fls : list flags) (w : N) : N :=
  match fls with
  | [] => 0%N
  | fl :: t => (b2n (agrees fl c) w + mask_from c t (2 * w))%N
  end.

(* `a` = attr_fix: the 16 settings of the other four flags with the attribute repair (a = true) or without *)
Definition mask_a (a : bool) (c : case) : N :=
  (* the two extreme settings first: when both explain the observation the intermediate ones are not evaluated *)
  if agrees (mkF false false false false a) c && agrees (mkF true true true true a) c then 65535%N
  else mask_from c (flag_settings a) 1%N.
Definition mask (c : case) : N := mask_a true c.
(* the attribute repair can matter only when a scalar constant attribute pattern meets a list attribute of that name *)
Definition attr_sensitive (c : case) : bool := negb (attrs_typed (gp_nodes (c_p c)) (c_g c)).
Definition mask_asread (c : case) : N := if attr_sensitive c then mask_a false c else mask c.

Definition roots_ok (c : case) : bool := list_eqb Nat.eqb (output_nodes (c_p c)) (c_roots c).

Definition subset (a b : list nid) : bool := forallb (fun x => memb Nat.eqb x b) a.

Definition sigma_ok (c : case) : bool :=
  match c_obs c, c_sigma c with
  | ObsOk b nodes outs, Some s =>
      let p := c_p c in
      let cand := map (fun r => match assoc Nat.eqb r (s_n s) with Some n => n | None => 0 end) (c_roots c) in
      instanceb (c_g c) p cand s &&
      match cand with r0 :: _ => Nat.eqb r0 (c_root c) | [] => false end &&
      forallb (fun xb => var_is s (fst xb) (snd xb)) b &&
      subset nodes (image s) && subset (image s) nodes &&
      match spec_outputs (gp_nodes p) s (gp_outs p) with
      | Some o => list_eqb bval_eqb o outs
      | None => false
      end
  | _, _ => true
  end.

Definition code (c : case) : N :=
  (mask c + b2n (negb (roots_ok c)) 65536 + b2n (negb (sigma_ok c)) 131072 +
   (if attr_sensitive c then 262144 + 524288 * mask_asread c else 0))%N.

Fixpoint report (i : nat) (cs : list case) : list (nat * N) :=
  match cs with
  | [] => []
  | c :: t => let k := code c in (if N.eqb k 65535 then [] else [(i, k)]) ++ report (S i) t
  end.
