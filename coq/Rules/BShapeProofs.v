From Coq Require Import ZArith List Bool Lia.
Require Import OV.Rules.BShape.
Import ListNotations.
Local Open Scope Z_scope.

Lemma brev_nil_r : forall a, brev a [] = Some a.
Proof. destruct a; reflexivity. Qed.

Lemma bcast_scalar_r : forall xs, bcast xs [] = Some xs.
Proof. intro xs. unfold bcast. cbn [rev]. rewrite brev_nil_r. cbn. now rewrite rev_involutive. Qed.

Lemma bcast_scalar_l : forall xs, bcast [] xs = Some xs.
Proof. intro xs. unfold bcast. cbn [rev brev]. cbn. now rewrite rev_involutive. Qed.

Lemma bdim_one_r : forall a, bdim a 1 = Some a.
Proof. intro a. unfold bdim. destruct (a =? 1) eqn:E; [apply Z.eqb_eq in E; subst; reflexivity|reflexivity]. Qed.

Lemma brev_ones : forall a c, all_ones c = true -> (length c <= length a)%nat -> brev a c = Some a.
Proof.
  induction a as [|x a IH]; intros c Hc Hl.
  - destruct c; [reflexivity|cbn in Hl; lia].
  - destruct c as [|y c]; [reflexivity|].
    unfold all_ones in Hc. cbn [forallb] in Hc. apply andb_true_iff in Hc as [Hy Hc]. apply Z.eqb_eq in Hy. subst y.
    cbn [brev]. rewrite bdim_one_r. rewrite IH; auto. cbn [length] in Hl. lia.
Qed.

Lemma all_ones_rev : forall c, all_ones c = true -> all_ones (rev c) = true.
Proof.
  intros c H. unfold all_ones in *. rewrite forallb_forall in *. intros x Hx. apply H. now apply in_rev.
Qed.

(* a constant all of whose dims are 1 and whose rank does not exceed the rank of x never changes the result shape *)
Lemma bcast_ones : forall xs c, all_ones c = true -> (length c <= length xs)%nat -> bcast xs c = Some xs.
Proof.
  intros xs c Hc Hl. unfold bcast. rewrite brev_ones.
  - cbn. now rewrite rev_involutive.
  - now apply all_ones_rev.
  - now rewrite !rev_length.
Qed.

Lemma bcast_all_ones : forall cs xs,
  Forall (fun c => all_ones c = true /\ (length c <= length xs)%nat) cs -> bcast_all xs cs = Some xs.
Proof.
  induction cs as [|c cs IH]; intros xs H; [reflexivity|].
  inversion H as [|? ? [H1 H2] H3]; subst. cbn. rewrite bcast_ones; auto.
Qed.

(* np.size(v) == 1 on a shape with non-negative dims means every dim is 1 *)
Lemma size_nonneg : forall sh, nonneg sh = true -> 0 <= size sh.
Proof.
  induction sh as [|a sh IH]; intro Hn; [cbn; lia|].
  unfold nonneg in Hn. cbn [forallb] in Hn. apply andb_true_iff in Hn as [H1 H2]. apply Z.leb_le in H1.
  specialize (IH H2). change (size (a :: sh)) with (a * size sh). nia.
Qed.

Lemma size_one_all_ones : forall sh, nonneg sh = true -> size sh = 1 -> all_ones sh = true.
Proof.
  induction sh as [|d sh IH]; intros Hn Hs; [reflexivity|].
  pose proof Hn as Hn0.
  unfold nonneg in Hn. cbn [forallb] in Hn. apply andb_true_iff in Hn as [Hd Hn]. apply Z.leb_le in Hd.
  pose proof (size_nonneg sh Hn) as Hp.
  change (size (d :: sh)) with (d * size sh) in Hs.
  assert (d = 1) as -> by (destruct (Z.eq_mul_1 _ _ Hs); lia).
  assert (E : size sh = 1) by lia.
  unfold all_ones. cbn [forallb]. rewrite Z.eqb_refl. cbn [andb]. apply IH; auto.
Qed.

(* ... but a size-1 constant of higher rank than x does change it (Min/Max -> Clip, HardSwish, ... finding) *)
Lemma bcast_size_one_higher_rank_refuted : exists xs c, size c = 1 /\ bcast xs c <> Some xs.
Proof. exists [5], [1; 1]. split; [reflexivity|]. vm_compute. discriminate. Qed.

Lemma bcast_same : forall xs, bcast xs xs = Some xs.
Proof.
  intro xs. unfold bcast.
  assert (H : forall a, brev a a = Some a).
  { induction a as [|x a IH]; [reflexivity|]. cbn. unfold bdim. rewrite Z.eqb_refl. now rewrite IH. }
  rewrite H. cbn. now rewrite rev_involutive.
Qed.
