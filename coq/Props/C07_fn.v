(* C07 property theorems, third file: (1) a call of the function extracted by an as_function rule evaluates like the matched
   nodes in place, so an as_function application satisfies the hypothesis of C07_apply_one_sound without any
   interchangeability assumption; (2) rewriting followed by NameFixPass keeps the graph equivalent and the interface names
   unchanged; (3) a replacement returning existing values for several pattern outputs at once keeps the names of the graph
   outputs.  Statements only, each closed by `exact`; Print Assumptions beneath.
   Models: OV.Rewrite.FnCall (call_of, fn_graph, extract_okb), OV.Rewrite.NameFix (namefix = OV.Builder.Inline.clone_graph with
   the identity on inputs), OV.Rewrite.Naming.  Tie (harness/c07.py): extract_okb and the shape of the call node are evaluated
   inside fn_okb on every as_function splice of the real rewriter that copies no constant; namefix_okb and
   `namefix (rn_of pairs) token-graph = final-name graph` on the containers observed right after NameFixPass.
   Not covered: extracted functions with copied constants (a Constant node per constant input that is not a call input: the
   value of the constant in the caller is not expressible for arbitrary environments; the state model checks the body
   shape only); call inputs that are None; NameFixPass renaming graph / subgraph inputs or initializers (never on the
   generated hosts: their token is their name). *)
From Coq Require Import List String ZArith Bool.
Require Import OV.Graph.Syntax OV.Graph.Sem OV.Graph.Names OV.Graph.SemProofs.
Require Import OV.Rewrite.Apply OV.Rewrite.ApplyProofs OV.Rewrite.PassProofs.
Require Import OV.Rewrite.FnCall OV.Rewrite.FnCallProofs OV.Rewrite.NameFix OV.Rewrite.NameFixProofs.
Require Import OV.Rewrite.State OV.Rewrite.Naming OV.Rewrite.NamingProofs OV.Rewrite.NamingMultiProofs.
Import ListNotations.

(* in one environment: the call node (formals = the call inputs ins, body = the matched nodes M, outputs = the pattern outputs)
   binds to couts exactly the values the matched nodes give the pattern outputs; it fails when they fail.  Kernel hypothesis:
   `sem` interprets the call by the body of the function, evaluated with no outer scope (as C18_inline_eq_call_node) *)
Theorem C07_call_eq_matched :
  forall V sem truth trip of_nat of_bool limit ev f dom op attrs ins M outs couts (e : list (vname * V)) vs,
    (forall ws, sem dom op attrs (map Some ws)
                = eval_graph V sem truth trip of_nat of_bool limit (S f) [] (fn_graph ins M outs) ws) ->
    is_if dom op = false -> is_loop dom op = false ->
    forallb plain M = true -> closed_in ins M = true -> subset outs (defs_nodes M ++ ins) = true ->
    lookups e ins = Some vs ->
    eval_node V sem truth trip of_nat of_bool limit ev e (call_of dom op attrs ins couts) =
    match run V sem truth trip of_nat of_bool limit ev e M with
    | Some e1 => match lookups e1 outs with Some rs => bind couts rs e | None => None end
    | None => None
    end.
Proof. exact call_eq_matched. Qed.
Print Assumptions C07_call_eq_matched.

(* for every environment: the call node is interchangeable with the matched segment up to the intermediates of the match *)
Theorem C07_call_seg_equiv :
  forall V sem truth trip of_nat of_bool limit f dom op attrs ins M outs X,
    (forall ws, sem dom op attrs (map Some ws)
                = eval_graph V sem truth trip of_nat of_bool limit (S f) [] (fn_graph ins M outs) ws) ->
    extract_okb dom op ins M outs = true ->
    (forall x, In x (defs_nodes M) -> ~ In x outs -> In x X) ->
    forall ev, seg_equiv V sem truth trip of_nat of_bool limit X ev M [call_of dom op attrs ins outs].
Proof. exact call_seg_equiv. Qed.
Print Assumptions C07_call_seg_equiv.

(* hence an as_function application is a sound application: only executable conditions and the kernel hypothesis remain *)
Theorem C07_as_function_app_sound :
  forall V sem truth trip of_nat of_bool limit f dom op attrs ins pouts a ns outs X,
    let M := sel (a_mask a) (firstn (List.length (a_mask a)) ns) in
    (forall ws, sem dom op attrs (map Some ws)
                = eval_graph V sem truth trip of_nat of_bool limit (S f) [] (fn_graph ins M pouts) ws) ->
    a_remove a = true -> a_new a = [call_of dom op attrs ins pouts] ->
    side_okb a ns outs X = true -> extract_okb dom op ins M pouts = true ->
    (forall x, In x (defs_nodes M) -> ~ In x pouts -> In x X) ->
    app_sound_at V sem truth trip of_nat of_bool limit ns outs a X.
Proof. exact as_function_app_sound. Qed.
Print Assumptions C07_as_function_app_sound.

(* hypotheses satisfiable: Neg(Abs(x)) extracted; the executable conditions hold *)
Theorem C07_extract_example :
  (extract_okb "verif.fn" "NegAbs:1" ["x"]
     [Node "" "Abs" [Some "x"] ["a"] [] []; Node "" "Neg" [Some "a"] ["o"] [] []] ["o"])%string = true.
Proof. exact (eq_refl true). Qed.
Print Assumptions C07_extract_example.

(* ---- NameFixPass ------------------------------------------------------------------------------------------------------ *)
Theorem C07_namefix_sound :
  forall V sem truth trip of_nat of_bool limit rn vis g, namefix_okb rn vis g = true ->
    (forall fuel e args, eval_graph V sem truth trip of_nat of_bool limit fuel e g args
                         = eval_graph V sem truth trip of_nat of_bool limit fuel e (namefix rn g) args) /\
    g_ins (namefix rn g) = g_ins g /\ g_inits (namefix rn g) = g_inits g /\ g_outs (namefix rn g) = g_outs g.
Proof. exact namefix_sound. Qed.
Print Assumptions C07_namefix_sound.

(* rewrite (one application at any nesting level), then NameFix: equivalent for every input, interface names unchanged *)
Theorem C07_rewrite_then_namefix_sound :
  forall V sem truth trip of_nat of_bool limit p a X g g' rn vis,
    apply_at p a g = Some g' -> ok_at V sem truth trip of_nat of_bool limit p a X g ->
    namefix_okb rn vis g' = true ->
    (forall fuel outer args, eval_graph V sem truth trip of_nat of_bool limit fuel outer g args
                             = eval_graph V sem truth trip of_nat of_bool limit fuel outer (namefix rn g') args) /\
    g_ins (namefix rn g') = g_ins g /\ g_inits (namefix rn g') = g_inits g /\ g_outs (namefix rn g') = g_outs g.
Proof. exact rewrite_then_namefix_sound. Qed.
Print Assumptions C07_rewrite_then_namefix_sound.

Theorem C07_pass_then_namefix_sound :
  forall V sem truth trip of_nat of_bool limit l g g' rn vis,
    apply_pass (map fst l) g = Some g' -> pass_ok V sem truth trip of_nat of_bool limit l g ->
    namefix_okb rn vis g' = true ->
    forall fuel outer args, eval_graph V sem truth trip of_nat of_bool limit fuel outer g args
                            = eval_graph V sem truth trip of_nat of_bool limit fuel outer (namefix rn g') args.
Proof. exact pass_then_namefix_sound. Qed.
Print Assumptions C07_pass_then_namefix_sound.

(* ---- several pattern outputs at once (repaired splice) ------------------------------------------------------------------- *)
Theorem C07_returned_value_fixed_output_names : forall created pinned olds news vs outs fresh r,
  splice_names true created pinned false olds news vs outs fresh = Some r ->
  List.length olds = List.length news -> NoDup news -> (forall n, In n news -> n < fresh) ->
  (forall y, In y outs -> In y pinned /\ ~ In y created /\ y < fresh) ->
  names_of_objects (snd (fst (fst r))) (fst (fst (fst r))) = names_of_objects outs vs.
Proof. exact returned_value_fixed_output_names. Qed.
Print Assumptions C07_returned_value_fixed_output_names.
