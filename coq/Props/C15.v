(* C15 property theorems: statements only, each closed by `exact`, Print Assumptions beneath.
   Wrappers: Serde/Wrappers.v (disciplines regenerated from the source into Gen/C15Wrappers.v); ser/deser/pass are
   arbitrary functions (Section variables) -- the laws a theorem needs are its hypotheses.  The 2400-line
   onnx_ir.serde implementation itself is measured by the harness (byte equality, inclusion checker below), not proved. *)
From Coq Require Import ZArith List Bool String.
Require Import OV.Serde.Wrappers OV.Serde.WrappersProofs OV.Gen.C15Wrappers.
Require Import OV.Serde.Forward OV.Serde.ForwardProofs.
Require Import OV.Serde.Tree OV.Serde.TreeProofs OV.Serde.Packing OV.Serde.PackingProofs.
Import ListNotations.

(* proto(f) M = serialize (ir(f) (deserialize M)) for optimize, fold_constants, remove_unused_nodes,
   remove_unused_functions, rewrite (non-empty rules), replace_functions -- with the copy-back each has in the source *)
Theorem C15_wrappers_alike : forall (G Fs O R IR : Type) (no_funcs : Fs) (ser : IR -> proto G Fs O R) (deser : proto G Fs O R -> IR) w,
  In w [src_optimize; src_fold_constants; src_remove_unused_nodes; src_remove_unused_functions; src_rewrite; src_replace_functions] ->
  forall other r f M, result_of _ _ _ _ (run_proto G Fs O R no_funcs IR ser deser w other f M)
                      = ser (iarg_after IR (run_ir IR r f (deser M))).
Proof. exact src_alike. Qed.
Print Assumptions C15_wrappers_alike.

(* ---- same pass, same options in both entry forms.  Gen/C15Wrappers.v holds, per wrapper and per branch, the pass calls
   read from the source (callee, constructor arguments, positional arguments, the full keyword -> expression map,
   *args / **kwargs).  Every wrapper of the source passes the decision procedure ... *)
Theorem C15_forwarding_same_in_source : forallb forwarding_ok src_fw_all = true.
Proof. exact src_forwarding_ok. Qed.
Print Assumptions C15_forwarding_same_in_source.

(* ... which accepts exactly when the two branches make the same non-empty sequence of calls on the model ... *)
Theorem C15_forwarding_ok_iff : forall w,
  forwarding_ok w = true <-> (w_ir w = w_proto w /\ w_proto w <> [] /\ forallb takes_model (w_proto w) = true).
Proof. exact forwarding_ok_iff. Qed.
Print Assumptions C15_forwarding_ok_iff.

(* ... so that both branches apply the same IR transformation for every value of every option (env), whatever the callees
   (sem) and the argument expressions (ex) mean *)
Theorem C15_forwarding_same_transformation : forall w, In w src_fw_all ->
  forall (IR V : Type) (env : string -> V) ex (sem : string -> option (eargs V) -> eargs V -> IR -> IR) m,
    run_calls IR V env ex sem (w_proto w) m = run_calls IR V env ex sem (w_ir w) m.
Proof. exact src_forwarding_same. Qed.
Print Assumptions C15_forwarding_same_transformation.

(* proto(f) M = serialize (ir(f) (deserialize M)) with the transformation of each entry form taken from the source
   (pass calls + forwarded options) instead of assumed to be the same f: optimize, fold_constants, remove_unused_nodes,
   remove_unused_functions, rewrite, replace_functions *)
Theorem C15_wrappers_alike_with_options : forall wd, In wd src_fw_total ->
  forall (G Fs O R IR V : Type) (no_funcs : Fs) (ser : IR -> proto G Fs O R) (deser : proto G Fs O R -> IR)
         (env : string -> V) ex (sem : string -> option (eargs V) -> eargs V -> IR -> IR) other r M,
    result_of _ _ _ _ (run_proto G Fs O R no_funcs IR ser deser (snd wd) other (run_calls IR V env ex sem (w_proto (fst wd))) M)
    = ser (iarg_after IR (run_ir IR r (run_calls IR V env ex sem (w_ir (fst wd))) (deser M))).
Proof. exact src_alike_with_options. Qed.
Print Assumptions C15_wrappers_alike_with_options.

(* convert_version, same with its fields-only copy-back (hypothesis decided by computation on the regenerated discipline:
   true for the source as it is now, see C15_convert_version_current_source) and the two laws of C15_convert_version_* *)
Theorem C15_convert_version_alike_with_options :
  copies_enough src_convert_version = true ->
  forall (G Fs O R IR V : Type) (no_funcs : Fs) (ser : IR -> proto G Fs O R) (deser : proto G Fs O R -> IR)
         (env : string -> V) ex (sem : string -> option (eargs V) -> eargs V -> IR -> IR) M,
    N G Fs O R IR ser deser M = M ->
    (forall m, p_rest _ _ _ _ (ser (run_calls IR V env ex sem (w_proto src_fw_convert_version) m)) = p_rest _ _ _ _ (ser m)) ->
    result_of _ _ _ _ (run_proto G Fs O R no_funcs IR ser deser src_convert_version false
                         (run_calls IR V env ex sem (w_proto src_fw_convert_version)) M)
    = ser (run_calls IR V env ex sem (w_ir src_fw_convert_version) (deser M)).
Proof. exact src_convert_version_with_options. Qed.
Print Assumptions C15_convert_version_alike_with_options.

(* optimize / rewrite / replace_functions leave their ModelProto argument unchanged and return a new proto *)
Theorem C15_functional_variants_pure : forall (G Fs O R IR : Type) (no_funcs : Fs) (ser : IR -> proto G Fs O R) (deser : proto G Fs O R -> IR) w,
  In w [src_optimize; src_rewrite; src_replace_functions] ->
  forall other f M, arg_after _ _ _ _ (run_proto G Fs O R no_funcs IR ser deser w other f M) = M /\
                    returned _ _ _ _ (run_proto G Fs O R no_funcs IR ser deser w other f M) = RetNew (ser (f (deser M))).
Proof. exact src_functional_pure. Qed.
Print Assumptions C15_functional_variants_pure.

(* fold_constants / remove_unused_nodes / remove_unused_functions overwrite the proto they were given *)
Theorem C15_inplace_variants_mutate : forall (G Fs O R IR : Type) (no_funcs : Fs) (ser : IR -> proto G Fs O R) (deser : proto G Fs O R -> IR) w,
  In w [src_fold_constants; src_remove_unused_nodes; src_remove_unused_functions] ->
  forall other f M, arg_after _ _ _ _ (run_proto G Fs O R no_funcs IR ser deser w other f M) = ser (f (deser M)) /\
                    returned _ _ _ _ (run_proto G Fs O R no_funcs IR ser deser w other f M) = (if other then RetOther else RetNone).
Proof. exact src_inplace_mutates. Qed.
Print Assumptions C15_inplace_variants_mutate.

Theorem C15_convert_version_inplace : forall (G Fs O R IR : Type) (no_funcs : Fs) (ser : IR -> proto G Fs O R) (deser : proto G Fs O R -> IR) other f M,
  p_graph _ _ _ _ (arg_after _ _ _ _ (run_proto G Fs O R no_funcs IR ser deser src_convert_version other f M))
    = p_graph _ _ _ _ (ser (f (deser M))) /\
  returned _ _ _ _ (run_proto G Fs O R no_funcs IR ser deser src_convert_version other f M) = (if other then RetOther else RetNone).
Proof. exact src_convert_version_inplace. Qed.
Print Assumptions C15_convert_version_inplace.

(* the IR forms mutate the ir.Model they are given *)
Theorem C15_ir_form_mutates : forall (IR : Type) r (f : IR -> IR) m,
  iarg_after IR (run_ir IR r f m) = f m /\ ireturned IR (run_ir IR r f m) = r.
Proof. exact ir_form_mutates. Qed.
Print Assumptions C15_ir_form_mutates.

(* rewrite(model, []) hands the argument back in both forms; alike up to N = serialize o deserialize *)
Theorem C15_rewrite_empty_rules : forall (G Fs O R IR : Type) (ser : IR -> proto G Fs O R) (deser : proto G Fs O R -> IR) M,
  returned _ _ _ _ (run_empty_rules G Fs O R M) = RetArg /\ result_of _ _ _ _ (run_empty_rules G Fs O R M) = M /\
  N G Fs O R IR ser deser (result_of _ _ _ _ (run_empty_rules G Fs O R M)) = ser (iarg_after IR (run_ir_empty_rules IR (deser M))).
Proof. exact empty_rules_alike. Qed.
Print Assumptions C15_rewrite_empty_rules.

(* convert_version(ModelProto): fields-only copy-back is alike exactly when nothing that changed is left behind *)
Theorem C15_convert_version_alike_iff : forall (G Fs O R IR : Type) (no_funcs : Fs) (ser : IR -> proto G Fs O R) (deser : proto G Fs O R -> IR)
  cf co other f M,
  result_of _ _ _ _ (run_proto G Fs O R no_funcs IR ser deser (FieldsOnly cf co) other f M) = ser (f (deser M)) <->
  (p_rest _ _ _ _ M = p_rest _ _ _ _ (ser (f (deser M))) /\
   (co = true \/ p_opset _ _ _ _ M = p_opset _ _ _ _ (ser (f (deser M)))) /\
   (cf = true \/ no_funcs = p_funcs _ _ _ _ (ser (f (deser M))))).
Proof. exact fields_only_alike_iff. Qed.
Print Assumptions C15_convert_version_alike_iff.

(* for the copy-back the source has now: the alike statement (normalised input, pass leaves the other fields alone)
   holds if graph, functions and opset_import are all copied back, and is refuted otherwise *)
Theorem C15_convert_version_current_source : cv_statement src_convert_version.
Proof. exact src_convert_version_statement. Qed.
Print Assumptions C15_convert_version_current_source.

Theorem C15_convert_version_all_copybacks : forall w, cv_statement w.
Proof. exact cv_statement_holds. Qed.
Print Assumptions C15_convert_version_all_copybacks.

(* the inclusion checker run on (M, N(M)) and on (untouched part of N(M), f(M)): every populated field reappears
   at the same place with the same value; ordered lists keep their length; keyed containers keep their keys *)
Theorem C15_includes_sound : forall a b, includes a b = true ->
  forall p v, get a p = Some (Leaf v) -> get b p = Some (Leaf v).
Proof. exact includes_sound. Qed.
Print Assumptions C15_includes_sound.

Theorem C15_includes_seq_length : forall a b, includes a b = true ->
  forall p l, get a p = Some (Seq l) -> exists l', get b p = Some (Seq l') /\ List.length l' = List.length l.
Proof. exact includes_seq_length. Qed.
Print Assumptions C15_includes_seq_length.

Theorem C15_includes_keys : forall a b, includes a b = true ->
  forall p fs k c, get a p = Some (Node fs) -> lookup k fs = Some c ->
  exists fs' c', get b p = Some (Node fs') /\ lookup k fs' = Some c'.
Proof. exact includes_keys. Qed.
Print Assumptions C15_includes_keys.

(* the checker is sound AND complete for the tree encoding: on well-keyed trees (no container lists a key twice -- checked
   by `wkb` on every tree the harness builds) it accepts exactly when, at every path where a has something, b has the
   same scalar / bytes value, a keyed container, or an ordered list of the same length *)
Theorem C15_includes_sound_and_complete : forall a b, wkb a = true -> (includes a b = true <-> Included a b).
Proof. exact includes_iff_Included. Qed.
Print Assumptions C15_includes_sound_and_complete.

(* soundness needs no side condition *)
Theorem C15_includes_Included : forall a b, includes a b = true -> Included a b.
Proof. exact includes_Included. Qed.
Print Assumptions C15_includes_Included.

(* int4 / uint4 two-per-byte packing: unpack n (pack l) = l for every length incl. odd and 0 *)
Open Scope Z_scope.
Theorem C15_pack_unpack_uint4 : forall l, Forall (fun e => 0 <= e < 16) l -> unpack4 (List.length l) (pack4 l) = l.
Proof. exact unpack4_pack4. Qed.
Print Assumptions C15_pack_unpack_uint4.

Theorem C15_pack_unpack_int4 : forall l, Forall (fun e => -8 <= e <= 7) l ->
  map sext4 (unpack4 (List.length l) (pack4 l)) = l.
Proof. exact unpack4_pack4_signed. Qed.
Print Assumptions C15_pack_unpack_int4.

Theorem C15_pack4_shape : forall l,
  List.length (pack4 l) = Nat.div2 (S (List.length l)) /\ Forall (fun b => 0 <= b < 256) (pack4 l).
Proof. exact (fun l => conj (pack4_length l) (pack4_bytes l)). Qed.
Print Assumptions C15_pack4_shape.

Theorem C15_pack4_padding_zero : forall l, Nat.odd (List.length l) = true -> last (pack4 l) 0 / 16 = 0.
Proof. exact pack4_padding_zero. Qed.
Print Assumptions C15_pack4_padding_zero.

(* int2 / uint2 four-per-byte packing *)
Theorem C15_pack_unpack_uint2 : forall l, Forall (fun e => 0 <= e < 4) l -> unpack2 (List.length l) (pack2 l) = l.
Proof. exact unpack2_pack2. Qed.
Print Assumptions C15_pack_unpack_uint2.

Theorem C15_pack_unpack_int2 : forall l, Forall (fun e => -2 <= e <= 1) l ->
  map sext2 (unpack2 (List.length l) (pack2 l)) = l.
Proof. exact unpack2_pack2_signed. Qed.
Print Assumptions C15_pack_unpack_int2.

(* FLOAT4E2M1 uses the 4-bit codec on its bit patterns (C15_pack_unpack_uint4).  16-bit element types (BFLOAT16, FLOAT16,
   INT16, UINT16): little-endian byte pairs, both directions, every length *)
Theorem C15_bytes16_roundtrip : forall l, Forall (fun e => 0 <= e < 65536) l ->
  dec16 (enc16 l) = l /\ List.length (enc16 l) = (2 * List.length l)%nat /\ Forall (fun b => 0 <= b < 256) (enc16 l).
Proof. exact (fun l H => conj (dec16_enc16 l H) (conj (enc16_length l) (enc16_bytes l))). Qed.
Print Assumptions C15_bytes16_roundtrip.

Theorem C15_bytes16_roundtrip_inverse : forall n bs, List.length bs = (2 * n)%nat -> Forall (fun b => 0 <= b < 256) bs ->
  enc16 (dec16 bs) = bs.
Proof. exact enc16_dec16. Qed.
Print Assumptions C15_bytes16_roundtrip_inverse.

(* 8-bit element types (the five float8 variants, INT8, UINT8, BOOL): the payload is the bit patterns *)
Theorem C15_bytes8_roundtrip : forall l, Forall (fun e => 0 <= e < 256) l -> dec8 (enc8 l) = l.
Proof. exact dec8_enc8. Qed.
Print Assumptions C15_bytes8_roundtrip.

(* the int32_data carrier of TensorProto: bit patterns come back unchanged (16-bit, 8-bit, packed 4-bit) *)
Theorem C15_int32_carrier16 : forall l, Forall (fun e => 0 <= e < 65536) l ->
  int32_to_bytes16 l = enc16 l /\ int32_to_elems16 l = l /\ dec16 (int32_to_bytes16 l) = l.
Proof. exact int32_carrier16. Qed.
Print Assumptions C15_int32_carrier16.

Theorem C15_int32_carrier8 : forall l, Forall (fun e => 0 <= e < 256) l -> int32_to_bytes8 l = l /\ int32_to_elems8 l = l.
Proof. exact int32_carrier8. Qed.
Print Assumptions C15_int32_carrier8.

Theorem C15_int32_carrier_packed4 : forall l, Forall (fun e => 0 <= e < 16) l ->
  unpack4 (List.length l) (int32_to_bytes8 (pack4 l)) = l.
Proof. exact int32_carrier_packed4. Qed.
Print Assumptions C15_int32_carrier_packed4.
