(* C06 -- commute(): the variants produced by the model's swap expansion are exactly the patterns obtained by
   swapping the operands of any subset of the commutative binary nodes, and matching the commuted rule set
   = matching the first variant (in that order) that matches. *)
From Coq Require Import List ZArith String Bool Arith Lia.
Require Import OV.Match.Pattern OV.Match.Matcher OV.Match.Spec.
Import ListNotations.

(* a choice of swaps is admissible when only commutative (binary) nodes are swapped *)
Definition admissible (nodes : list npat) (sw : list bool) : Prop :=
  Forall2 (fun np b => b = true -> is_commutative np = true) nodes sw.

(* the pattern with the chosen nodes swapped (NodePattern.clone for every node as soon as one is swapped) *)
Definition variant (p : gpat) (sw : list bool) : option gpat :=
  if existsb (fun b => b) sw
  then option_map (fun ns => mkGP ns (gp_inputs p) (gp_outs p)) (apply_swaps (gp_nodes p) sw)
  else Some p.

Lemma swap_lists_spec : forall nodes sw, In sw (swap_lists nodes) <-> admissible nodes sw.
Proof.
  unfold admissible. induction nodes as [| np t IH]; intros sw; simpl.
  - split.
    + intros [H|[]]; subst. constructor.
    + intro H; inversion H; auto.
  - split.
    + intro H. apply in_app_or in H as [H|H].
      * apply in_map_iff in H as (r & E & I); subst. constructor; [discriminate | apply IH; auto].
      * destruct (is_commutative np) eqn:C; [|contradiction].
        apply in_map_iff in H as (r & E & I); subst. constructor; [auto | apply IH; auto].
    + intro H. inversion H as [| ? b ? r Hb Hr]; subst. apply in_or_app. destruct b.
      * right. rewrite (Hb eq_refl). apply in_map. apply IH; auto.
      * left. apply in_map. apply IH; auto.
Qed.

Lemma swap_node_commutative : forall np, is_commutative np = true -> swap_node np <> None.
Proof.
  unfold is_commutative, swap_node; intros np H. destruct (np_opid np) as [[d o]|]; try discriminate.
  apply andb_true_iff in H as [_ H]. apply Nat.eqb_eq in H.
  destruct (np_ins np) as [| a [| b [| c t]]]; simpl in H; try discriminate.
Qed.

Lemma apply_swaps_admissible : forall nodes sw, admissible nodes sw -> apply_swaps nodes sw <> None.
Proof.
  unfold admissible; intros nodes sw H. induction H as [| np b t r Hb Hr IH]; simpl; try discriminate.
  destruct b.
  - destruct (swap_node np) eqn:S; [| exfalso; eapply swap_node_commutative; eauto].
    destruct (apply_swaps t r); [discriminate | contradiction].
  - destruct (apply_swaps t r); [discriminate | contradiction].
Qed.

Lemma variant_admissible : forall p sw, admissible (gp_nodes p) sw -> variant p sw <> None.
Proof.
  unfold variant; intros p sw H. destruct (existsb (fun b => b) sw); try discriminate.
  destruct (apply_swaps (gp_nodes p) sw) eqn:A; simpl; try discriminate.
  exfalso; eapply apply_swaps_admissible; eauto.
Qed.

(* commute() never fails in the model, and returns the variants of the admissible swap choices, in order *)
Theorem commute_spec : forall p, exists ps,
  commute p = Ok ps /\ map Some ps = map (variant p) (swap_lists (gp_nodes p)).
Proof.
  intro p. unfold commute.
  assert (A : forall sw, In sw (swap_lists (gp_nodes p)) -> variant p sw <> None).
  { intros sw I. apply variant_admissible. apply swap_lists_spec; auto. }
  revert A. generalize (swap_lists (gp_nodes p)). induction l as [| sw t IH]; intros A.
  - exists []; auto.
  - destruct (IH (fun s I => A s (or_intror I))) as (ps & G & M).
    assert (V := A sw (or_introl eq_refl)).
    cbn [map]. rewrite G.
    destruct (variant p sw) as [v|] eqn:Ev; [|congruence].
    exists (v :: ps). split.
    + unfold variant in Ev. destruct (existsb (fun b : bool => b) sw).
      * destruct (apply_swaps (gp_nodes p) sw) as [ns|]; simpl in Ev; inversion Ev; subst; reflexivity.
      * inversion Ev; subst. destruct v; reflexivity.
    + simpl. rewrite M; auto.
Qed.

(* hence: v is one of the rules of the commuted rule set iff it is the variant of an admissible choice *)
Corollary commute_variants : forall p ps, commute p = Ok ps ->
  forall v, In v ps <-> exists sw, admissible (gp_nodes p) sw /\ variant p sw = Some v.
Proof.
  intros p ps C v. destruct (commute_spec p) as (ps' & C' & M). rewrite C in C'; inversion C'; subst ps'.
  split.
  - intro I. assert (I' : In (Some v) (map Some ps)) by (apply in_map; auto). rewrite M in I'.
    apply in_map_iff in I' as (sw & E & Isw). exists sw; split; auto. apply swap_lists_spec; auto.
  - intros (sw & A & E). apply swap_lists_spec in A.
    assert (I' : In (Some v) (map (variant p) (swap_lists (gp_nodes p)))) by (rewrite <- E; apply in_map; auto).
    rewrite <- M in I'. apply in_map_iff in I' as (v' & E' & I''). inversion E'; subst; auto.
Qed.

(* matching with the commuted rule set *)
Lemma first_variant_ok : forall fl g root rm ps i0 i m,
  first_variant fl ps i0 g root rm = Ok (i, m) ->
  exists k v, i = i0 + k /\ nth_error ps k = Some v /\ run fl v g root rm = Ok m /\
    forall j w, j < k -> nth_error ps j = Some w -> run fl w g root rm = Fail.
Proof.
  induction ps as [| v t IH]; intros i0 i m H; simpl in H; try discriminate.
  destruct (run fl v g root rm) as [m'| | |s] eqn:R; try discriminate.
  - inversion H; subst. exists 0, v. repeat split; auto; try lia.
  - destruct (IH _ _ _ H) as (k & w & E & N & Rw & Before). exists (S k), w. repeat split; auto; try lia.
    intros j w' Lj Nj. destruct j; simpl in Nj.
    + inversion Nj; subst; auto.
    + eapply Before; eauto; lia.
Qed.

Lemma first_variant_fail : forall fl g root rm ps i0,
  first_variant fl ps i0 g root rm = Fail <-> forall v, In v ps -> run fl v g root rm = Fail.
Proof.
  induction ps as [| v t IH]; intros i0; simpl.
  - split; auto. intros _ v [].
  - destruct (run fl v g root rm) as [m'| | |s] eqn:R.
    + split; [discriminate|]. intro H. rewrite (H v (or_introl eq_refl)) in R. discriminate.
    + rewrite IH. split.
      * intros H w [E|I]; subst; auto.
      * intros H w I. apply H; right; auto.
    + split; [discriminate|]. intro H. rewrite (H v (or_introl eq_refl)) in R. discriminate.
    + split; [discriminate|]. intro H. rewrite (H v (or_introl eq_refl)) in R. discriminate.
Qed.

(* a match of the commuted rule set is a match of the variant of an admissible swap choice -- the first one,
   in the order of the rule set -- and no match is reported exactly when no variant matches *)
Theorem commute_closure : forall fl p g root rm,
  (forall i m, run_commute fl p g root rm = Ok (i, m) ->
     exists sw v, admissible (gp_nodes p) sw /\ variant p sw = Some v /\ run fl v g root rm = Ok m) /\
  (run_commute fl p g root rm = Fail <->
     forall sw v, admissible (gp_nodes p) sw -> variant p sw = Some v -> run fl v g root rm = Fail).
Proof.
  intros fl p g root rm. unfold run_commute. destruct (commute_spec p) as (ps & C & M).
  rewrite C. cbn [rbind]. split.
  - intros i m H. apply first_variant_ok in H as (k & v & _ & N & R & _).
    apply nth_error_In in N. apply (commute_variants p ps C) in N as (sw & A & E). eauto.
  - rewrite first_variant_fail. split.
    + intros H sw v A E. apply H. apply (commute_variants p ps C). eauto.
    + intros H v I. apply (commute_variants p ps C) in I as (sw & A & E). eauto.
Qed.

(* the identity choice is always admissible: the pattern itself is one of the variants *)
Lemma admissible_none : forall nodes, admissible nodes (map (fun _ => false) nodes).
Proof. unfold admissible; induction nodes; simpl; constructor; auto; discriminate. Qed.

Lemma variant_none : forall p, variant p (map (fun _ => false) (gp_nodes p)) = Some p.
Proof.
  intro p. unfold variant.
  assert (E : existsb (fun b : bool => b) (map (fun _ : npat => false) (gp_nodes p)) = false).
  { induction (gp_nodes p); simpl; auto. }
  rewrite E; auto.
Qed.

(* a swapped / copied node pattern keeps its value patterns as they are -- in particular a Constant keeps its value
   and both tolerances (Constant.clone) -- only their order changes; everything else but the op identifier is kept *)
Lemma swap_node_keeps : forall np np', swap_node np = Some np' ->
  np_ins np' = rev (np_ins np) /\ np_op np' = np_op np /\ np_dom np' = np_dom np /\ np_attrs np' = np_attrs np /\
  np_other_attrs np' = np_other_attrs np /\ np_other_ins np' = np_other_ins np /\ np_outs np' = np_outs np.
Proof.
  unfold swap_node; intros np np' H. destruct (np_ins np) as [| a [| b [| c t]]] eqn:E; try discriminate.
  inversion H; subst; simpl. repeat split; auto.
Qed.

Lemma clone_node_keeps : forall np,
  np_ins (clone_node np (np_ins np)) = np_ins np /\ np_op (clone_node np (np_ins np)) = np_op np /\
  np_attrs (clone_node np (np_ins np)) = np_attrs np /\ np_outs (clone_node np (np_ins np)) = np_outs np.
Proof. intro np; repeat split. Qed.
