(* C16 property theorems: statements only, each closed by `exact`, Print Assumptions beneath.
   Model: Registry/Binding.v; proofs: Registry/BindingProofs.v; registry data: Gen/TorchRegistry.v
   (regenerated from the checked tree and the installed PyTorch on every run). *)
From Coq Require Import String List Bool.
Require Import OV.Registry.Binding OV.Registry.BindingProofs OV.Gen.TorchRegistry OV.Registry.BindingRegistry.
Import ListNotations.
Open Scope string_scope.

(* General, for all schemas, signatures and conforming calls: when binds_ok holds, binding the way the
   exporter does succeeds, tensors reach input parameters, non-tensors reach parameters that accept
   them, no required parameter is unbound, only droppable arguments are dropped and every supplied
   argument is accounted for (record binding_good). *)
Theorem C16_binds_ok_sound : forall s f, binds_ok s f = true ->
  forall c, conforms s c -> exists b, bind f c = OK b /\ binding_good s f c b.
Proof. exact binds_ok_sound. Qed.
Print Assumptions C16_binds_ok_sound.

(* hypotheses satisfiable: aten::sum.dim_IntList against aten_sum_dim_IntList, call sum(x, dim, dtype=...) *)
Example C16_binds_ok_sound_inhabited :
  binds_ok ex_schema ex_sig = true /\ conforms ex_schema (mkC 2 ["dtype"]).
Proof. exact (conj ex_binds_ok ex_conforms). Qed.

Theorem C16_traced_never_drops : forall f c b, f_traced f = true -> bind f c = OK b ->
  b_dropped_pos b = [] /\ b_dropped_kw b = [].
Proof. exact traced_never_drops. Qed.
Print Assumptions C16_traced_never_drops.

(* Python's own call binding (TracedOnnxFunction.__call__) succeeds exactly when the signature binder succeeds
   with nothing dropped, and then gives the same binding. *)
Theorem C16_python_call_vs_signature : forall ps c b,
  bind_python ps c = OK b <-> (bind_signature ps c = OK b /\ b_dropped_pos b = [] /\ b_dropped_kw b = []).
Proof. exact python_call_vs_signature. Qed.
Print Assumptions C16_python_call_vs_signature.

(* Names: the accepted names are exactly the regular language of _QUALIFIED_OPERATOR_NAME_REGEX minus
   the strings ending in ".default". *)
Theorem C16_name_ok_spec : forall s, name_ok s = true <-> (in_regex s /\ ~ exists pre, s = (pre ++ ".default")%string).
Proof. exact name_ok_spec. Qed.
Print Assumptions C16_name_ok_spec.

Theorem C16_default_spelling_rejected : forall pre, name_ok (pre ++ ".default")%string = false.
Proof. exact default_spelling_rejected. Qed.
Print Assumptions C16_default_spelling_rejected.

(* Registry: whatever is registered in whatever order, a (name, real/complex) pair resolves to the
   first function registered under it, hence to at most one, and to exactly one once registered. *)
Theorem C16_first_registration_wins : forall (F : Type) (regs : list (F * string * bool)) name cx,
  resolve (register_all regs) name cx = match first_registered regs name cx with Some fn => [fn] | None => [] end.
Proof. exact first_registration_wins. Qed.
Print Assumptions C16_first_registration_wins.

Theorem C16_unique_resolution : forall (F : Type) (regs : list (F * string * bool)) fn name cx,
  In (fn, name, cx) regs -> exists fn', resolve (register_all regs) name cx = [fn'].
Proof. exact registered_resolves. Qed.
Print Assumptions C16_unique_resolution.

(* ---- exhaustive over the regenerated registry (finite domain: vm_compute, in Registry/BindingRegistry.v) ---- *)

(* every registered name is well-formed *)
Theorem C16_registry_names : forallb (fun e => name_ok (e_name e)) all = true.
Proof. exact registry_names. Qed.
Print Assumptions C16_registry_names.

(* get_torchlib_ops returns each (qualified name, real/complex) once *)
Theorem C16_registry_unique : NoDup (map (fun e => (e_name e, e_complex e)) all).
Proof. exact registry_unique. Qed.
Print Assumptions C16_registry_unique.

(* every entry has a schema in the installed PyTorch and binds_ok holds for it -- except the entries
   named by status-known findings (Gen.known_exceptions, generated from known_findings.json) *)
Theorem C16_registry_binds : forallb (fun e => entry_ok e || excepted known_exceptions e) all = true.
Proof. exact registry_binds. Qed.
Print Assumptions C16_registry_binds.

(* ... hence, for each such entry, the conclusion of the general theorem *)
Theorem C16_registry : forall e, In e all -> excepted known_exceptions e = false ->
  exists s, e_schema e = Some s /\
    forall c, conforms s c -> exists b, bind (e_sig e) c = OK b /\ binding_good s (e_sig e) c b.
Proof. exact registry_all_sound. Qed.
Print Assumptions C16_registry.

(* Entries of the pinned tree that do not bind (snapshots; replayed on the real code by the harness). *)
Theorem C16_amax_refuted : exists c, conforms amax_schema c /\ bind amax_sig c = Err (MissingRequired "dim").
Proof. exact amax_refuted. Qed.
Print Assumptions C16_amax_refuted.

Theorem C16_mean_dtype_refuted : exists c b, conforms mean_schema c /\ bind mean_sig c = OK b /\
  In "dtype" (b_dropped_kw b) /\ droppable "dtype" = false.
Proof. exact mean_refuted. Qed.
Print Assumptions C16_mean_dtype_refuted.

Theorem C16_rand_like_refuted : exists c, conforms rand_like_schema c /\
  bind rand_like_sig c = Err (UnexpectedKeyword "memory_format") /\
  exists b, bind_signature (f_params rand_like_sig) c = OK b /\ b_dropped_kw b = ["memory_format"].
Proof. exact rand_like_refuted. Qed.
Print Assumptions C16_rand_like_refuted.
