From Coq Require Import ZArith List Bool Lia.
Require Import OV.Rules.XVal.
Import ListNotations.
Local Open Scope Z_scope.

Ltac xunf := cbv beta iota zeta delta [lhs_clipclip lhs_cliprelu lhs_reluclip rhs clip relu kmax kmin xlt pmax pmin isnan orb
  lo_eff hi_eff clipclip_bounds cliprelu_bounds reluclip_bounds combine fst snd wfx wfo
  safe_clipclip safe_relu not_nan_o mixes is_inf absent andb negb] in *.
Ltac zcases := repeat match goal with
  | |- context [Z.ltb ?a ?b] => destruct (Z.ltb_spec a b)
  end.
Ltac fin := try reflexivity; try discriminate; try (f_equal; lia); try (exfalso; lia).

(* Relu(Relu(x)) = Relu(x) for every extended value *)
Lemma relurelu_x : forall x, relu (relu x) = relu x.
Proof. intros [| |z|]; xunf; zcases; fin. Qed.

Lemma cliprelu_x_sound : forall M lo hi x, 0 < M -> wfx M x -> wfo M lo -> wfo M hi ->
  safe_relu lo hi = true -> rhs M (cliprelu_bounds lo hi) x = lhs_cliprelu M lo hi x.
Proof.
  intros M [[| |l|]|] [[| |h|]|] [| |x|] HM Hx Hl Hh Hs; xunf; try discriminate; zcases; fin.
Qed.

Lemma reluclip_x_sound : forall M lo hi x, 0 < M -> wfx M x -> wfo M lo -> wfo M hi ->
  safe_relu lo hi = true -> rhs M (reluclip_bounds lo hi) x = lhs_reluclip M lo hi x.
Proof.
  intros M [[| |l|]|] [[| |h|]|] [| |x|] HM Hx Hl Hh Hs; xunf; try discriminate; zcases; fin.
Qed.

Lemma clipclip_x_sound : forall M l1 h1 l2 h2 x, 0 < M -> wfx M x -> wfo M l1 -> wfo M h1 -> wfo M l2 -> wfo M h2 ->
  safe_clipclip l1 h1 l2 h2 = true -> rhs M (clipclip_bounds l1 h1 l2 h2) x = lhs_clipclip M l1 h1 l2 h2 x.
Proof.
  intros M [[| |l1|]|] [[| |h1|]|] [[| |l2|]|] [[| |h2|]|] [| |x|] HM Hx H1 H2 H3 H4 Hs; xunf; try discriminate;
    zcases; fin.
Qed.

(* the side conditions are needed: witnesses (replayed on the real rules + onnxruntime by the harness) *)
Lemma cliprelu_nan_bound_refuted : exists M lo hi x, 0 < M /\ wfx M x /\ wfo M lo /\ wfo M hi /\
  rhs M (cliprelu_bounds lo hi) x <> lhs_cliprelu M lo hi x.
Proof. exists 100, (Some XNaN), (Some (XFin 6)), (XFin (-1)). repeat split; try (cbn; lia). vm_compute. discriminate. Qed.

Lemma reluclip_nan_bound_refuted : exists M lo hi x, 0 < M /\ wfx M x /\ wfo M lo /\ wfo M hi /\
  rhs M (reluclip_bounds lo hi) x <> lhs_reluclip M lo hi x.
Proof. exists 100, (Some XNaN), (Some (XFin 5)), (XFin (-1)). repeat split; try (cbn; lia). vm_compute. discriminate. Qed.

Lemma clipclip_nan_bound_refuted : exists M l1 h1 l2 h2 x, 0 < M /\ wfx M x /\
  rhs M (clipclip_bounds l1 h1 l2 h2) x <> lhs_clipclip M l1 h1 l2 h2 x.
Proof. exists 100, (Some XNaN), (Some (XFin 6)), (Some (XFin 0)), (Some (XFin 5)), (XFin (-1)). repeat split; try (cbn; lia). vm_compute. discriminate. Qed.

Lemma clipclip_absent_vs_infinite_refuted : exists M l1 h1 l2 h2 x, 0 < M /\ wfx M x /\
  not_nan_o l1 && not_nan_o h1 && not_nan_o l2 && not_nan_o h2 = true /\
  rhs M (clipclip_bounds l1 h1 l2 h2) x <> lhs_clipclip M l1 h1 l2 h2 x.
Proof. exists 100, (Some (XFin 0)), None, (Some (XFin (-1))), (Some XPInf), XPInf. repeat split; try (cbn; lia). vm_compute. discriminate. Qed.

Lemma clipclip_degenerate_infinite_refuted : exists M l1 h1 l2 h2 x, 0 < M /\ wfx M x /\
  not_nan_o l1 && not_nan_o h1 && not_nan_o l2 && not_nan_o h2 = true /\
  rhs M (clipclip_bounds l1 h1 l2 h2) x <> lhs_clipclip M l1 h1 l2 h2 x.
Proof. exists 100, None, (Some XNInf), None, None, (XFin 1). repeat split; try (cbn; lia). vm_compute. discriminate. Qed.

(* --- min / max ------------------------------------------------------------------------------------ *)
Ltac punf := cbv beta iota delta [pmax pmin kmax kmin xlt isnan orb clip lo_eff hi_eff] in *.

Lemma pmax_assoc : forall a b c, pmax (pmax a b) c = pmax a (pmax b c).
Proof. intros [| |a|] [| |b|] [| |c|]; punf; zcases; fin. Qed.
Lemma pmin_assoc : forall a b c, pmin (pmin a b) c = pmin a (pmin b c).
Proof. intros [| |a|] [| |b|] [| |c|]; punf; zcases; fin. Qed.

Lemma fold_pmax : forall cs x c, fold_left pmax cs (pmax x c) = pmax x (fold_left pmax cs c).
Proof. induction cs as [|d t IH]; intros; cbn [fold_left]; [reflexivity|]. rewrite pmax_assoc. apply IH. Qed.
Lemma fold_pmin : forall cs x c, fold_left pmin cs (pmin x c) = pmin x (fold_left pmin cs c).
Proof. induction cs as [|d t IH]; intros; cbn [fold_left]; [reflexivity|]. rewrite pmin_assoc. apply IH. Qed.

Lemma maxl_red : forall cs x, maxl x cs = match red pmax cs with Some c => pmax x c | None => x end.
Proof. intros [|c t] x; cbn [maxl red fold_left]; [reflexivity|apply fold_pmax]. Qed.
Lemma minl_red : forall cs x, minl x cs = match red pmin cs with Some c => pmin x c | None => x end.
Proof. intros [|c t] x; cbn [minl red fold_left]; [reflexivity|apply fold_pmin]. Qed.

Lemma red_app_max : forall cs ds c d, red pmax cs = Some c -> red pmax ds = Some d -> red pmax (cs ++ ds) = Some (pmax c d).
Proof.
  intros [|c0 t] ds c d H1 H2; [discriminate|]. destruct ds as [|d0 u]; [discriminate|].
  cbn [red app] in *. injection H1 as <-. injection H2 as <-. f_equal.
  rewrite fold_left_app. cbn [fold_left]. apply fold_pmax.
Qed.
Lemma red_app_min : forall cs ds c d, red pmin cs = Some c -> red pmin ds = Some d -> red pmin (cs ++ ds) = Some (pmin c d).
Proof.
  intros [|c0 t] ds c d H1 H2; [discriminate|]. destruct ds as [|d0 u]; [discriminate|].
  cbn [red app] in *. injection H1 as <-. injection H2 as <-. f_equal.
  rewrite fold_left_app. cbn [fold_left]. apply fold_pmin.
Qed.

Lemma pmax_not_nan : forall a b, isnan a = false -> isnan b = false -> isnan (pmax a b) = false.
Proof. intros [| |a|] [| |b|]; punf; intros; zcases; fin. Qed.
Lemma pmin_not_nan : forall a b, isnan a = false -> isnan b = false -> isnan (pmin a b) = false.
Proof. intros [| |a|] [| |b|]; punf; intros; zcases; fin. Qed.
Lemma fold_not_nan : forall op, (forall a b, isnan a = false -> isnan b = false -> isnan (op a b) = false) ->
  forall cs c, isnan c = false -> no_nans cs = true -> isnan (fold_left op cs c) = false.
Proof.
  intros op Hop. induction cs as [|d t IH]; intros c Hc Hn; cbn [fold_left]; [exact Hc|].
  cbn [no_nans forallb] in Hn. apply andb_true_iff in Hn as [Hd Ht]. apply IH; [|exact Ht].
  apply Hop; [exact Hc|]. destruct d; cbn in *; congruence.
Qed.
Lemma red_not_nan : forall op, (forall a b, isnan a = false -> isnan b = false -> isnan (op a b) = false) ->
  forall cs c, no_nans cs = true -> red op cs = Some c -> isnan c = false.
Proof.
  intros op Hop [|c0 t] c Hn H; [discriminate|]. cbn [red] in H. injection H as <-.
  cbn [no_nans forallb] in Hn. apply andb_true_iff in Hn as [H0 Ht].
  apply fold_not_nan; auto. destruct c0; cbn in *; congruence.
Qed.

(* with non-NaN bounds the Clip kernel is Min(Max(x, lo), hi) *)
Lemma clip_is_minmax : forall M x lo hi, isnan lo = false -> isnan hi = false ->
  clip M x (Some lo) (Some hi) = pmin (pmax x lo) hi.
Proof. intros M [| |x|] [| |lo|] [| |hi|] Hl Hh; punf; try discriminate; zcases; fin. Qed.
(* Max(Min(x, ub), lb) = Min(Max(x, lb), ub) when not ub < lb (and no NaN bound) *)
Lemma maxmin_swap : forall x ub lb, isnan ub = false -> isnan lb = false -> xlt ub lb = false ->
  pmax (pmin x ub) lb = pmin (pmax x lb) ub.
Proof. intros [| |x|] [| |u|] [| |l|] Hu Hl H; punf; try discriminate; revert H; zcases; intros; fin. Qed.

(* Min(Min(..)) / Max(Max(..)): sound for ALL constants, NaN included (operator and numpy both propagate) *)
Lemma minmin_x_sound : forall M cs ds x v, mm_rhs M MinMin cs ds x = Some v -> cs <> [] -> ds <> [] -> v = mm_lhs MinMin cs ds x.
Proof.
  intros M cs ds x v H Hc Hd. cbn [mm_rhs mm_lhs] in *.
  destruct (red pmin cs) as [c|] eqn:E1; [|destruct cs; [congruence|discriminate]].
  destruct (red pmin ds) as [d|] eqn:E2; [|destruct ds; [congruence|discriminate]].
  rewrite (red_app_min _ _ _ _ E1 E2) in H. injection H as <-.
  rewrite (minl_red cs), E1, (minl_red ds), E2. symmetry. apply pmin_assoc.
Qed.
Lemma maxmax_x_sound : forall M cs ds x v, mm_rhs M MaxMax cs ds x = Some v -> cs <> [] -> ds <> [] -> v = mm_lhs MaxMax cs ds x.
Proof.
  intros M cs ds x v H Hc Hd. cbn [mm_rhs mm_lhs] in *.
  destruct (red pmax cs) as [c|] eqn:E1; [|destruct cs; [congruence|discriminate]].
  destruct (red pmax ds) as [d|] eqn:E2; [|destruct ds; [congruence|discriminate]].
  rewrite (red_app_max _ _ _ _ E1 E2) in H. injection H as <-.
  rewrite (maxl_red cs), E1, (maxl_red ds), E2. symmetry. apply pmax_assoc.
Qed.

(* Min(Max(..)) / Max(Min(..)) -> Clip: sound for every x (NaN, +-inf included) when no constant is NaN *)
Lemma maxminclip_x_sound : forall M cs ds x v, no_nans cs = true -> no_nans ds = true ->
  mm_rhs M MaxMinClip cs ds x = Some v -> v = mm_lhs MaxMinClip cs ds x.
Proof.
  intros M cs ds x v Hc Hd H. cbn [mm_rhs mm_lhs] in *.
  destruct (red pmax cs) as [lo|] eqn:E1; [|discriminate]. destruct (red pmin ds) as [hi|] eqn:E2; [|discriminate].
  injection H as <-. rewrite (maxl_red cs), E1, (minl_red ds), E2.
  apply clip_is_minmax; [exact (red_not_nan pmax pmax_not_nan cs lo Hc E1) | exact (red_not_nan pmin pmin_not_nan ds hi Hd E2)].
Qed.
Lemma minmaxclip_x_sound : forall M cs ds x v, no_nans cs = true -> no_nans ds = true ->
  mm_rhs M MinMaxClip cs ds x = Some v -> v = mm_lhs MinMaxClip cs ds x.
Proof.
  intros M cs ds x v Hc Hd H. cbn [mm_rhs mm_lhs] in *.
  destruct (red pmin cs) as [ub|] eqn:E1; [|discriminate]. destruct (red pmax ds) as [lb|] eqn:E2; [|discriminate].
  destruct (xlt ub lb) eqn:E3; [discriminate|]. injection H as <-.
  assert (Hu : isnan ub = false) by exact (red_not_nan pmin pmin_not_nan cs ub Hc E1).
  assert (Hl : isnan lb = false) by exact (red_not_nan pmax pmax_not_nan ds lb Hd E2).
  rewrite (minl_red cs), E1, (maxl_red ds), E2, clip_is_minmax by assumption.
  symmetry. apply maxmin_swap; assumption.
Qed.

Lemma minmax_x_sound : forall M k cs ds x v, cs <> [] -> ds <> [] ->
  (match k with MinMin | MaxMax => true | _ => no_nans cs && no_nans ds end) = true ->
  mm_rhs M k cs ds x = Some v -> v = mm_lhs k cs ds x.
Proof.
  intros M [] cs ds x v Hc Hd Hn H.
  - eapply minmin_x_sound; eauto.
  - eapply maxmax_x_sound; eauto.
  - apply andb_true_iff in Hn as [? ?]. eapply maxminclip_x_sound; eauto.
  - apply andb_true_iff in Hn as [? ?]. eapply minmaxclip_x_sound; eauto.
Qed.

(* a NaN constant: the host is NaN everywhere, the fused Clip ignores the NaN bound *)
Lemma maxminclip_nan_refuted : exists M cs ds x v, mm_rhs M MaxMinClip cs ds x = Some v /\ v <> mm_lhs MaxMinClip cs ds x.
Proof. exists 100, [XNaN], [XFin 5], (XFin 1), (XFin 1). split; [reflexivity|vm_compute; discriminate]. Qed.
Lemma minmaxclip_nan_refuted : exists M cs ds x v, mm_rhs M MinMaxClip cs ds x = Some v /\ v <> mm_lhs MinMaxClip cs ds x.
Proof. exists 100, [XFin 5], [XNaN], (XFin 1), (XFin 1). split; [reflexivity|vm_compute; discriminate]. Qed.

Example xval_example :
  lhs_clipclip 100 (Some (XFin 0)) (Some (XFin 1)) (Some (XFin 2)) (Some (XFin 3)) XPInf = XFin 2 /\
  rhs 100 (clipclip_bounds (Some (XFin 0)) (Some (XFin 1)) (Some (XFin 2)) (Some (XFin 3))) XPInf = XFin 2 /\
  lhs_reluclip 100 (Some XNInf) None XNaN = XNaN /\ lhs_reluclip 100 None None XPInf = XFin 100 /\
  safe_clipclip (Some XNInf) (Some XPInf) (Some (XFin 0)) (Some (XFin 3)) = true.
Proof. repeat split; reflexivity. Qed.
