(* Model C of C18, control flow: the direct reading of a trace whose calls carry subgraph bodies built
   through builder.subgraph (If: then_branch / else_branch, Loop: body), with literal operands
   (promoted constants, CastLike next to a value of unknown dtype) at every level.

   A value is identified by its creation index (the ir.Value objects in the order the Python trace
   function creates them): graph inputs, then for every call the values of its subgraphs (inputs, then
   body, in the order the subgraphs were built), then its own outputs.  Only the branch that is taken is
   read, so the reading keeps a partial map id -> value (`venv`) and skips the ids of a subgraph that
   is not executed (`nvals_sub`).  A body sees the values of the enclosing trace functions (Python
   closure = ONNX outer-scope capture).  The reading is factored through `rb`, the reading of a
   subgraph body one level down, exactly as OV.Graph.Sem is factored through `ev`; `creplay_body fuel`
   ties the knot with the same fuel discipline as `eval_graph`, so that both run out of fuel at the
   same nesting depth.  Calls with graph-valued attributes other than If / Loop (Scan) and CRaw have no
   reading here (the shared evaluator does not interpret them either).  No proofs in this file. *)
From Coq Require Import String List Bool Arith ZArith.
Require Import OV.Graph.Syntax OV.Graph.Sem OV.Builder.Strings OV.Builder.Naming OV.Builder.Trace.
Import ListNotations.
Local Open Scope string_scope.

(* how many ir.Values a call / a subgraph creates (CastLike outputs are not counted: nobody holds them) *)
Fixpoint nvals_call (c : call) : nat :=
  match c with
  | COp _ _ _ _ _ subs outs =>
    (fix go (l : list (string * sub)) : nat :=
       match l with [] => 0 | (_, sb) :: r => nvals_sub sb + go r end) subs + n_outs_of outs
  | CRaw _ _ nv => List.length nv
  end
with nvals_sub (sb : sub) : nat :=
  match sb with
  | Sub ins body _ _ =>
    List.length ins + (fix go (l : list call) : nat := match l with [] => 0 | c :: r => nvals_call c + go r end) body
  end.

Fixpoint nvals_subs (l : list (string * sub)) : nat :=
  match l with [] => 0 | (_, sb) :: r => nvals_sub sb + nvals_subs r end.
Fixpoint nvals_calls (l : list call) : nat :=
  match l with [] => 0 | c :: r => nvals_call c + nvals_calls r end.

(* the subgraph bound to attribute `name` (first match, as Sem.find_sub) and the id of its first value *)
Fixpoint sub_at (name : string) (nid : nat) (subs : list (string * sub)) : option (nat * sub) :=
  match subs with
  | [] => None
  | (k, sb) :: t => if String.eqb k name then Some (nid, sb) else sub_at name (nid + nvals_sub sb) t
  end.

(* top-level versions of the nested folds of Trace.build_call / build_sub *)
Section BuildSubs.
  Variable cf : bcfg.
  Variable rn : list (nat * string).
  Fixpoint build_subs (l : list (string * sub)) (s : bst) : bst * list (string * graph) :=
    match l with
    | [] => (s, [])
    | (k, sb) :: r =>
      let '(s', g) := build_sub cf rn sb s in
      let '(s'', gs) := build_subs r s' in (s'', (k, g) :: gs)
    end.
End BuildSubs.

Section CReplay.
  Variable V : Type.
  Variable sem : string -> string -> list (string * attrv) -> list (option V) -> option (list V).
  Variable truth : V -> option bool.
  Variable trip : V -> option nat.
  Variable of_nat : nat -> V.
  Variable of_bool : bool -> V.
  Variable lim : nat.
  Variable lit_val : string -> V.

  Definition venv := list (nat * V).

  Fixpoint vlook (E : venv) (id : nat) : option V :=
    match E with
    | [] => None
    | (k, v) :: t => if Nat.eqb id k then Some v else vlook t id
    end.

  Fixpoint vlooks (E : venv) (ids : list nat) : option (list V) :=
    match ids with
    | [] => Some []
    | i :: r => match vlook E i, vlooks E r with
                | Some v, Some vs => Some (v :: vs)
                | _, _ => None
                end
    end.

  (* values created one after the other get consecutive ids *)
  Fixpoint vbind (nid : nat) (vs : list V) (E : venv) : venv :=
    match vs with [] => E | v :: t => (nid, v) :: vbind (S nid) t E end.

  Fixpoint somes (l : list (option V)) : list V :=
    match l with [] => [] | Some v :: t => v :: somes t | None :: t => somes t end.

  (* operands in order: a value, an omitted input, a promoted constant, CastLike(constant, like-value) *)
  Fixpoint cargs (E : venv) (args : list operand) : option (list (option V)) :=
    match args with
    | [] => Some []
    | a :: r =>
      match a with
      | OVal id =>
        match vlook E id, cargs E r with
        | Some v, Some vs => Some (Some v :: vs)
        | _, _ => None
        end
      | ONone => match cargs E r with Some vs => Some (None :: vs) | None => None end
      | OLit l =>
        match cargs E r with Some vs => Some (Some (lit_val (l_val l)) :: vs) | None => None end
      | OLitCast l like =>
        match vlook E like with
        | Some lv =>
          match sem "" "CastLike" [] [Some (lit_val (l_val l)); Some lv] with
          | Some [cv] =>
            match cargs E r with
            | Some vs => Some (Some cv :: vs)
            | None => None
            end
          | _ => None
          end
        | None => None
        end
      end
    end.

  Section WithRB.
    (* the reading of a subgraph body: enclosing values, id of the body's first value, the body, arguments *)
    Variable rb : venv -> nat -> sub -> list V -> option (list V).

    (* ONNX Loop over the reading of its body (iter, cond_in, carried...) -> (cond_out, carried...) *)
    Fixpoint rloop (E : venv) (k0 : nat) (body : sub) (bounded : bool) (k i : nat) (c : bool) (st : list V)
      : option (list V) :=
      if negb c then Some st else
      match k with
      | O => if bounded then Some st else None
      | S k' =>
        match rb E k0 body (of_nat i :: of_bool c :: st) with
        | Some (cv' :: st') =>
          if Nat.eqb (List.length st') (List.length st) then
            match truth cv' with
            | Some c' => rloop E k0 body bounded k' (S i) c' st'
            | None => None
            end
          else None
        | _ => None
        end
      end.

    Definition creplay_call (E : venv) (nid : nat) (c : call) : option (venv * nat) :=
      match c with
      | COp _ dom op args attrs subs outs =>
        let nid_out := nid + nvals_subs subs in
        let n := n_outs_of outs in
        let finish (rs : list V) :=
          if Nat.eqb (List.length rs) n then Some (vbind nid_out rs E, nid_out + n) else None in
        match cargs E args with
        | None => None
        | Some vs =>
          if is_if dom op then
            match vs with
            | [Some cv] =>
              match truth cv with
              | Some b =>
                match sub_at (if b then "then_branch" else "else_branch") nid subs with
                | Some (k, sb) => match rb E k sb [] with Some rs => finish rs | None => None end
                | None => None
                end
              | None => None
              end
            | _ => None
            end
          else if is_loop dom op then
            match vs, sub_at "body" nid subs with
            | mv :: cv :: rest, Some (k, body) =>
              let max_trip := match mv with Some v => option_map Some (trip v) | None => Some None end in
              let cond0 := match cv with Some v => truth v | None => Some true end in
              match max_trip, cond0 with
              | Some mt, Some c0 =>
                let r := match mt with
                         | Some kk => rloop E k body true kk 0 c0 (somes rest)
                         | None => rloop E k body false lim 0 c0 (somes rest)
                         end in
                match r with Some stf => finish stf | None => None end
              | _, _ => None
              end
            | _, _ => None
            end
          else
            match subs with
            | [] => match sem dom op attrs vs with Some rs => finish rs | None => None end
            | _ :: _ => None
            end
        end
      | CRaw _ _ _ => None
      end.

    Fixpoint creplay_calls (E : venv) (nid : nat) (tr : list call) : option (venv * nat) :=
      match tr with
      | [] => Some (E, nid)
      | c :: r => match creplay_call E nid c with
                  | Some (E', nid') => creplay_calls E' nid' r
                  | None => None
                  end
      end.

    (* a body: bind the arguments to the body's input values, read the calls, return the returned values *)
    Definition creplay_sub (E : venv) (nid : nat) (sb : sub) (args : list V) : option (list V) :=
      match sb with
      | Sub ins body rets _ =>
        if Nat.eqb (List.length ins) (List.length args) then
          match creplay_calls (vbind nid args E) (nid + List.length ins) body with
          | Some (E', _) => vlooks E' rets
          | None => None
          end
        else None
      end.
  End WithRB.

  Fixpoint creplay_body (fuel : nat) : venv -> nat -> sub -> list V -> option (list V) :=
    match fuel with
    | O => fun _ _ _ _ => None
    | S f => creplay_sub (creplay_body f)
    end.

  (* the trace function of the root graph applied to `args`; bodies nested deeper than `fuel` have no reading *)
  Definition creplay (fuel : nat) (tr : list call) (args : list V) (outs : list nat) : option (list V) :=
    match creplay_calls (creplay_body fuel) (vbind 0 args []) (List.length args) tr with
    | Some (E, _) => vlooks E outs
    | None => None
    end.
End CReplay.

(* calls that have a reading: If / Loop with their bodies, every other call without graph-valued attributes *)
Fixpoint cf_call (c : call) : bool :=
  match c with
  | COp _ dom op _ _ subs _ =>
    (is_if dom op || is_loop dom op || match subs with [] => true | _ => false end) &&
    (fix go (l : list (string * sub)) : bool := match l with [] => true | (_, sb) :: r => cf_sub sb && go r end) subs
  | CRaw _ _ _ => false
  end
with cf_sub (sb : sub) : bool :=
  match sb with
  | Sub _ body _ _ => (fix go (l : list call) : bool := match l with [] => true | c :: r => cf_call c && go r end) body
  end.
Definition cf_trace (tr : list call) : bool := forallb cf_call tr.

(* all literal operands, nested *)
Fixpoint lits_call (c : call) : list lit :=
  match c with
  | COp _ _ _ args _ subs _ =>
    (flat_map (fun a => match a with OLit l => [l] | OLitCast l _ => [l] | _ => [] end) args ++
     (fix go (l : list (string * sub)) : list lit := match l with [] => [] | (_, sb) :: r => (lits_sub sb ++ go r)%list end) subs)%list
  | CRaw _ _ _ => []
  end
with lits_sub (sb : sub) : list lit :=
  match sb with
  | Sub _ body _ _ => (fix go (l : list call) : list lit := match l with [] => [] | c :: r => (lits_call c ++ go r)%list end) body
  end.
Definition lits_calls (tr : list call) : list lit := flat_map lits_call tr.

(* every name the build defines: values with an id, CastLike outputs, initializers *)
Definition all_defined (s : bst) : list string :=
  (b_names s ++ b_anon s ++ map (fun e => fst (snd e)) (b_cache s))%list.

(* the hypotheses of build_computes_trace_cf, decidable: the trace has a reading at every call, the names the
   build defines are pairwise distinct, a literal whose cache key is already bound denotes the bound tensor *)
Definition lits_okb (C : list (string * (string * lit))) (ls : list lit) : bool :=
  forallb (fun l => match assoc_str (l_key l) C with
                    | Some (_, l0) => String.eqb (l_val l0) (l_val l)
                    | None => true
                    end) ls.
Definition cf_hypsb (cf : bcfg) (ins : list string) (tr : list call) : bool :=
  let sf := fst (build_state cf ins tr) in
  cf_trace tr && nodup_strb (all_defined sf) && lits_okb (b_cache sf) (lits_calls tr).

(* ---------------------------------------------------------------- correspondence: a toy kernel semantics
   The reading `creplay` is compared, on every generated trace, with the harness's own Python reading of the
   trace under the same toy kernels over Z (a position-sensitive hash of the operator name and the operand
   values), and with `eval_graph` on the graph the real GraphBuilder built. *)
Definition toyP : Z := 1000003%Z.
Fixpoint str_hash (s : string) (k : Z) : Z :=
  match s with
  | EmptyString => 0%Z
  | String c r => ((Z.of_nat (Ascii.nat_of_ascii c) * k + str_hash r (k + 1)) mod toyP)%Z
  end.
Fixpoint toy_mix (vs : list (option Z)) (j : Z) : Z :=
  match vs with
  | [] => 0%Z
  | v :: r => ((j * match v with Some z => z | None => 17%Z end + toy_mix r (j + 1)) mod toyP)%Z
  end.
Definition toy_nouts (op : string) (attrs : list (string * attrv)) : nat :=
  match assoc_str "num_outputs" attrs with
  | Some (AInt z) => Z.to_nat z
  | _ => if String.eqb op "TopK" || String.eqb op "add_mul" || String.eqb op "neg_abs" then 2 else 1
  end.
Definition toy_sem (dom op : string) (attrs : list (string * attrv)) (vs : list (option Z)) : option (list Z) :=
  let h := ((str_hash op 1 + toy_mix vs 1) mod toyP)%Z in
  Some (map (fun i => ((h + 7919 * Z.of_nat i) mod toyP)%Z) (seq 0 (toy_nouts op attrs))).
Definition toy_truth (z : Z) : option bool := Some (Z.odd z).
Definition toy_trip (z : Z) : option nat := Some (Z.to_nat (z mod 4)%Z).
Definition toy_of_bool (b : bool) : Z := if b then 1%Z else 0%Z.
Definition toy_lit (s : string) : Z := str_hash s 1.
Definition toy_args (ins : list string) : list Z := map (fun i => (1001 + Z.of_nat i)%Z) (seq 0 (List.length ins)).
Definition toy_init (C : list (string * (string * lit))) : list (vname * Z) :=
  map (fun x => (fst (snd x), toy_lit (l_val (snd (snd x))))) C.

(* inputs, trace, output ids, the graph the real builder built, the harness's reading (None: no reading) *)
Definition toy_case := (list string * list call * list nat * graph * option (list Z))%type.
Definition toy_agrees (cf : bcfg) (c : toy_case) : bool :=
  let '(ins, tr, outs, g, expected) := c in
  let args := toy_args ins in
  match expected, creplay Z toy_sem toy_truth toy_trip Z.of_nat toy_of_bool 5 toy_lit 3 tr args outs with
  | None, None => true
  | Some x, Some r =>
    lz_eqb r x &&
    match eval_graph Z toy_sem toy_truth toy_trip Z.of_nat toy_of_bool 5 4
                     (toy_init (b_cache (fst (build_state cf ins tr)))) g args with
    | Some r' => lz_eqb r' r
    | None => false
    end
  | _, _ => false
  end.
Fixpoint toy_disagreeing (cf : bcfg) (i : nat) (cs : list toy_case) : list nat :=
  match cs with [] => [] | c :: t => ((if toy_agrees cf c then [] else [i]) ++ toy_disagreeing cf (S i) t)%list end.
Definition toy_of (c : tcase) (x : option (list Z)) : toy_case :=
  let '(ins, tr, outs, g, _) := c in (ins, tr, outs, g, x).


(* hypotheses of the full (two-directional) control-flow theorem: additionally "?undefined", the name a value id
   that does not exist is printed with, is not a defined name *)
Definition cf_hyps_eqb (cf : bcfg) (ins : list string) (tr : list call) : bool :=
  cf_hypsb cf ins tr && negb (mem_str "?undefined" (all_defined (fst (build_state cf ins tr)))).

Definition tcase_hyps (cf : bcfg) (c : tcase) : bool :=
  let '(ins, tr, _, _, _) := c in cf_hyps_eqb cf ins tr.
