#!/bin/bash
# mark_fixed.sh <prefix>: for each proposed_fixes/ready/<prefix>_*.diff already applied by apply_ready.sh (same order), find its commit by subject and mark its `# keys:` fixed; move the patch to applied/
cd /verif
for f in proposed_fixes/ready/$1_*.diff; do
  subj=$(head -1 "$f" | sed 's/^[#* ]*//')
  h=$(git -C /repo log --format='%h %s' | grep -F " $subj" | head -1 | awk '{print $1}')
  [ -z "$h" ] && { echo "no commit for $f"; continue; }
  keys=$(grep -h "^# keys:" "$f" | sed 's/^# keys: *//')
  for k in $keys; do tools/kf.py fixed $h "$k" | grep -v -- "-> 1 entries" ; done
  echo "$h $(basename $f): $(echo $keys | wc -w) keys"
  mv "$f" proposed_fixes/applied/
done
