(* C10 -- proofs about the repaired variants of Model2.v *)
From Coq Require Import ZArith List Bool String Lia.
Import ListNotations.
Require Import OV.Gen.VersionTables OV.Version.Model OV.Version.Model2 OV.Version.Adapters OV.Version.AdaptersProofs
               OV.Version.ConvertProofs OV.Version.Std OV.Version.StdProofs.
Local Open Scope Z_scope.

Section Native2Theorems.
  Variable adapt : adapter.
  Variables smin smax : Z.
  Variable fuel : nat.

  Lemma versions_of_off : forall dv fs, versions_of false dv fs = Some (map (fun f => (f, dv)) fs).
  Proof. intros dv. induction fs as [|f r IH]; cbn; [reflexivity|]. now rewrite IH. Qed.

  Lemma conv_funcs2_off : forall t dv fs,
    conv_funcs2 adapt fuel t (map (fun f => (f, dv)) fs) = conv_funcs adapt fuel t dv fs.
  Proof.
    intros t dv. induction fs as [|f r IH]; cbn; [reflexivity|].
    destruct (conv adapt t dv fuel (f_nodes f)); [now rewrite IH|].
    rewrite map_map. cbn. now rewrite map_id.
  Qed.

  Lemma min_off_nodes : forall dv (l : list node), existsb (min_refuses MinOff smin dv) l = false.
  Proof. intros dv. induction l as [|n r IH]; [reflexivity|]. cbn. exact IH. Qed.
  Lemma min_off_funcs : forall (fvs : list (func * option Z)),
    existsb (fun p => existsb (min_refuses MinOff smin (snd p)) (f_nodes (fst p))) fvs = false.
  Proof. induction fvs as [|p r IH]; [reflexivity|]. cbn [existsb]. now rewrite min_off_nodes, IH. Qed.

  (* all repairs off: the converter as read *)
  Theorem native2_off : forall M t,
    convert_native2 false false MinOff adapt smin smax fuel M t = convert_native adapt smin smax fuel M t.
  Proof.
    intros M t. unfold convert_native2, convert_native.
    destruct ((t >? smax) || (t <? smin)); [reflexivity|].
    destruct (default_version M) as [dv|]; [|reflexivity].
    rewrite versions_of_off, min_off_nodes, min_off_funcs. cbn [andb orb]. now rewrite conv_funcs2_off.
  Qed.

  Lemma func_version_self : forall dv f, func_self_consistent f = true ->
    exists v, func_version dv f = Some (Some v) /\ func_at v f = true.
  Proof.
    intros dv f H. unfold func_self_consistent in H. destruct (f_decl f) as [v|] eqn:Ed; [|discriminate].
    exists v. split; [|exact H]. unfold func_version. rewrite Ed.
    unfold func_at in H. apply andb_true_iff in H as [H _]. apply andb_true_iff in H as [_ H].
    destruct (f_ai f) as [b|]; [|reflexivity]. cbn in H. now rewrite Z.eqb_sym, H.
  Qed.

  (* a model consistent at s: every function reads the same version either way, the repair changes nothing *)
  Lemma versions_of_consistent : forall s fs, forallb (func_at s) fs = true ->
    versions_of true (Some s) fs = versions_of false (Some s) fs.
  Proof.
    intros s. induction fs as [|f r IH]; intros H; [reflexivity|].
    cbn [forallb] in H. apply andb_true_iff in H as [Hf Hr]. cbn [versions_of]. rewrite (IH Hr).
    assert (E : func_version (Some s) f = Some (Some s)).
    { unfold func_at in Hf. apply andb_true_iff in Hf as [Hf _]. apply andb_true_iff in Hf as [H1 H2].
      apply oz_is_eq in H1. unfold func_version. rewrite H1. destruct (f_ai f) as [b|]; [|reflexivity].
      cbn in H2. now rewrite Z.eqb_sym, H2. }
    now rewrite E.
  Qed.

  Theorem native2_own_agree : forall refuse minchk s M t,
    consistent_at s M = true ->
    convert_native2 true refuse minchk adapt smin smax fuel M t = convert_native2 false refuse minchk adapt smin smax fuel M t.
  Proof.
    intros refuse minchk s M t Hc. unfold convert_native2.
    destruct ((t >? smax) || (t <? smin)); [reflexivity|].
    rewrite (default_version_consistent s M Hc).
    apply consistent_at_inv in Hc as (_ & _ & _ & Hf). now rewrite (versions_of_consistent s _ Hf).
  Qed.

  (* the pre-check fires => VersionConverterError and the model is exactly the one passed in *)
  Theorem native2_refused_unchanged : forall own minchk M t dv fvs,
    (t >? smax) || (t <? smin) = false -> default_version M = Some dv -> versions_of own dv (m_funcs M) = Some fvs ->
    existsb (refuses t dv) (m_graph M) || existsb (fun p => existsb (refuses t (snd p)) (f_nodes (fst p))) fvs = true ->
    convert_native2 own true minchk adapt smin smax fuel M t = MRaised ERefused M [].
  Proof. intros own minchk M t dv fvs Hr Hd Hv Hp. unfold convert_native2. rewrite Hr, Hd, Hv. cbn [andb]. now rewrite Hp. Qed.

  Hypothesis adapt_flat : forall op k n news,
    adapt op k n = AReplace news -> Forall (fun m => n_subs m = []) news.

  Lemma conv_funcs2_own_consistent : forall t dv fs fvs fs' l,
    versions_of true dv fs = Some fvs -> forallb func_self_consistent fs = true ->
    conv_funcs2 adapt fuel t fvs = (fs', None, l) -> l = [] -> forallb (func_at t) fs' = true.
  Proof.
    intros t dv. induction fs as [|f r IH]; intros fvs fs' l Hv Hs H Hl.
    - inversion Hv; subst. cbn in H. inversion H. reflexivity.
    - cbn [forallb] in Hs. apply andb_true_iff in Hs as [Hf Hr]. cbn [versions_of] in Hv.
      destruct (func_version_self dv f Hf) as (v & Ev & Hat). rewrite Ev in Hv.
      destruct (versions_of true dv r) as [rest|] eqn:Er; [|discriminate]. inversion Hv; subst fvs. cbn [conv_funcs2] in H.
      destruct (conv adapt t (Some v) fuel (f_nodes f)) as [ns l1|e ns l1] eqn:Ec; [|inversion H].
      destruct (conv_funcs2 adapt fuel t rest) as [[rest' e] l2] eqn:E2.
      inversion H; subst. apply app_eq_nil in H3 as [-> ->].
      cbn [forallb]. rewrite (IH rest rest' [] eq_refl Hr E2 eq_refl), andb_true_r.
      unfold func_at in *. cbn. rewrite Z.eqb_refl. cbn.
      apply andb_true_iff in Hat as [_ Hn]. eapply conv_consistent; eauto.
  Qed.

  (* the function-opset repair: a model whose containers are each consistent with their OWN import (the functions may
     declare other opsets than the model) is converted to a model consistent at the target *)
  Theorem native2_own_consistent : forall refuse minchk s t M M',
    locally_consistent s M = true ->
    convert_native2 true refuse minchk adapt smin smax fuel M t = MDone M' [] ->
    consistent_at t M' = true.
  Proof.
    intros refuse minchk s t M M' Hc H. unfold locally_consistent in Hc.
    apply andb_true_iff in Hc as [Hc H4]. apply andb_true_iff in Hc as [Hc H3]. apply andb_true_iff in Hc as [H1 H2].
    unfold convert_native2 in H. destruct ((t >? smax) || (t <? smin)); [discriminate|].
    assert (Ed : default_version M = Some (Some s)).
    { unfold default_version. rewrite (oz_is_eq _ _ H1). destruct (m_ai M) as [b|]; [|reflexivity]. cbn in *. now rewrite Z.eqb_sym, H2. }
    rewrite Ed in H. destruct (versions_of true (Some s) (m_funcs M)) as [fvs|] eqn:Ev; [|discriminate].
    destruct (_ || _) in H; [discriminate|].
    destruct (conv adapt t (Some s) fuel (m_graph M)) as [g l|e g l] eqn:Eg; [|discriminate].
    destruct (conv_funcs2 adapt fuel t fvs) as [[fs [e|]] l'] eqn:Ef; [discriminate|].
    injection H as <- Hl. apply app_eq_nil in Hl as [-> ->].
    unfold consistent_at. cbn. rewrite Z.eqb_refl. cbn.
    rewrite (conv_consistent adapt adapt_flat s t fuel _ _ H3 Eg). cbn.
    eapply conv_funcs2_own_consistent; eauto.
  Qed.
End Native2Theorems.

(* ---------------------------------------------------------------- witnesses *)
Definition std_native2 (own refuse : bool) (fx : flags) (M : model) (t : Z) : mres :=
  convert_native2 own refuse MinOff (std_adapt fx) supported_min supported_max big_fuel M t.

(* the function written for opset 19 inside the opset-20 model (Std.w-style witness of the refuted theorem) *)
Definition w_func_opset2 : model := Model (Some 20) None [relu] [Func (Some 19) None [dft_axis1]].
(* QuantizeLinear(x : int32, y_scale : float) at opset 18 *)
Definition ql_node := Node "QuantizeLinear" true None false [] [true; true; true] [DStatic 6; DStatic 1] [].
Definition w_ql : model := Model (Some 18) None [ql_node] [].

(* as read: the function's DFT keeps its axis attribute; repaired: it goes through the adapter *)
Lemma function_opset_fixed : forall fx,
  locally_consistent 20 w_func_opset2 = true /\ consistent_at 20 w_func_opset2 = false /\
  (exists M', std_native2 false false fx w_func_opset2 21 = MDone M' [] /\
              map (fun f => map n_op (f_nodes f)) (m_funcs M') = [["DFT"%string]]) /\
  (exists M', std_native2 true false fx w_func_opset2 21 = MDone M' [] /\ consistent_at 21 M' = true /\
              map (fun f => map n_op (f_nodes f)) (m_funcs M') = [["Constant"%string; "DFT"%string]]).
Proof. intros [[] []]; vm_compute; repeat split; eexists; repeat split; reflexivity. Qed.

Lemma quantizelinear_refused : forall fx own,
  std_native2 own true fx w_ql 19 = MRaised ERefused w_ql [] /\
  std_native2 own true fx w_ql 22 = MRaised ERefused w_ql [] /\
  (exists M', std_native2 own true fx w_ql 23 = MDone M' [] /\ consistent_at 23 M' = true) /\
  (exists M', std_native2 own false fx w_ql 19 = MDone M' [] /\ consistent_at 19 M' = true).
Proof. intros [[] []] []; vm_compute; repeat split; eexists; repeat split; reflexivity. Qed.
