"""C18, literal operands derived from the C12 specification (coq/Builder/TraceLit.v).

For every operator call with at least one Python-literal operand of generated and directed traces, executed on
the REAL GraphBuilder, the harness prints to Coq
  * the operator name (Coq looks the schema up in OV.Gen.Schemas by name and the opset the builder used, 21),
  * the typed operands: value id + run-time element type + whether the builder knew the type when the call was
    made; the Python literal as an Autocast.literal (C12's printer); omitted inputs,
  * the operands OBSERVED on the node the real builder created: value / None / initializer (its real dtype,
    shape, bytes, name) / CastLike(initializer, like-value),
and Coq evaluates `lits_by_specb`: the observed operand kinds, CastLike like-ids and constant element types are
the ones `promote_call` derives from C12's `promote_builder`.  Only indices of disagreeing calls come back.
"""
from __future__ import annotations

import time

import numpy as np

from harness import c12 as C12
from harness import c18_traces as TR
from harness import common
from harness.common import clist, cnat, cstr

REQ = ["OV.Autocast.Autocast", "OV.Gen.Schemas", "OV.Builder.Trace", "OV.Builder.TraceCF", "OV.Builder.TraceLit"]
DCODE = {TR.F: 1, TR.I: 7, TR.Bo: 9}
SHARD = 400


# --------------------------------------------------------------------------- directed traces aimed at literals

class _D:
    """Small trace writer: value ids in the order the real builder creates the ir.Values."""

    def __init__(self, inputs):
        self.n = 0
        self.types = {}
        self.inputs = []
        for k, (dt, sh) in enumerate(inputs):
            self.inputs.append((f"x{k}", dt, tuple(sh), self.new(dt, sh)))
        self.steps = []
        self.outs = []

    def new(self, dt, sh):
        i = self.n
        self.n += 1
        self.types[i] = (dt, tuple(sh))
        return i

    def op(self, name, args, types, attrs=None, into=None, out=True):
        ids = [self.new(dt, sh) for dt, sh in types]
        st = dict(kind="op", scope=[], op=name, args=list(args), attrs=dict(attrs or {}), outs=len(ids), subs=[], ids=ids)
        (self.steps if into is None else into).append(st)
        if out and into is None:
            self.outs.append(ids[-1] if name != "TopK" else ids[0])
        return ids[0] if len(ids) == 1 else ids

    def fn(self, fname, args, sh):
        fs = TR.functions()
        fi = [k for k, f in enumerate(fs) if f["name"] == fname][0]
        ids = [self.new(TR.F, sh) for _ in range(fs[fi]["nout"])]
        self.steps.append(dict(kind="fn", scope=[], fn=fi, args=[("v", a) for a in args], attrs={}, outs=None, prefix="", ids=ids))
        return ids[0] if len(ids) == 1 else ids

    def upd(self, vin, dt, sh, body):
        """One body step updating a state (c18_traces' NumPy reading of Identity is float-only)."""
        if dt == TR.I:
            return self.op("Add", [("v", vin), ("lit", 1)], [(dt, sh)], into=body)
        if dt == TR.F:
            return self.op("Mul", [("v", vin), ("lit", 0.5)], [(dt, sh)], into=body)
        return self.op("Not", [("v", vin)], [(dt, sh)], into=body)

    def loop(self, trip, cond, states, body_fn=None, n=0):
        """states: list of ("v", id) | ("lit", value); the body passes every state through an Identity (a tensor
        state through `body_fn(self, body, carried_id) -> id` when given)."""
        ins, body, rets, decl = [], [], [], []
        it = self.new(TR.I, ())
        ci = self.new(TR.Bo, ())
        ins += [(f"dit{n}", TR.I, (), it), (f"dcond{n}", TR.Bo, (), ci)]
        st_types = []
        for j, s in enumerate(states):
            dt, sh = self.types[s[1]] if s[0] == "v" else TR.py_lit_type(s[1])
            st_types.append((dt, sh))
            ins.append((f"dst{n}_{j}", dt, sh, self.new(dt, sh)))
        co = self.op("Identity", [("v", ci)], [(TR.Bo, ())], into=body)
        rets.append(co)
        decl.append(f"dcond_out{n}")
        for j, (dt, sh) in enumerate(st_types):
            vin = ins[2 + j][3]
            if body_fn is not None and states[j][0] == "v":
                r = body_fn(self, body, vin)
            else:
                r = self.upd(vin, dt, sh, body)
            rets.append(r)
            decl.append("")
        ids = [self.new(dt, sh) for dt, sh in st_types]
        args = [("lit", trip) if trip is not None else ("none",), cond] + list(states)
        self.steps.append(dict(kind="op", scope=[], op="Loop", args=args, attrs={}, outs=len(ids),
                               subs=[("body", dict(ins=ins, body=body, rets=rets, decl=decl))], ids=ids, vlit=True))
        self.outs += ids
        return ids

    def scan(self, states, seq, n=0):
        ins, body, rets, decl = [], [], [], []
        st_types = []
        for j, s in enumerate(states):
            dt, sh = self.types[s[1]] if s[0] == "v" else TR.py_lit_type(s[1])
            st_types.append((dt, sh))
            ins.append((f"dsst{n}_{j}", dt, sh, self.new(dt, sh)))
        sdt, ssh = self.types[seq]
        el = self.new(sdt, ssh[1:])
        ins.append((f"delem{n}", sdt, ssh[1:], el))
        for j, (dt, sh) in enumerate(st_types):
            rets.append(self.upd(ins[j][3], dt, sh, body))
            decl.append("")
        rets.append(self.op("Mul", [("v", el), ("lit", 2.0)], [(sdt, ssh[1:])], into=body))
        decl.append(f"dscan_out{n}")
        ids = [self.new(dt, sh) for dt, sh in st_types] + [self.new(sdt, ssh)]
        self.steps.append(dict(kind="op", scope=[], op="Scan", args=list(states) + [("v", seq)], attrs={"num_scan_inputs": 1},
                               outs=len(ids), subs=[("body", dict(ins=ins, body=body, rets=rets, decl=decl))], ids=ids, vlit=True))
        self.outs += ids
        return ids

    def trace(self):
        outs = []
        for i in self.outs:
            if i not in outs:
                outs.append(i)
        return {"inputs": self.inputs, "steps": self.steps, "outputs": outs or [self.inputs[0][3]], "types": dict(self.types)}


def _place(n, pos, lit, vs):
    """n operands: literals `lit[k]` at the positions `pos`, the values `vs` (cycled) elsewhere."""
    args, k, j = [], 0, 0
    for i in range(n):
        if i in pos:
            args.append(("lit", lit[k % len(lit)]))
            k += 1
        else:
            args.append(("v", vs[j % len(vs)]))
            j += 1
    return args


def literal_traces(rng, tier):
    F, I, Bo = TR.F, TR.I, TR.Bo
    out = []
    sh = (3,)
    lits = [2, 0.5, True, -1.5, 3, False, 1.0]

    # binary operators: literal at either position, int / float / bool, beside a known and an unknown sibling
    d = _D([(F, sh), (F, sh)])
    u = d.fn("twice_minus", [0, 1], sh)             # dtype unknown to the builder
    for name, ot in [("Add", F), ("Sub", F), ("Mul", F), ("Div", F), ("Less", Bo), ("Greater", Bo), ("LessOrEqual", Bo),
                     ("GreaterOrEqual", Bo), ("Equal", Bo)]:
        for like in (0, u):
            for side in (0, 1):
                lit = rng.choice(lits)
                args = [("lit", lit), ("v", like)] if side == 0 else [("v", like), ("lit", lit)]
                d.op(name, args, [(ot, sh)])
    out.append(d.trace())

    # Pow (exponent has its own type variable), Mod, Where, Clip
    d = _D([(F, sh), (F, sh)])
    u = d.fn("twice_minus", [0, 1], sh)
    c = d.op("Greater", [("v", 0), ("lit", 0.0)], [(Bo, sh)])
    for like in (0, u):
        d.op("Pow", [("v", like), ("lit", 2.0)], [(F, sh)])
        d.op("Pow", [("v", like), ("lit", 2)], [(F, sh)])
        d.op("Mod", [("v", like), ("lit", 1.5)], [(F, sh)], {"fmod": 1})
        d.op("Where", [("v", c), ("v", like), ("lit", rng.choice([0.5, 2, True]))], [(F, sh)])
        d.op("Where", [("v", c), ("lit", rng.choice([0.5, 2, False])), ("v", like)], [(F, sh)])
        d.op("Clip", [("v", like), ("lit", -1.0), ("lit", 2)], [(F, sh)])
        d.op("Clip", [("v", like), ("none",), ("lit", 1)], [(F, sh)])
        d.op("Clip", [("v", like), ("lit", 0)], [(F, sh)])
    d.op("Where", [("v", c), ("lit", 1.5), ("lit", 2.5)], [(F, sh)])          # no tensor sibling
    d.op("Where", [("v", c), ("v", 0), ("v", u)], [(F, sh)])
    out.append(d.trace())

    # homogeneous variadic: literals at every position incl. the first; known / unknown / both kinds of siblings
    for name in ("Max", "Min", "Sum", "Mean"):
        d = _D([(F, sh), (F, sh), (F, sh)])
        u = d.fn("twice_minus", [0, 1], sh)
        xi = d.op("Cast", [("v", 2)], [(I, sh)], {"to": 7}, out=False)     # make_feeds feeds float32 only
        for n in (2, 3, 4):
            for pos in range(n):
                d.op(name, _place(n, {pos}, [rng.choice(lits)], [0, 1]), [(F, sh)])
            d.op(name, _place(n, set(range(n - 1)), lits[n:], [1]), [(F, sh)])            # only the last is a tensor
            d.op(name, _place(n, set(range(1, n)), lits[n - 2:], [u]), [(F, sh)])         # unknown first, literals after
            d.op(name, _place(n, {0}, [rng.choice(lits)], [u, 0]), [(F, sh)])             # literal, unknown, known...
        d.op(name, [("v", 0), ("v", u), ("lit", 2)], [(F, sh)])                           # first binder known
        d.op(name, [("v", u), ("v", 0), ("lit", 2)], [(F, sh)])                           # first binder unknown
        d.op(name, [("lit", 1), ("v", u), ("lit", 2.5), ("v", 0)], [(F, sh)])
        if name in ("Max", "Min"):
            d.op(name, [("lit", 3), ("v", xi), ("lit", True)], [(I, sh)])
            d.op(name, [("v", xi), ("lit", -2), ("lit", 0)], [(I, sh)])
        out.append(d.trace())

    # Concat with list literals at every position
    d = _D([(F, sh), (F, sh), (F, sh)])
    u = d.fn("twice_minus", [0, 2], sh)
    xi = d.op("Cast", [("v", 1)], [(I, sh)], {"to": 7}, out=False)
    for v, dt, ll in [(0, F, [[1, 2], [0.5], [True, False], [1.5, -2.0, 0.25]]), (xi, I, [[1, 2], [7], [True, False]]),
                      (u, F, [[1, 2], [0.5], [True]])]:
        for n in (2, 3):
            for pos in range(n):
                args = _place(n, {pos}, [rng.choice(ll)], [v])
                tot = sum(3 if a[0] == "v" else len(a[1]) for a in args)
                d.op("Concat", args, [(dt, (tot,))], {"axis": 0})
        args = _place(3, {0, 2}, ll, [v])
        d.op("Concat", args, [(dt, (sum(3 if a[0] == "v" else len(a[1]) for a in args),))], {"axis": 0})
    out.append(d.trace())

    # literals without a tensor sibling: concrete type strings, index type variables
    d = _D([(F, (2, 3))])
    d.op("Reshape", [("v", 0), ("lit", [-1])], [(F, (6,))])
    d.op("Unsqueeze", [("v", 0), ("lit", [0])], [(F, (1, 2, 3))])
    d.op("Slice", [("v", 0), ("lit", [0]), ("lit", [1]), ("lit", [0])], [(F, (1, 3))])
    d.op("Slice", [("v", 0), ("lit", [0]), ("lit", [2])], [(F, (2, 3))])
    d.op("TopK", [("v", 0), ("lit", [1])], [(F, (2, 1)), (I, (2, 1))])
    d.op("ReduceSum", [("v", 0), ("lit", [0])], [(F, (3,))], {"keepdims": 0})
    d.op("Gather", [("v", 0), ("lit", [1, 0])], [(F, (2, 3))], {"axis": 0})
    d.op("Expand", [("v", 0), ("lit", [2, 2, 3])], [(F, (2, 2, 3))])
    out.append(d.trace())

    # heterogeneous variadic: Loop / Scan states given as int / float / bool / list literals
    state_lits = [0, 3, 1.5, 0.25, True, False, [1, 2], [0.5, 2.0], 7]
    for rnd in range(3 if tier == "quick" else 12):
        d = _D([(F, sh), (F, sh), (F, (2, 3))])
        u = d.fn("twice_minus", [0, 1], sh)
        k = 0
        for first in (("v", 0), ("v", u), ("lit", rng.choice(state_lits))):
            extra = [("lit", rng.choice(state_lits)) for _ in range(rng.choice([1, 2, 3]))]
            states = [first] + extra
            if rng.random() < 0.4:
                states = extra[:1] + [first] + extra[1:]
            d.loop(rng.choice([0, 1, 2]), rng.choice([("none",), ("lit", True)]), states, n=k)
            k += 1
        # a literal inside a body next to a captured value of unknown type
        d.loop(2, ("none",), [("v", 0), ("lit", 1)],
               body_fn=lambda dd, body, vin: dd.op("Add", [("v", dd.op("Mul", [("v", u), ("lit", 0.5)], [(F, sh)], into=body)), ("v", vin)],
                                                   [(F, sh)], into=body), n=k)
        d.scan([("v", 0), ("lit", rng.choice(state_lits)), ("lit", rng.choice(state_lits))], 2, n=0)
        d.scan([("lit", rng.choice(state_lits)), ("v", u)], 2, n=1)
        d.scan([("lit", rng.choice(state_lits))], 2, n=2)
        out.append(d.trace())
    return out


# --------------------------------------------------------------------------- observation of the real builder

def _formal_class(schema, i):
    """(variadic class of position i, type_str or None)"""
    fs = schema.inputs
    if i < len(fs):
        f = fs[i]
        var = str(f.option).endswith("Variadic")
        return ("homog" if f.is_homogeneous else "hetero-head") if var else "single", f.type_str
    if fs and str(fs[-1].option).endswith("Variadic"):
        return ("homog", fs[-1].type_str) if fs[-1].is_homogeneous else ("hetero-tail", None)
    return "beyond", None


def _val_string(arr):
    return f"{arr.dtype}:{arr.shape}:{arr.tobytes().hex()}"


class Mismatch(Exception):
    pass


def observe_call(s, info, idmap):
    """-> (observed operands, per-literal facts) read off the node the real builder created for step `s`."""
    vals = info["vals"]
    node = vals[s["ids"][0]].producer()
    if node is None or node.op_type != s["op"]:
        raise Mismatch(f"value {s['ids'][0]} is not produced by a {s['op']} node")
    obs, facts = [], []
    for i, a in enumerate(s["args"]):
        got = node.inputs[i] if i < len(node.inputs) else None
        if a[0] == "v":
            if got is not vals[a[1]]:
                raise Mismatch(f"{s['op']} input {i} is not the value passed")
            obs.append(("v", a[1]))
        elif a[0] == "none":
            if got is not None:
                raise Mismatch(f"{s['op']} input {i}: omitted input became {got.name}")
            obs.append(("none",))
        else:
            _t, value, desc, like_h = a
            if got is None:
                raise Mismatch(f"{s['op']} input {i}: literal {value!r} became None")
            like = None
            const = got
            p = got.producer()
            if p is not None:
                if p.op_type != "CastLike":
                    raise Mismatch(f"{s['op']} input {i}: literal {value!r} became the output of {p.op_type}")
                const = p.inputs[0]
                like = idmap.get(id(p.inputs[1]))
                if like is None:
                    raise Mismatch(f"{s['op']} input {i}: CastLike target {p.inputs[1].name} is not a value of the trace")
            if const.const_value is None or const.producer() is not None:
                raise Mismatch(f"{s['op']} input {i}: literal {value!r} is not an initializer")
            arr = const.const_value.numpy()
            real = _val_string(arr)
            if const.type is None or const.type.dtype.numpy() != arr.dtype:
                raise Mismatch(f"{s['op']} input {i}: initializer {const.name} declares {const.type} but holds {arr.dtype}")
            obs.append(("lit", value, dict(key=const.name, name=desc["name"], val=real), like))
            facts.append(dict(pos=i, value=value, real=real, like=like, harness_val=desc["val"], harness_like=like_h,
                              harness_key=desc["key"]))
    return obs, facts


def c_toperand(a, tr, info):
    if a[0] == "v":
        return f"(TVal {cnat(a[1])} {DCODE[tr['types'][a[1]][0]]}%N {'true' if info['typed'][a[1]] else 'false'})"
    if a[0] == "none":
        return "TNone"
    _t, value, d, _like = a
    kind, txt = d["name"]
    nm = f"(LNFixed {cstr(txt)})" if kind == "fixed" else f"(LNIndexed {cstr(txt)})"
    payload = d["val"].split(":", 1)[1]
    return f"(TLit (TL {C12.c_literal(list(value) if isinstance(value, tuple) else value)} {cstr(d['key'])} {nm} {cstr(payload)}))"


def c_operand(a):
    if a[0] == "v":
        return f"(OVal {cnat(a[1])})"
    if a[0] == "none":
        return "ONone"
    _t, _v, d, like = a
    return f"(OLit {TR.lit_lit(d)})" if like is None else f"(OLitCast {TR.lit_lit(d)} {cnat(like)})"


def _pykind(v):
    h = v[0] if isinstance(v, (list, tuple)) else v
    k = "bool" if isinstance(h, bool) else ("int" if isinstance(h, int) else "float")
    return k + ("-list" if isinstance(v, (list, tuple)) else "")


def oracle(tr, info):
    """The property itself on this trace: onnxruntime (no optimisation) = the NumPy reading.  -> None | text"""
    try:
        TR.uniquify_for_execution(info)
        proto = TR.serialize(info)
        sess = TR.ort_session(proto)
    except Exception as e:  # noqa: BLE001
        return f"onnxruntime rejects the model: {str(e)[:300]}"
    for k in range(3):
        feeds = TR.make_feeds(tr, k)
        try:
            got = sess.run(None, feeds)
        except Exception as e:  # noqa: BLE001
            return f"onnxruntime fails: {str(e)[:300]}"
        want = TR.np_replay(tr, feeds)
        for j, (a, b) in enumerate(zip(got, want)):
            if not TR.close(a, b):
                return (f"input set {k}: output {j} = {np.asarray(a).ravel()[:4]} ({np.asarray(a).dtype}) but the NumPy reading gives "
                        f"{np.asarray(b).ravel()[:4]} ({np.asarray(b).dtype})")
    return None


# --------------------------------------------------------------------------- the check

NAMED = [True]


def probe_named(ctx):
    """C12's builder variant: does GraphBuilder promote a literal outside the cached path (a list mixing float and
    int) under a generated name (repo fix 4f6059b), or raise ValueError('Initializer must have a name')?"""
    import onnx_ir as ir
    from onnxscript._internal import builder as B

    g = ir.Graph(name="g", inputs=[], outputs=[], nodes=[], opset_imports={"": TR.OPSET})
    gb = B.GraphBuilder(g)
    x = gb.input("x", dtype=ir.DataType.FLOAT, shape=[2])
    try:
        y = gb.op.Add(x, [1.5, 2])
        c = y.producer().inputs[1]
        if c is not None and c.name in g.initializers and c.name:
            return True
        ctx.tie_broken("translator", "probe:uncached-constant", f"unexpected operand {c!r} for a mixed-type list literal")
        return True
    except ValueError as e:
        if "must have a name" in str(e):
            return False
        ctx.tie_broken("translator", "probe:uncached-constant", f"unexpected error {e!r} for a mixed-type list literal")
        return False


def run_lits(ctx):
    t0 = time.time()
    rng = ctx.rng
    NAMED[0] = probe_named(ctx)
    ctx.cover(lits_probed_builder_names_uncached_constants=NAMED[0])
    # the registry theorems and the lookup quantify over: regenerated from onnx.defs by C12's translator
    if hasattr(C12, "regenerate"):
        C12.regenerate(ctx)
    reg = C12._STATE.get("reg")
    if reg is None:
        ctx.tie_broken("translator", "onnx.defs -> Gen/Schemas.v", "C12's registry translation failed; literal check not run")
        return
    ok, _log = ctx.build(["Builder/TraceLit.vo"])
    if not ok:
        return
    in_reg = {(r["name"], r["since"]) for r in reg}

    n_random = 120 if ctx.tier == "quick" else 1500
    traces = list(TR.directed_traces()) + literal_traces(rng, ctx.tier)
    n_directed = len(traces)
    for _ in range(n_random):
        traces.append(TR.gen_trace(rng, n_steps=rng.choice([3, 6, 10, 14])))

    cases, meta = [], []          # Coq literals; (trace index, description, class key)
    cnt = {"calls": 0, "literals": 0, "castlike": 0, "const_static": 0, "const_default": 0, "in_body": 0, "unknown_siblings": 0,
           "harness_rule_differs": 0, "untyped_values": 0}
    ops_seen, suspects = set(), {}
    kept = {}

    def suspect(t, why):
        suspects.setdefault(t, []).append(why)

    for t, tr in enumerate(traces):
        try:
            info = TR.execute(tr, mode="call")
        except Exception as e:  # noqa: BLE001
            ctx.tie_broken("harness", "c18_lits:execute", f"trace {t}: {type(e).__name__}: {str(e)[:300]}; trace {repr(tr)[:1500]}")
            continue
        idmap = {id(v): i for i, v in info["vals"].items()}
        cnt["untyped_values"] += sum(1 for v in info["typed"].values() if not v)
        for i, known in info["typed"].items():
            v = info["vals"][i]
            if known and i in tr["types"] and v.type is not None and int(v.type.dtype) != DCODE[tr["types"][i][0]]:
                suspect(t, f"value {i} ({v.name}) has builder dtype {v.type.dtype} but the trace declares {tr['types'][i][0]}")

        def walk(steps, depth):
            for s in steps:
                for _k, sb in s.get("subs", []):
                    walk(sb["body"], depth + 1)
                if s["kind"] != "op" or not any(a[0] == "lit" for a in s["args"]):
                    continue
                schema = TR._schema(s["op"])
                if (s["op"], schema.since_version) not in in_reg:
                    ctx.tie_broken("translator", "Gen/Schemas.v", f"{s['op']}-{schema.since_version} is not in C12's registry")
                    continue
                try:
                    obs, facts = observe_call(s, info, idmap)
                except Mismatch as e:
                    suspect(t, f"observation: {e}")
                    continue
                cnt["calls"] += 1
                cnt["in_body"] += depth > 0
                ops_seen.add(s["op"])
                for f in facts:
                    cnt["literals"] += 1
                    cls, tstr = _formal_class(schema, f["pos"])
                    sib = [a for j, a in enumerate(s["args"]) if j != f["pos"] and a[0] == "v" and tstr is not None
                           and "(" not in tstr and _formal_class(schema, j)[1] == tstr]
                    if f["like"] is not None:
                        sk = "sibling-unknown"
                        cnt["castlike"] += 1
                    elif sib:
                        sk = "sibling-known"
                        cnt["const_static"] += 1
                    else:
                        sk = "no-sibling"
                        cnt["const_default"] += 1
                    if any(not info["typed"][a[1]] for a in sib):
                        cnt["unknown_siblings"] += 1
                    f["cls"] = f"{s['op']}:{_pykind(f['value'])}:{cls}:{sk}"
                    ctx.case(("lit", s["op"], _pykind(f["value"]), min(f["pos"], 4), cls, sk, f["real"].split(":")[0], depth > 0))
                    # the harness's independent rule (c18_traces.literal_dtypes / LitState.describe: what is printed
                    # to the trace model today) against the real node
                    if f["harness_val"] != f["real"] or f["harness_like"] != f["like"] or f["harness_key"] != obs[f["pos"]][2]["key"]:
                        cnt["harness_rule_differs"] += 1
                        suspect(t, f"{s['op']} operand {f['pos']} = {f['value']!r}: the real node has {f['real']} like={f['like']}, "
                                   f"c18_traces' rule says {f['harness_val']} like={f['harness_like']}")
                targs = clist([c_toperand(a if a[0] != "lit" else obs[i], tr, info) for i, a in enumerate(s["args"])])
                cases.append(f"({cstr(s['op'])}, {schema.since_version}%N, {targs}, {clist([c_operand(a) for a in obs])})")
                meta.append((t, f"{s['op']}({', '.join(repr(a[1]) if a[0] == 'lit' else ('None' if a[0] == 'none' else ('v%d:%s%s' % (a[1], tr['types'][a[1]][0], '' if info['typed'][a[1]] else '?'))) for a in s['args'])})",
                             facts[0]["cls"] if facts else s["op"]))

        walk(info["steps"], 0)
        kept[t] = (tr, info)
        if len(kept) > 40 and t not in suspects:      # keep memory bounded; a disagreeing trace is re-executed
            kept.pop(t, None)

    if cases:
        ctx.sample({"model": "C/literals", "case": cases[0][:1200]})
    bodies = [f"Definition cases : list lit_case := {clist(cases[a:a + SHARD])}.\n"
              f"Eval vm_compute in (lits_disagreeing {common.cbool(NAMED[0])} {TR.OPSET}%N 0 cases).\n" for a in range(0, len(cases), SHARD)]
    res = ctx.coq_eval_shards(REQ, bodies, par=4) if bodies else []
    bad = []
    for k, (okc, vals, raw) in enumerate(res):
        if not okc or not vals:
            ctx.tie_broken("correspondence", "modelC:literal-dtype:evaluation", raw[-1500:])
            continue
        bad += [k * SHARD + j for j in common.parse_nat_list(vals[0])]
    for j in bad:
        suspect(meta[j][0], f"call {meta[j][1]}: operands observed on the real builder differ from TraceLit.promote_call (C12 promote_builder)")

    # ---- a disagreement: the direct oracle first
    reported = 0
    for t in sorted(suspects):
        if reported >= 5:
            break
        reported += 1
        tr = traces[t]
        why = "; ".join(suspects[t][:3])
        try:
            info = kept[t][1] if t in kept else TR.execute(tr, mode="call")
            verdict = oracle(tr, info)
        except Exception as e:  # noqa: BLE001
            verdict = None
            why += f" (oracle not evaluated: {type(e).__name__}: {str(e)[:200]})"
        cls = next((meta[j][2] for j in bad if meta[j][0] == t), "observation")
        detail = ""
        js = [j for j in bad if meta[j][0] == t][:2]
        if js:
            okc, vals, raw = ctx.coq_eval(REQ, "".join(
                f"Eval vm_compute in (let '(name, since, targs, obs) := {cases[j]} in "
                f"(match schema_at name {TR.OPSET}%N with Some s => promote_call {common.cbool(NAMED[0])} (TC s targs) | None => None end, obs)).\n" for j in js))
            detail = " | (derived, observed) = " + (" ;; ".join(v[:700] for v in vals) if okc else raw[-400:])
        if verdict is not None:
            ctx.violation(f"C18:literal:{cls}", f"trace {t}: {verdict}; {why}", {"trace": repr(tr)[:6000], "why": why})
        else:
            ctx.tie_broken("correspondence", "modelC:literal-dtype", f"trace {t}: {why}{detail}; onnxruntime agrees with the NumPy reading on this trace")

    ctx.obligation("correspondence C/literals: on every operator call with a literal operand the real GraphBuilder produces the operand kinds "
                   "(value / None / constant / CastLike(constant, like)), the like-value and the constant element type that "
                   "TraceLit.promote_call derives from C12's promote_builder (schema looked up in Gen/Schemas by name, opset 21); "
                   "c18_traces' own literal rule agrees with the real node too",
                   not suspects, f"{len(bad)} model disagreements, {len(suspects)} suspect traces of {len(traces)}")
    ctx.cover(lit_traces=len(traces), lit_traces_directed=n_directed, lit_calls=cnt["calls"], lit_literals=cnt["literals"],
              lit_castlike=cnt["castlike"], lit_const_at_sibling_dtype=cnt["const_static"], lit_const_at_python_dtype=cnt["const_default"],
              lit_calls_in_bodies=cnt["in_body"], lit_literals_beside_unknown_typed_value=cnt["unknown_siblings"],
              lit_ops=sorted(ops_seen), lit_harness_rule_differs=cnt["harness_rule_differs"], lit_untyped_values=cnt["untyped_values"],
              lit_model_disagreements=len(bad), lit_seconds=round(time.time() - t0, 1))
    ctx.assume("C18 literals: the element type of a value whose type the builder does not know at construction time is the one the trace "
               "generator declares (checked by the onnxruntime oracle of run_traces on the same generator)")


# --------------------------------------------------------------------------- mixed-type list literals (unbound positions)

def _mixed_lists(rng, n_random):
    """List / tuple literals mixing Python ints, floats and bools: int-first, float-first, bool-first."""
    out = [[2, 0.5], [1, 2.5], [3, 0.5], [0.5, 2], [2, 0.5, 3], [0, 0.25], (2, 0.5), [1, 1.5, 2, 2.5], [2.0, 3], [True, 0.5], [2, True, 0.5]]
    for _ in range(n_random):
        k = rng.choice([2, 2, 3, 4])
        l = [rng.choice([rng.randrange(0, 5), rng.choice([0.5, 1.5, 0.25, 2.5, 3.0])]) for _ in range(k)]
        if all(isinstance(v, int) for v in l):
            l[rng.randrange(1, k)] = rng.choice([0.5, 1.5, 0.25])
        if all(isinstance(v, float) for v in l):
            l[rng.randrange(k)] = rng.randrange(0, 5)
        if rng.random() < 0.5 and not isinstance(l[0], int):         # int first: the dtype may not come from element 0
            j = next(i for i, v in enumerate(l) if isinstance(v, int))
            l[0], l[j] = l[j], l[0]
        out.append(tuple(l) if rng.random() < 0.15 else l)
    return out


def _build_mixed(kind, lit, lit2):
    """One small model on the real GraphBuilder with a mixed list literal in an operand position that no tensor of
    known dtype binds.  -> (proto, feeds, expected outputs by NumPy, [(op, args spec, node)])"""
    import onnx_ir as ir
    from onnxscript._internal import builder as B

    n = len(lit)
    g = ir.Graph(name="g", inputs=[], outputs=[], nodes=[], opset_imports={"": TR.OPSET})
    gb = B.GraphBuilder(g)
    op = gb.op
    rs = np.random.RandomState(n * 7 + 3)
    x_np = (rs.randint(1, 9, size=(n,)) * 0.5 + 0.5).astype(np.float64)
    la = np.array(list(lit), dtype=np.float64)
    calls = []
    if kind == "pow-exponent":              # Pow: the exponent has its own type variable T1
        x = gb.input("x", dtype=ir.DataType.DOUBLE, shape=[n])
        y = op.Pow(x, lit)
        calls.append(("Pow", [("v", 0, 11, True), ("lit", lit)], y.producer()))
        want = [np.power(x_np, la)]
        feeds = {"x": x_np}
    elif kind == "all-literals":            # nothing binds T
        l2 = [3 + (len(lit2) % 2)] + [0.5 + i for i in range(n - 1)]      # mixed too (int first): both operands double
        y0 = op.Mul(lit, l2)
        calls.append(("Mul", [("lit", lit), ("lit", l2)], y0.producer()))
        y = op.Add(op.Cast(y0, to=ir.DataType.DOUBLE), gb.input("x", dtype=ir.DataType.DOUBLE, shape=[n]))
        want = [la * np.array(l2, dtype=np.float64) + x_np]
        feeds = {"x": x_np}
    else:                                   # next to a value whose dtype the builder does not know: CastLike(constant, like)
        x = gb.input("x", dtype=None, shape=None)
        y = op.Add(x, lit) if kind == "unknown-sibling-add" else op.Mul(lit, x)
        calls.append(("Add" if kind == "unknown-sibling-add" else "Mul",
                      [("v", 0, 11, False), ("lit", lit)] if kind == "unknown-sibling-add" else [("lit", lit), ("v", 0, 11, False)], y.producer()))
        x.type = ir.TensorType(ir.DataType.DOUBLE)
        x.shape = ir.Shape([n])
        want = [x_np + la if kind == "unknown-sibling-add" else la * x_np]
        feeds = {"x": x_np}
    if y.type is None:
        y.type = ir.TensorType(ir.DataType.DOUBLE)
    if y.shape is None:
        y.shape = ir.Shape([n])
    g.outputs.append(y)
    proto = ir.serde.serialize_model(ir.Model(g, ir_version=10))
    return proto, feeds, want, calls, x if kind.startswith("unknown") else None


def run_mixed_lists(ctx):
    """Seeded change C18-5 class: a list literal mixing ints and floats in a position no typed tensor binds must become
    a constant of the dtype C12's specification derives (numpy's inference over ALL elements, not the first one) holding
    the literal's values; the model must compute the traced call (onnxruntime vs NumPy)."""
    rng = ctx.rng
    lists = _mixed_lists(rng, 12 if ctx.tier == "quick" else 150)
    kinds = ["pow-exponent", "all-literals", "unknown-sibling-add", "unknown-sibling-mul"]
    cases, meta = [], []
    n_run = 0
    for li, lit in enumerate(lists):
        for kind in kinds:
            nviol = len(ctx.violations) + len(ctx.known_hits)
            lit2 = lists[(li + 3) % len(lists)]
            first = "bool" if isinstance(lit[0], bool) else "int" if isinstance(lit[0], int) else "float"
            ctx.case(("mixed-list", kind, first, len(lit), type(lit).__name__))
            doc = {"kind": kind, "literal": repr(lit), "second": repr(lit2)}
            try:
                proto, feeds, want, calls, unk = _build_mixed(kind, lit, lit2)
            except Exception as e:  # noqa: BLE001
                ctx.violation("C18:literal:mixed-list:builder-raises", f"{kind} with {lit!r}: {type(e).__name__}: {str(e)[:200]}", doc)
                continue
            # the constants: values = the literal, dtype = numpy's inference over all elements
            for (opname, spec, node) in calls:
                targs, obs = [], []
                for i, a in enumerate(spec):
                    got = node.inputs[i]
                    if a[0] == "v":
                        targs.append(f"(TVal {cnat(a[1])} {a[2]}%N {'true' if a[3] else 'false'})")
                        obs.append(f"(OVal {cnat(a[1])})")
                        continue
                    value = a[1]
                    const, like = got, None
                    p = got.producer() if got is not None else None
                    if p is not None and p.op_type == "CastLike":
                        const, like = p.inputs[0], 0
                    arr = const.const_value.numpy() if const is not None and const.const_value is not None else None
                    expect = np.array(list(value))
                    if arr is None or arr.dtype != expect.dtype or arr.shape != expect.shape or not np.array_equal(arr, expect):
                        ctx.violation("C18:literal:mixed-list:constant-differs-from-literal",
                                      f"{kind}: the list literal {value!r} became the constant "
                                      f"{None if arr is None else (str(arr.dtype), arr.tolist())}; the literal denotes {(str(expect.dtype), expect.tolist())}",
                                      dict(doc, constant=None if arr is None else arr.tolist()))
                    if arr is None:
                        continue
                    payload = f"{arr.shape}:{arr.tobytes().hex()}"
                    nm = f"(LNFixed {cstr(const.name)})"
                    targs.append(f"(TLit (TL {C12.c_literal(list(value))} {cstr(const.name)} {nm} {cstr(payload)}))")
                    litc = f"(Lit {cstr(const.name)} {nm} {cstr(str(arr.dtype) + ':' + payload)})"
                    obs.append(f"(OLit {litc})" if like is None else f"(OLitCast {litc} {cnat(like)})")
                if len(targs) == len(spec):
                    schema = TR._schema(opname)
                    cases.append(f"({cstr(opname)}, {schema.since_version}%N, {clist(targs)}, {clist(obs)})")
                    meta.append((kind, lit, nviol))
            # the property itself
            try:
                got = TR.ort_session(proto).run(None, feeds)
                n_run += 1
            except Exception as e:  # noqa: BLE001
                ctx.violation("C18:valid:onnxruntime-rejects", f"mixed list {lit!r} ({kind}): {str(e)[:300]}", doc)
                continue
            for j, (a, b) in enumerate(zip(got, want)):
                if np.asarray(a).shape != np.asarray(b).shape or not np.allclose(a, b, rtol=1e-9, atol=1e-12):
                    ctx.violation("C18:semantics:onnxruntime-differs-from-numpy-replay:mixed-list-literal",
                                  f"{kind} with {lit!r}: the model gives {np.asarray(a).ravel()[:4].tolist()}, the NumPy reading of the call "
                                  f"{np.asarray(b).ravel()[:4].tolist()}", doc)
                    break
    bad = []
    if cases:
        okc, vals, raw = ctx.coq_eval(REQ, f"Definition cases : list lit_case := {clist(cases)}.\n"
                                           f"Eval vm_compute in (lits_disagreeing {common.cbool(NAMED[0])} {TR.OPSET}%N 0 cases).\n")
        if not okc or not vals:
            ctx.tie_broken("correspondence", "modelC:mixed-list-dtype:evaluation", raw[-1200:])
        else:
            bad = [meta[j] for j in common.parse_nat_list(vals[0])]
    viol_marks = sorted({m[2] for m in meta})
    for (kind, lit, mark) in bad[:3]:
        nxt = next((x for x in viol_marks if x > mark), len(ctx.violations) + len(ctx.known_hits))
        if nxt > mark:          # the direct oracle already reported this call with its input
            continue
        ctx.tie_broken("correspondence", "modelC:mixed-list-dtype", f"{kind} with {lit!r}: the constant's element type / operand kind on the real builder is not "
                       "the one TraceLit.promote_call derives from C12's promote_builder, although its values equal the literal and onnxruntime agrees with NumPy")
    ctx.obligation("mixed-type list literals (int-first, float-first, bool-first; Pow exponent, all-literal Mul, CastLike beside a value of unknown dtype): "
                   "constant dtype and operand kind = TraceLit.promote_call (C12 promote_builder), constant values = the literal, onnxruntime = NumPy",
                   not bad, f"{len(bad)} disagreements of {len(cases)} calls")
    ctx.cover(mixed_list_literals=len(lists), mixed_list_calls=len(cases), mixed_list_models_run=n_run)
