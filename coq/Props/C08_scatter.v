(* C08 property theorems, scatter family (core.py: aten_scatter_src / _value / _add / _reduce): statements only.

   Only the trace-time logic in front of ScatterElements is modelled: Unsqueeze of 0-d index / src, Reshape of a 0-d self
   (scatter_reduce), the axis attribute, ScatterElements' shape rules (same rank, updates shaped like indices, indices within
   data off the axis) against PyTorch's scatter_shape_check.  NOT covered: the scattered values (kernel; direct oracle),
   reduce = "mean" (mapped to "none": a listed finding), duplicate indices. *)
From Coq Require Import ZArith List Bool.
Require Import OV.Torch.Onnx OV.Torch.Onnx2 OV.Torch.Onnx3 OV.Torch.Spec OV.Torch.Spec2 OV.Torch.Spec3 OV.Torch.Aten OV.Torch.Aten2
               OV.Torch.Aten3 OV.Torch.ScatterConvProofs OV.Torch.Examples3.
Import ListNotations.
Local Open Scope Z_scope.

Theorem C08_scatter_value_shape : forall s dim idx out,
  0 < zlen s -> prodZ idx <> 0 -> torch_scatter_shape s dim idx None = Some out -> aten_scatter_value_shape s dim idx = Some out.
Proof. exact scatter_value_correct. Qed.
Print Assumptions C08_scatter_value_shape.

Definition C08_scatter_src_shape_full : Prop := forall s dim idx src out,
  torch_scatter_shape s dim idx (Some src) = Some out -> aten_scatter_src_shape s dim idx src = Some out.
(* missing: src larger than index, 0-d self (both false of the code, see _refuted), an index without elements *)
Theorem C08_scatter_src_shape_partial : forall s dim idx out,
  0 < zlen s -> prodZ idx <> 0 -> torch_scatter_shape s dim idx (Some idx) = Some out -> aten_scatter_src_shape s dim idx idx = Some out.
Proof. exact scatter_src_partial. Qed.
Print Assumptions C08_scatter_src_shape_partial.
Theorem C08_scatter_add_shape_partial : forall s dim idx out,
  0 < zlen s -> 0 < zlen idx -> prodZ idx <> 0 ->
  torch_scatter_shape s dim idx (Some idx) = Some out -> aten_scatter_add_shape s dim idx idx = Some out.
Proof. exact scatter_add_partial. Qed.
Print Assumptions C08_scatter_add_shape_partial.
Theorem C08_scatter_reduce_shape_partial : forall s dim idx include_self out,
  0 < zlen s -> 0 < zlen idx -> prodZ idx <> 0 ->
  torch_scatter_shape s dim idx (Some idx) = Some out -> aten_scatter_reduce_shape s dim idx idx include_self = Some out.
Proof. exact scatter_reduce_partial. Qed.
Print Assumptions C08_scatter_reduce_shape_partial.

(* genuine defects *)
Theorem C08_scatter_src_larger_than_index_refuted : exists s dim idx src out,
  torch_scatter_shape s dim idx (Some src) = Some out /\ aten_scatter_src_shape s dim idx src = None
  /\ aten_scatter_add_shape s dim idx src = None /\ aten_scatter_reduce_shape s dim idx src true = None.
Proof. exact scatter_src_larger_refuted. Qed.
Print Assumptions C08_scatter_src_larger_than_index_refuted.
Theorem C08_scatter_rank0_self_refuted : exists dim idx out,
  torch_scatter_shape [] dim idx (Some idx) = Some out /\ aten_scatter_src_shape [] dim idx idx = None
  /\ aten_scatter_value_shape [] dim idx = None /\ aten_scatter_add_shape [] dim idx idx = None.
Proof. exact scatter_rank0_self_refuted. Qed.
Print Assumptions C08_scatter_rank0_self_refuted.
Theorem C08_scatter_add_rank0_index_refuted : exists s dim out,
  torch_scatter_shape s dim [] (Some []) = Some out /\ aten_scatter_src_shape s dim [] [] = Some out
  /\ aten_scatter_add_shape s dim [] [] = None /\ aten_scatter_reduce_shape s dim [] [] true = None.
Proof. exact scatter_add_rank0_index_refuted. Qed.
Print Assumptions C08_scatter_add_rank0_index_refuted.

(* repaired code (proposed_fixes/ready/C08_14_scatter_add_reduce_zero_dim_index.diff): no `0 < zlen idx` hypothesis any more *)
Theorem C08_scatter_add_shape_fixed : forall s dim idx out,
  0 < zlen s -> prodZ idx <> 0 ->
  torch_scatter_shape s dim idx (Some idx) = Some out -> aten_scatter_add_shape_v true s dim idx idx = Some out.
Proof. exact scatter_add_v_fixed. Qed.
Print Assumptions C08_scatter_add_shape_fixed.
Theorem C08_scatter_reduce_shape_fixed : forall s dim idx include_self out,
  0 < zlen s -> prodZ idx <> 0 ->
  torch_scatter_shape s dim idx (Some idx) = Some out -> aten_scatter_reduce_shape_v true s dim idx idx include_self = Some out.
Proof. exact scatter_reduce_v_fixed. Qed.
Print Assumptions C08_scatter_reduce_shape_fixed.

(* repaired code (proposed_fixes/ready/C08_17_scatter_zero_dim_self.diff): a 0-d self with a 0-d or 1-d index (src of the index's shape) *)
Theorem C08_scatter_src_zero_dim_fixed : forall dim idx out,
  (zlen idx <= 1) -> torch_scatter_shape [] dim idx (Some idx) = Some out -> aten_scatter_src_shape_v true [] dim idx idx = Some out.
Proof. exact scatter_src_zero_dim_fixed. Qed.
Print Assumptions C08_scatter_src_zero_dim_fixed.
Theorem C08_scatter_value_zero_dim_fixed : forall dim idx out,
  (zlen idx <= 1) -> torch_scatter_shape [] dim idx None = Some out -> aten_scatter_value_shape_v true [] dim idx = Some out.
Proof. exact scatter_value_zero_dim_fixed. Qed.
Print Assumptions C08_scatter_value_zero_dim_fixed.
(* on rank >= 1 the flagged variants are the functions of the theorems above *)
Theorem C08_scatter_v_rank_pos : forall sf s dim idx src, 0 < zlen s ->
  aten_scatter_src_shape_v sf s dim idx src = aten_scatter_src_shape s dim idx src /\
  aten_scatter_value_shape_v sf s dim idx = aten_scatter_value_shape s dim idx.
Proof. exact scatter_v_rank_pos. Qed.
Print Assumptions C08_scatter_v_rank_pos.
