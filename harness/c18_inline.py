"""C18, part 2: op.call_inline versus op.call ("inlining a function gives the same results as calling it, all value
and node names are unique", the built graph "is a valid model").

What is compared, per case = (function F, caller program), each built twice on the real GraphBuilder (op.call / op.call_inline):

 (1) correspondence with the Coq model OV.Builder.Inline (model D): the FunctionProto of F is printed as a `func`, every
     call_inline site as a `site` (scope, _prefix, _node_count(), names of the actuals at the time of the call, call-site
     attributes, _outputs); Coq evaluates `inline_matches` against the nodes the real call_inline added (read back from
     the serialized model: inputs, outputs, resolved attributes, nested graphs, node names at all nesting levels) and the
     names of the values it returned, and the hypotheses `inline_okb` / `inline_fresh` on the same site.  Only lists of
     indices come back.  Sites whose function returns a formal input or has non-unique inner value names are outside the
     (name-based) model and are not compared.  An inner node WITHOUT a name is given a name by onnx_ir's name authority
     when it is added to the graph; the model keeps "" -- such positions are masked (uniqueness is still checked below).
 (2) direct oracle: onnx.checker (full_check) on both models, onnxruntime (ORT_DISABLE_ALL, single-threaded) on 3 input
     sets fed by POSITION, call versus inline versus a hand-written NumPy reading of every function and caller program,
     graph input names of both models, and TR.name_report on the inline model (no value name defined twice in a graph,
     none redefining a visible name, none shared by disjoint subgraphs, no duplicate node names inside one graph).

Failing oracle observations are mapped by CAUSE to the specific keys K1..K5 below (genuine defects of the pinned tree),
anything else gets its own key "C18:inline:<class>".  A caller that deliberately uses a name of the builder's generated
namespace (graph input literally named "v_<f>_node_<n>/<inner>") is a broken precondition of the caller (the same
happens with plain ops); such cases are only required to be flagged by the model (inline_fresh = false).
"""
from __future__ import annotations

import time

import numpy as np

from harness import common, graphlit
from harness import c18_traces as TR
from harness.common import clist, cnat, copt, cstr

K1 = "C18:inline:subgraph-input-captures-caller-value"
K2 = "C18:inline:subgraph-input-names-not-unique"
K3 = "C18:inline:fewer-actuals-dangling-formal"
K4 = "C18:inline:returned-input-renames-caller-value"
K5 = "C18:call:nested-function-not-registered"

DOMAIN = "c18.fi"
REQUIRES = ["OV.Graph.Syntax", "OV.Builder.Strings", "OV.Builder.Naming", "OV.Builder.Inline"]
f32 = np.float32
_ORDER = {"then_branch": 0, "else_branch": 1, "body": 2}


# --------------------------------------------------------------------------- proto helpers

def _graph_attrs(n):
    return [a.g for a in sorted([a for a in n.attribute if a.type == a.GRAPH], key=lambda a: _ORDER.get(a.name, 9))]


def node_names_pre(nodes):
    out = []
    for n in nodes:
        out.append(n.name)
        for g in _graph_attrs(n):
            out.extend(node_names_pre(g.node))
    return out


def _walk_nodes(nodes):
    for n in nodes:
        yield n
        for g in _graph_attrs(n):
            yield from _walk_nodes(g.node)


def _sub_graphs(nodes):
    for n in nodes:
        for g in _graph_attrs(n):
            yield g
            yield from _sub_graphs(g.node)


# --------------------------------------------------------------------------- function pool

class Fn:
    """One function of the pool with the facts read from its FunctionProto."""

    def __init__(self, name, obj, kind, npf, attrs=None, optional=0, call_runs=True, scalar=()):
        import onnx_ir as ir
        self.name, self.obj, self.kind, self.np, self.optional, self.call_runs = name, obj, kind, npf, optional, call_runs
        self.scalar = set(scalar)               # input positions that must be scalars (given as literals only)
        self.attr_values = attrs or {}          # name -> list of Python values to supply
        self.fir = obj.function_ir if hasattr(obj, "function_ir") else obj
        self.fp = ir.serde.serialize_function(self.fir)
        fp = self.fp
        self.ins, self.outs = list(fp.input), list(fp.output)
        self.nin, self.nout = len(self.ins), len(self.outs)
        self.params = [(a, None) for a in fp.attribute] + [(a.name, a) for a in fp.attribute_proto]
        self.defaults = {}
        for a in fp.attribute_proto:
            self.defaults[a.name] = a.f if a.type == a.FLOAT else (a.i if a.type == a.INT else None)
        self.inner_node_names = node_names_pre(fp.node)
        self.sub_inputs = sorted({i.name for g in _sub_graphs(fp.node) for i in g.input})
        self.calls_fn = any(n.domain == DOMAIN for n in _walk_nodes(fp.node))
        self.returns_input = any(o in self.ins for o in self.outs)
        self.dup_output = len(set(self.outs)) != len(self.outs)
        self.has_if = any(n.op_type == "If" for n in _walk_nodes(fp.node))
        self.has_loop = any(n.op_type == "Loop" for n in _walk_nodes(fp.node))
        self.ref_attrs = sorted({a.ref_attr_name for n in _walk_nodes(fp.node) for a in n.attribute if a.ref_attr_name})
        self.ref_in_nested = any(a.ref_attr_name for g in _sub_graphs(fp.node) for n in g.node for a in n.attribute)
        self.uses = {x for n in _walk_nodes(fp.node) for x in n.input if x}
        defs = list(self.ins)
        for n in _walk_nodes(fp.node):
            defs.extend(o for o in n.output if o)
        for g in _sub_graphs(fp.node):
            defs.extend(i.name for i in g.input)
        self.ssa = len(set(defs)) == len(defs)
        self.inner_values = [o for n in fp.node for o in n.output if o]
        self.modelled = self.ssa and not self.returns_input

    def check_params(self):
        """The declared attribute parameters of the proto against function_ir.attributes."""
        decl = {k: (v.value is not None) for k, v in self.fir.attributes.items()}
        got = {k: (a is not None) for k, a in self.params}
        return decl == got, f"{self.name}: proto {got} vs function_ir.attributes {decl}"

    def lit(self):
        params = clist([f"({cstr(k)}, {copt(a, lambda a_: graphlit.attr_lit(a_)[1])})" for k, a in self.params])
        body = clist([TR.node_lit_sorted(n) for n in self.fp.node])
        return f"(Func {cstr(self.fp.domain)} {cstr(self.fp.name)} {clist(self.ins, cstr)} {params} {body} {clist(self.outs, cstr)})"


_POOL = None


def _leaky(x, s):
    return np.where(x >= 0, x, f32(s) * x).astype(f32)


def pool():
    global _POOL
    if _POOL is not None:
        return _POOL
    import onnx_ir as ir
    from onnxscript import opset21 as op21
    from onnxscript import script
    from onnxscript._internal import builder as B
    from onnxscript.values import Opset

    dom = Opset(DOMAIN, 1)

    @script(dom)
    def mul_add_relu(X, Y):
        tmp = op21.Mul(X, Y)
        tmp2 = op21.Add(tmp, X)
        return op21.Relu(tmp2)

    @script(dom)
    def add_mul(X, Y):
        a = op21.Add(X, Y)
        b = op21.Mul(X, a)
        return a, b

    @script(dom)
    def scaled_d(X, alpha: float = 2.0):
        a = op21.Constant(value_float=alpha)
        return op21.Mul(X, a)

    @script(dom)
    def scaled_n(X, alpha: float):
        a = op21.Constant(value_float=alpha)
        t = op21.Mul(X, a)
        return op21.Tanh(t)

    @script(dom)
    def leaky_d(X, slope: float = 0.1):
        return op21.LeakyRelu(X, alpha=slope)

    # declared defaults that are FALSY and differ from the operator's own default (LeakyRelu alpha 0.01, Elu alpha 1.0,
    # Flatten axis 1): dropping the default while inlining silently falls back to the operator's default
    @script(dom)
    def leaky_z(X, slope: float = 0.0):
        return op21.LeakyRelu(X, alpha=slope)

    @script(dom)
    def elu_z(X, alpha: float = 0.0):
        return op21.Elu(X, alpha=alpha)

    @script(dom)
    def flat_sum(X, ax: int = 0):
        f = op21.Flatten(X, axis=ax)
        one = op21.Constant(value_ints=[1])
        s = op21.ReduceSum(f, one, keepdims=0)
        return op21.Add(X, s)

    @script(dom)
    def withif(X, Y):
        t = op21.Add(X, Y)
        c = op21.ReduceSum(t, keepdims=0)
        z = op21.Constant(value_float=0.0)
        cond = op21.Greater(c, z)
        if cond:
            r = op21.Mul(t, X)
        else:
            r = op21.Sub(t, Y)
        return op21.Relu(r)

    @script(dom)
    def ifattr(X, alpha: float = 2.0):
        z = op21.Constant(value_float=0.0)
        c = op21.ReduceSum(X, keepdims=0)
        cond = op21.Greater(c, z)
        if cond:
            a = op21.Constant(value_float=alpha)
            r = op21.Mul(X, a)
        else:
            r = op21.LeakyRelu(X, alpha=alpha)
        return r

    @script(dom)
    def withloop(X, n: int = 3):
        acc = op21.Identity(X)
        for i in range(n):
            acc = op21.Add(acc, X)
        return acc

    @script(dom)
    def loop2(X, Y):
        t = op21.Mul(X, Y)
        acc = op21.Identity(X)
        for i in range(2):
            u = op21.Add(acc, t)
            acc = op21.Sub(u, Y)
        return op21.Add(acc, t)

    @script(dom)
    def inner(X):
        return op21.Neg(X)

    @script(dom)
    def outer(X, Y):
        t = inner(X)
        return op21.Add(t, Y)

    def bf(name, fn, ins):
        return B.build_function(fn, [B.make_value(i) for i in ins], domain=DOMAIN, name=name, opset_imports={"": TR.OPSET})

    twice_minus = bf("twice_minus", lambda op, x, y: op.Sub(op.Mul(x, 2.0), y), ["x", "y"])
    neg_abs = bf("neg_abs", lambda op, x: (op.Neg(x), op.Abs(x)), ["x"])
    clipf = bf("clipf", lambda op, x, lo: op.Clip(x, lo), ["x", "lo"])
    ident = bf("ident", lambda op, x, y: (x, op.Add(x, y)), ["x", "y"])

    def _dup(op, x):
        t = op.Neg(x)
        return (t, t)
    dup = bf("dup", _dup, ["x"])

    def hand(name, make):
        ins, outs, nodes = make()
        g = ir.Graph(inputs=ins, outputs=outs, nodes=nodes, opset_imports={"": TR.OPSET}, name=name)
        return g

    def mk_hand1():
        x, y = ir.Value(name="x"), ir.Value(name="y")
        n0 = ir.node("Add", [x, y], outputs=[ir.Value(name="tmp")], name="n0")
        n1 = ir.node("Mul", [n0.outputs[0], x], outputs=[ir.Value(name="a")], name="m")
        n2 = ir.node("Sub", [n1.outputs[0], y], outputs=[ir.Value(name="v_Add_0")], name="Add_node_0")
        return [x, y], [n2.outputs[0]], [n0, n1, n2]
    g1 = hand("hand1", mk_hand1)
    list(g1)[1].name = None      # an inner node without a name
    hand1 = ir.Function(DOMAIN, "hand1", graph=g1, attributes=[])

    def mk_handif():
        x, y = ir.Value(name="tmp"), ir.Value(name="y")     # a formal named like a caller value
        s = ir.node("ReduceSum", [x], attributes={"keepdims": 0}, outputs=[ir.Value(name="s")], name="rs")
        z = ir.node("ReduceSum", [y], attributes={"keepdims": 0}, outputs=[ir.Value(name="v_tmp")], name="rz")
        c = ir.node("Less", [s.outputs[0], z.outputs[0]], outputs=[ir.Value(name="c")], name="lt")
        t0 = ir.node("Mul", [x, y], outputs=[ir.Value(name="a")], name="n0")
        t1 = ir.node("Add", [t0.outputs[0], s.outputs[0]], outputs=[ir.Value(name="x")], name="n1")
        tg = ir.Graph(inputs=[], outputs=[t1.outputs[0]], nodes=[t0, t1], opset_imports={"": TR.OPSET}, name="tg")
        e0 = ir.node("Sub", [x, y], outputs=[ir.Value(name="v_Add_0")], name="n0")
        eg = ir.Graph(inputs=[], outputs=[e0.outputs[0]], nodes=[e0], opset_imports={"": TR.OPSET}, name="eg")
        i = ir.node("If", [c.outputs[0]], attributes={"then_branch": tg, "else_branch": eg}, outputs=[ir.Value(name="v_If_0")], name="If_node_0")
        o = ir.node("Neg", [i.outputs[0]], outputs=[ir.Value(name="res")], name="neg")
        return [x, y], [o.outputs[0]], [s, z, c, i, o]
    handif = ir.Function(DOMAIN, "handif", graph=hand("handif", mk_handif), attributes=[])

    def np_withif(a, x, y):
        t = x + y
        return (np.maximum(t * x if t.sum() > 0 else t - y, 0).astype(f32),)

    def np_ifattr(a, x):
        return ((x * f32(a["alpha"])) if x.sum() > 0 else _leaky(x, a["alpha"]),)

    def np_withloop(a, x):
        acc = x
        for _ in range(int(a["n"])):
            acc = acc + x
        return (acc,)

    def np_loop2(a, x, y):
        t = x * y
        acc = x
        for _ in range(2):
            acc = (acc + t) - y
        return (acc + t,)

    def np_handif(a, x, y):
        return (-(x * y + x.sum()) if x.sum() < y.sum() else -(x - y),)

    _POOL = [
        Fn("mul_add_relu", mul_add_relu, "script", lambda a, x, y: (np.maximum(x * y + x, 0).astype(f32),)),
        Fn("add_mul", add_mul, "script", lambda a, x, y: ((x + y).astype(f32), (x * (x + y)).astype(f32))),
        Fn("scaled_d", scaled_d, "script", lambda a, x: ((x * f32(a["alpha"])).astype(f32),), attrs={"alpha": [0.5, 1.5, -3.0]}),
        Fn("scaled_n", scaled_n, "script", lambda a, x: (np.tanh(x * f32(a["alpha"])).astype(f32),), attrs={"alpha": [0.5, 2.0]}),
        Fn("leaky_d", leaky_d, "script", lambda a, x: (_leaky(x, a["slope"]),), attrs={"slope": [0.3, 0.01]}),
        Fn("leaky_z", leaky_z, "script", lambda a, x: (_leaky(x, a["slope"]),), attrs={"slope": [0.0, 0.3]}),
        Fn("elu_z", elu_z, "script", lambda a, x: (np.where(x >= 0, x, f32(a["alpha"]) * (np.exp(x) - f32(1.0))).astype(f32),), attrs={"alpha": [0.0, 1.5]}),
        Fn("flat_sum", flat_sum, "script", lambda a, x: ((x + (x.sum(dtype=f32) if int(a["ax"]) == 0 else x)).astype(f32),), attrs={"ax": [0, 1]}),
        Fn("withif", withif, "script", np_withif),
        Fn("ifattr", ifattr, "script", np_ifattr, attrs={"alpha": [0.5, 3.0]}),
        Fn("withloop", withloop, "script", np_withloop, attrs={"n": [1, 2, 4]}),
        Fn("loop2", loop2, "script", np_loop2),
        Fn("outer", outer, "script", lambda a, x, y: ((-x) + y,)),
        Fn("twice_minus", twice_minus, "ir", lambda a, x, y: ((x * f32(2.0)) - y,)),
        Fn("neg_abs", neg_abs, "ir", lambda a, x: (-x, np.abs(x))),
        Fn("clipf", clipf, "ir", lambda a, x, lo=None: (x if lo is None else np.maximum(x, lo).astype(f32),), optional=1, scalar=(1,)),
        Fn("ident", ident, "ir", lambda a, x, y: (x, x + y), call_runs=False),
        Fn("dup", dup, "ir", lambda a, x: (-x, -x), call_runs=False),
        Fn("hand1", hand1, "hand", lambda a, x, y: (((x + y) * x) - y,)),
        Fn("handif", handif, "hand", np_handif),
    ]
    return _POOL


def fn_by_name(name):
    return next(f for f in pool() if f.name == name)


# --------------------------------------------------------------------------- caller programs

def mk_prog(fn, inputs=("x", "y"), pre=(), calls=None, where="top", post=False, planted=None, tag="directed"):
    """inputs: raw graph input names (float32 [2]); pre: (source pool index, _outputs name) Identity nodes making caller
    values; calls: dicts(actuals, attrs, outnames, scope, prefix); where: top | then (inside a builder.subgraph used
    as the then_branch of an If); post: outputs go through Identity; planted: a caller name chosen equal to a generated name."""
    return dict(fn=fn, inputs=list(inputs), pre=[list(p) for p in pre], calls=calls, where=where, post=post, planted=planted, tag=tag)


def mk_call(actuals, attrs=None, outnames=None, scope="", prefix=""):
    return dict(actuals=[list(a) for a in actuals], attrs=dict(attrs or {}), outnames=outnames, scope=scope, prefix=prefix)


def V(i):
    return ("v", i)


def directed():
    out = []
    P, C = mk_prog, mk_call
    # plain, scopes, prefixes, _outputs
    out.append(P("mul_add_relu", calls=[C([V(0), V(1)])]))
    out.append(P("mul_add_relu", calls=[C([V(0), V(1)], scope="enc", prefix="p")]))
    out.append(P("mul_add_relu", calls=[C([V(0), V(1)], outnames=["tmp"], scope="layers.0")]))
    out.append(P("add_mul", calls=[C([V(0), V(1)], outnames=["a", "res"], prefix="blk")]))
    out.append(P("add_mul", pre=[(0, "tmp"), (1, "a")], calls=[C([V(2), V(3)])], post=True))
    # caller values named like inner values / generated names
    out.append(P("hand1", inputs=("tmp", "a"), pre=[(0, "Add_0")], calls=[C([V(0), V(2)])]))
    out.append(P("hand1", inputs=("v_Add_0", "a"), calls=[C([V(0), V(1)])]))
    out.append(P("handif", inputs=("tmp", "x"), pre=[(1, "tmp")], calls=[C([V(2), V(0)])]))
    out.append(P("handif", inputs=("a", "v_Add_0"), calls=[C([V(0), V(1)], scope="a.b", outnames=["x"])]))
    out.append(P("withif", inputs=("t", "r"), calls=[C([V(0), V(1)])]))
    out.append(P("withif", inputs=("x", "v_withif_node_1/t"), pre=[(0, "tmp")], calls=[C([V(0), V(1)])], planted="v_withif_node_1/t"))
    out.append(P("mul_add_relu", inputs=("x", "v_enc.enc/mul_add_relu_node_0/tmp"), calls=[C([V(0), V(1)], scope="enc")],
                 planted="v_enc.enc/mul_add_relu_node_0/tmp"))
    # attributes
    for f, k, v in (("scaled_d", "alpha", 0.5), ("scaled_n", "alpha", 2.0), ("leaky_d", "slope", 0.3), ("ifattr", "alpha", 3.0), ("withloop", "n", 2)):
        out.append(P(f, calls=[C([V(0)], attrs={k: v})]))
        out.append(P(f, calls=[C([V(1)])]))
    out.append(P("ifattr", calls=[C([V(0)], attrs={"alpha": 0.5}, scope="mlp", prefix="q", outnames=["r"])], where="then"))
    # falsy declared defaults (0.0 / 0), omitted at the call site, supplied falsy, supplied truthy
    for f, k, v in (("leaky_z", "slope", 0.3), ("elu_z", "alpha", 1.5), ("flat_sum", "ax", 1)):
        out.append(P(f, calls=[C([V(0)])]))
        out.append(P(f, calls=[C([V(1)], scope="enc", prefix="p")]))
        out.append(P(f, calls=[C([V(0)], attrs={k: v})]))
        out.append(P(f, calls=[C([V(0)], attrs={k: type(v)(0)})]))
    out.append(P("leaky_z", calls=[C([V(0)], outnames=["r"])], where="then"))
    # literal / None / fewer actuals
    out.append(P("mul_add_relu", calls=[C([V(0), ("lit", 3.0)])]))
    out.append(P("twice_minus", calls=[C([V(1), ("lit", 0.5)], scope="enc")]))
    out.append(P("clipf", calls=[C([V(0), ("none",)])]))
    out.append(P("clipf", calls=[C([V(0), ("lit", 0.25)])]))
    out.append(P("clipf", calls=[C([V(0)])]))                                        # K3
    out.append(P("clipf", inputs=("x", "lo"), calls=[C([V(0)])]))                     # K3, captures
    # loops
    out.append(P("withloop", calls=[C([V(0)])]))
    out.append(P("loop2", calls=[C([V(0), V(1)], prefix="p")]))
    out.append(P("withloop", inputs=("x", "acc_0"), calls=[C([V(1)])]))               # K1
    out.append(P("withloop", inputs=("x", "i"), calls=[C([V(0)])]))                   # K1 (shadowing only)
    out.append(P("loop2", inputs=("cond_in", "y"), calls=[C([V(0), V(1)])]))          # K1
    out.append(P("withloop", calls=[C([V(0)]), C([V(1)], attrs={"n": 2})]))           # K2
    out.append(P("loop2", calls=[C([V(0), V(1)]), C([V(2), V(0)], scope="enc")]))     # K2
    # twice
    out.append(P("mul_add_relu", calls=[C([V(0), V(1)]), C([V(2), V(0)])]))
    out.append(P("withif", calls=[C([V(0), V(1)], scope="enc"), C([V(1), V(2)], scope="dec", prefix="p")]))
    out.append(P("handif", calls=[C([V(0), V(1)]), C([V(1), V(0)])], where="then"))
    out.append(P("neg_abs", calls=[C([V(0)], outnames=["n", "a"]), C([V(3)], outnames=["n2", "a2"])]))
    # in a subgraph
    out.append(P("mul_add_relu", calls=[C([V(0), V(1)])], where="then"))
    out.append(P("withif", pre=[(0, "tmp")], calls=[C([V(2), V(1)], scope="blk_1")], where="then"))
    out.append(P("withloop", calls=[C([V(0)], attrs={"n": 1})], where="then"))
    out.append(P("twice_minus", calls=[C([V(0), ("lit", 3.0)])], where="then"))
    # function calling a function, returned input, duplicated output
    out.append(P("outer", calls=[C([V(0), V(1)])]))                                   # K5
    out.append(P("ident", calls=[C([V(0), V(1)])], post=True))                        # K4
    out.append(P("ident", pre=[(1, "x")], calls=[C([V(0), V(1)])], post=True))        # K4, not SSA
    out.append(P("ident", calls=[C([V(0), V(1)]), C([V(2), V(1)])], post=True))       # K4
    out.append(P("dup", calls=[C([V(0)])], post=True))
    out.append(P("dup", calls=[C([V(0)], outnames=["p", "q"])], post=True))
    out.append(P("dup", calls=[C([V(1)], scope="enc", prefix="z")], where="then", post=True))
    return out


IN_NAMES = ["tmp", "a", "v_Add_0", "acc_0", "i", "cond_in", "lo", "X", "Y", "t", "v_x", "acc", "r", "return_val", "v_tmp", "c"]
PRE_NAMES = ["tmp", "a", "Add_0", "t", "acc_0", "lo", "x", "X", "res", "Neg_0", "cond_in"]
SCOPES = ["", "", "", "enc", "layers.0", "a.b", "mlp"]
PREFIXES = ["", "", "", "p", "blk", "in.1"]


def random_prog(rng):
    F = rng.choice(pool())
    ninp = rng.choice([2, 2, 3])
    inputs = ["x", "y", "z"][:ninp]
    if rng.random() < 0.5:
        for k in rng.sample(range(ninp), rng.randint(1, ninp)):
            cand = rng.choice(IN_NAMES)
            if cand not in inputs:
                inputs[k] = cand
    pre = []
    for _ in range(rng.choice([0, 0, 1, 2])):
        nm = rng.choice(PRE_NAMES)
        if "v_" + nm in inputs or any(p[1] == nm for p in pre):
            continue
        pre.append([rng.randrange(ninp + len(pre)), nm])
    where = "then" if rng.random() < 0.2 else "top"
    ncalls = 2 if rng.random() < 0.25 else 1
    calls = []
    npool = ninp + len(pre)
    used_out = {p[1] for p in pre}
    for ci in range(ncalls):
        acts = []
        for k in range(F.nin):
            r = rng.random()
            if k in F.scalar:
                acts.append(["lit", rng.choice([0.25, -1.0])] if r < 0.6 else ["none"])
            elif k >= 1 and r < 0.12:
                acts.append(["lit", rng.choice([3.0, 0.5, -1.0, 2.0])])
            elif k >= F.nin - F.optional and r < 0.3:
                acts.append(["none"])
            else:
                acts.append(["v", rng.randrange(npool)])
        if F.optional and rng.random() < 0.2:
            acts = acts[:F.nin - F.optional]
        attrs = {}
        for k, vals in F.attr_values.items():
            if rng.random() < 0.6:
                attrs[k] = rng.choice(vals)
        outnames = None
        if rng.random() < 0.3:
            cands = [n for n in ["res", "out", "o.1", "y_"] + F.inner_values + F.ins if n not in used_out and "v_" + n not in inputs]
            rng.shuffle(cands)
            if len(cands) >= F.nout:
                outnames = [c + ("_b" if ci else "") for c in cands[:F.nout]]
                outnames = outnames if len(set(outnames)) == len(outnames) else None
        if outnames:
            used_out.update(outnames)
        calls.append(dict(actuals=acts, attrs=attrs, outnames=outnames, scope=rng.choice(SCOPES), prefix=rng.choice(PREFIXES)))
        npool += F.nout
    return mk_prog(F.name, inputs, pre, calls, where, post=rng.random() < 0.4, tag="random")


# --------------------------------------------------------------------------- running the real builder

def _caller_names(builder):
    """Every value name of the model under construction (all graphs of the builder tree and the graphs nested in their nodes)."""
    names = []

    def walk(g):
        names.extend(v.name for v in g.inputs if v.name)
        names.extend(k for k in g.initializers)
        for n in g:
            for a in n.attributes.values():
                if not a.is_ref() and a.type.name == "GRAPH":
                    walk(a.as_graph())
            names.extend(o.name for o in n.outputs if o.name)
    for g in builder._root._all_graphs:
        walk(g)
    return list(dict.fromkeys(names))


def build(prog, mode):
    """-> dict(proto, sites) ; sites only in inline mode."""
    import onnx_ir as ir
    from onnxscript._internal import builder as B

    F = fn_by_name(prog["fn"])
    FLOAT = ir.DataType.FLOAT
    g = ir.Graph(name="g", inputs=[], outputs=[], nodes=[], opset_imports={"": TR.OPSET, DOMAIN: 1})
    gb = B.GraphBuilder(g)
    vpool = [gb.input(nm, dtype=FLOAT, shape=[2]) for nm in prog["inputs"]]
    for src, nm in prog["pre"]:
        vpool.append(gb.op.Identity(vpool[src], _outputs=[nm]))
    sites = []
    wrap = prog["post"] or F.returns_input or F.dup_output

    def do_calls(builder):
        rets = []
        for c in prog["calls"]:
            if c["scope"]:
                builder.push_module(c["scope"])
            args, act_names = [], []
            for a in c["actuals"]:
                if a[0] == "v":
                    args.append(vpool[a[1]])
                    act_names.append(vpool[a[1]].name)
                elif a[0] == "lit":
                    act_names.append(builder._input_to_ir_value(a[1]).name)   # the cached initializer the call will use
                    args.append(a[1])
                else:
                    args.append(None)
                    act_names.append(None)
            kw = dict(c["attrs"])
            if c["outnames"]:
                kw["_outputs"] = list(c["outnames"])
            if mode == "call":
                r = builder.op.call(F.obj, *args, **kw)
            else:
                site = dict(call=c, count=builder._node_count(), scope=list(builder._scope_name_parts()), n0=builder.graph.num_nodes(),
                            actuals=act_names, caller_names=_caller_names(builder), sub=builder is not gb)
                if c["prefix"]:
                    kw["_prefix"] = c["prefix"]
                r = builder.op.call_inline(F.obj, *args, **kw)
                site["n1"] = builder.graph.num_nodes()
                site["rets"] = list(r) if isinstance(r, (list, tuple)) else [r]
                sites.append(site)
            if c["scope"]:
                builder.pop_module()
            r = list(r) if isinstance(r, (list, tuple)) else [r]
            vpool.extend(r)
            rets.extend(r)
        return rets

    if prog["where"] == "top":
        rets = do_calls(gb)
        outs = [gb.op.Identity(r) for r in rets] if wrap else rets
    else:
        nret = F.nout * len(prog["calls"])
        cond = gb.op.Less(gb.op.ReduceSum(vpool[0], keepdims=0), gb.op.ReduceSum(vpool[1], keepdims=0))

        def tf(op):
            rets = do_calls(op.builder)
            return [op.Identity(r) for r in rets] if wrap else rets
        tg = gb.subgraph(tf, [], [ir.Value(name=None) for _ in range(nret)], name="then_g")
        eg = gb.subgraph(lambda op: [op.Identity(vpool[0]) for _ in range(nret)], [], [ir.Value(name=None) for _ in range(nret)], name="else_g")
        for sg in (tg, eg):
            for ov in sg.outputs:
                ov.type = ir.TensorType(FLOAT)
                ov.shape = ir.Shape([2])
        outs = gb.op.If(cond, then_branch=tg, else_branch=eg, _outputs=nret)
        outs = list(outs) if isinstance(outs, (list, tuple)) else [outs]
    for v in outs:
        v.type = ir.TensorType(FLOAT)
        v.shape = ir.Shape([2])
        g.outputs.append(v)
    model = ir.Model(g, ir_version=10, functions=list(gb.functions.values()))
    proto = ir.serde.serialize_model(model)
    for s in sites:
        s["ret_names"] = [v.name for v in s["rets"]]
        del s["rets"]
    return dict(proto=proto, sites=sites)


def observed_nodes(proto, site):
    nodes = proto.graph.node
    if site["sub"]:
        ifn = [n for n in proto.graph.node if n.op_type == "If" and n.domain in ("", "ai.onnx")][-1]
        nodes = next(a.g for a in ifn.attribute if a.name == "then_branch").node
    return list(nodes)[site["n0"]:site["n1"]]


# --------------------------------------------------------------------------- NumPy reading of a caller program

def np_program(prog, feeds):
    """-> list of arrays, or None when the program has no reading (an attribute without value)."""
    F = fn_by_name(prog["fn"])
    vals = list(feeds)
    for src, _nm in prog["pre"]:
        vals.append(vals[src])
    rets = []
    for c in prog["calls"]:
        args = [vals[a[1]] if a[0] == "v" else (f32(a[1]) if a[0] == "lit" else None) for a in c["actuals"]]
        attrs = dict(F.defaults)
        attrs.update(c["attrs"])
        if any(attrs.get(k) is None for k, _ in F.params):
            return None
        if any(a is None for a in args[:F.nin - F.optional]) or len(args) < F.nin - F.optional:
            return None
        r = [np.broadcast_to(np.asarray(v, dtype=f32), (2,)).astype(f32) for v in F.np(attrs, *args)]
        vals.extend(r)
        rets.extend(r)
    if prog["where"] == "then":
        if not (f32(vals[0][0]) + f32(vals[0][1]) < f32(vals[1][0]) + f32(vals[1][1])):
            return [vals[0] for _ in rets]
    return rets


def make_feeds(n, k):
    rs = np.random.RandomState(4000 + k)
    if k == 0:
        return [np.array([1.0, -2.0], dtype=f32) * (j + 1) for j in range(n)]
    if k == 1:
        return [(rs.randint(-3, 4, size=2) * 0.5 + 0.25 * (j + 1)).astype(f32) for j in range(n)]
    return [rs.uniform(-2, 2, size=2).astype(f32) for _ in range(n)]


# --------------------------------------------------------------------------- direct oracle

def _run_model(proto):
    """-> dict(checker=None|msg, load=None|msg, outs=[per feed: list | msg])"""
    import onnx
    res = {"checker": None, "load": None, "outs": []}
    try:
        onnx.checker.check_model(proto, full_check=True)
    except Exception as e:  # noqa: BLE001
        res["checker"] = f"{type(e).__name__}: {str(e)[:240]}"
    try:
        sess = TR.ort_session(proto)
    except Exception as e:  # noqa: BLE001
        res["load"] = f"{str(e)[:240]}"
        return res
    names = [i.name for i in proto.graph.input]
    for k in range(3):
        fd = dict(zip(names, make_feeds(len(names), k)))
        try:
            res["outs"].append(sess.run(None, fd))
        except Exception as e:  # noqa: BLE001
            res["outs"].append(f"{str(e)[:240]}")
    return res


def oracle(prog, bc, bi):
    """-> list of observations (kind, text, names) where the property fails."""
    F = fn_by_name(prog["fn"])
    obs = []
    if isinstance(bc, str) or isinstance(bi, str):
        if isinstance(bi, str) and not isinstance(bc, str):
            obs.append(("inline-raises", f"op.call builds the model, op.call_inline raises {bi}", []))
        elif isinstance(bc, str) and not isinstance(bi, str):
            obs.append(("call-raises", f"op.call_inline builds the model, op.call raises {bc}", []))
        return obs, {}
    pc, pi = bc["proto"], bi["proto"]
    rc, ri = _run_model(pc), _run_model(pi)
    inc, ini = [i.name for i in pc.graph.input], [i.name for i in pi.graph.input]
    if inc != ini:
        obs.append(("input-names", f"graph inputs of the call model {inc}, of the inline model {ini}", [n for n in ini if n not in inc]))
    rep = TR.name_report(pi.graph)
    for k in ("same_graph_dups", "redefines_visible", "disjoint_dups"):
        if rep[k]:
            obs.append((k, f"inline model: {k} {rep[k][:4]}", sorted({d for _p, d in rep[k]})))
    if rep["node_dups"]:
        obs.append(("node_dups", f"inline model: duplicate node names {rep['node_dups'][:3]}", []))
    if ri["checker"] and not rc["checker"]:
        obs.append(("checker", f"onnx.checker accepts the call model, rejects the inline model: {ri['checker']}", []))
    want = [np_program(prog, make_feeds(len(inc), k)) for k in range(3)]
    readable = want[0] is not None
    call_ok = rc["load"] is None and all(not isinstance(o, str) for o in rc["outs"])
    inl_ok = ri["load"] is None and all(not isinstance(o, str) for o in ri["outs"])
    msg_c = rc["load"] or next((o for o in rc["outs"] if isinstance(o, str)), "")
    msg_i = ri["load"] or next((o for o in ri["outs"] if isinstance(o, str)), "")
    if call_ok and not inl_ok:
        obs.append(("ort-inline", f"onnxruntime runs the call model, not the inline model: {msg_i}", []))
    elif not call_ok and not inl_ok and readable:
        if F.calls_fn or F.call_runs:
            obs.append(("ort-both", f"onnxruntime runs neither model: call: {msg_c} | inline: {msg_i}", []))
        else:
            obs.append(("ort-inline", f"onnxruntime cannot run the inline model (the call model is rejected by the function schema check): {msg_i}", []))
    elif not call_ok and inl_ok and readable and F.call_runs:
        obs.append(("ort-call", f"onnxruntime runs the inline model, not the call model: {msg_c}", []))
    if call_ok and inl_ok:
        for k in range(3):
            a, b = rc["outs"][k], ri["outs"][k]
            if len(a) != len(b) or not all(TR.close(x, y, scale=10.0) for x, y in zip(a, b)):
                obs.append(("value-diff", f"feed {k}: call gives {[x.tolist() for x in a]}, inline gives {[x.tolist() for x in b]}", []))
                break
    if readable:
        for tag, ok, r in (("inline", inl_ok, ri), ("call", call_ok, rc)):
            if not ok:
                continue
            for k in range(3):
                a = r["outs"][k]
                if len(a) != len(want[k]) or not all(TR.close(x, y, scale=10.0) for x, y in zip(a, want[k])):
                    obs.append((f"np-{tag}", f"feed {k}: {tag} model gives {[x.tolist() for x in a]}, NumPy reading {[x.tolist() for x in want[k]]}", []))
                    break
    stats = dict(call_ok=call_ok, inl_ok=inl_ok, readable=readable, call_checker=rc["checker"] is None, inl_checker=ri["checker"] is None)
    return obs, stats


def classify(prog, bi, kind, names):
    """The most specific key for a failing observation, by cause."""
    F = fn_by_name(prog["fn"])
    ncalls = len(prog["calls"])
    if F.calls_fn and kind in ("ort-both", "ort-inline", "ort-call"):
        return K5
    if F.returns_input and kind in ("input-names", "same_graph_dups", "redefines_visible", "checker", "ort-inline", "np-inline", "value-diff"):
        return K4
    fewer = [c for c in prog["calls"] if any(f in F.uses for f in F.ins[len(c["actuals"]):])]
    if fewer and kind in ("checker", "ort-inline", "value-diff", "np-inline"):
        return K3
    if F.sub_inputs:
        caller = set()
        if not isinstance(bi, str):
            for s in bi["sites"]:
                caller.update(s["caller_names"])
                caller.update(a for a in s["actuals"] if a)
        else:
            caller.update(prog["inputs"])
        hit = caller & set(F.sub_inputs)
        if kind == "redefines_visible" and names and set(names) <= set(F.sub_inputs) and hit:
            return K1
        if hit and kind in ("value-diff", "np-inline", "checker", "ort-inline"):
            return K1
        if kind == "disjoint_dups" and ncalls >= 2 and names and set(names) <= set(F.sub_inputs):
            return K2
    return None


def describe(prog):
    cs = []
    for c in prog["calls"]:
        acts = ", ".join(f"in[{a[1]}]" if a[0] == "v" else (repr(a[1]) if a[0] == "lit" else "None") for a in c["actuals"])
        extra = "".join(f", {k}={v!r}" for k, v in sorted(c["attrs"].items()))
        extra += f", _outputs={c['outnames']}" if c["outnames"] else ""
        extra += f", _prefix={c['prefix']!r}" if c["prefix"] else ""
        cs.append((f"[scope {c['scope']!r}] " if c["scope"] else "") + f"{prog['fn']}({acts}{extra})")
    pre = "; ".join(f"in[{len(prog['inputs']) + j}] = Identity(in[{s}], _outputs=[{n!r}])" for j, (s, n) in enumerate(prog["pre"]))
    return (f"graph inputs {prog['inputs']}" + (f"; {pre}" if pre else "") + "; " + "; ".join(cs)
            + ("; inside the then_branch of an If" if prog["where"] == "then" else ""))


def case_key(prog):
    F = fn_by_name(prog["fn"])
    c0 = prog["calls"][0]
    coll = []
    names = set(prog["inputs"]) | {"v_" + p[1] for p in prog["pre"]}
    if names & set(F.sub_inputs):
        coll.append("subgraph-input")
    if names & ({"v_" + v for v in F.inner_values} | set(F.inner_values)):
        coll.append("inner-value")
    if names & set(F.ins):
        coll.append("formal")
    if prog["planted"]:
        coll.append("generated")
    attr = "none"
    if F.params:
        attr = "supplied" if c0["attrs"] else ("default" if all(a is not None for _k, a in F.params) else "dropped")
    feats = (
        F.kind, F.name, "if" if F.has_if else ("loop" if F.has_loop else ("calls-fn" if F.calls_fn else "flat")),
        "ref-nested" if F.ref_in_nested else ("ref" if F.ref_attrs else "noref"), attr,
        "lit" if any(a[0] == "lit" for c in prog["calls"] for a in c["actuals"]) else "nolit",
        "none" if any(a[0] == "none" for c in prog["calls"] for a in c["actuals"]) else "nonone",
        "fewer" if any(len(c["actuals"]) < F.nin for c in prog["calls"]) else "all",
        "scope" if any(c["scope"] for c in prog["calls"]) else "noscope",
        "prefix" if any(c["prefix"] for c in prog["calls"]) else "noprefix",
        "outnames" if any(c["outnames"] for c in prog["calls"]) else "default-names",
        "+".join(coll) or "no-collision", "twice" if len(prog["calls"]) > 1 else "once", prog["where"],
        "multi" if F.nout > 1 else "single", "ret-input" if F.returns_input else ("dup-out" if F.dup_output else "fresh-out"),
    )
    return ("inline",) + feats


# --------------------------------------------------------------------------- Coq side

def site_lit(F, site):
    c = site["call"]
    attrs = clist([f"({cstr(k)}, {TR.attr_value_lit(v)})" for k, v in sorted(c["attrs"].items())])
    return (f"(Site {clist(site['scope'], cstr)} {cstr(c['prefix'])} {cnat(site['count'])} {clist(site['actuals'], lambda a: copt(a, cstr))} "
            f"{attrs} {copt(c['outnames'], lambda l: clist(l, cstr))})")


COQ_PRELUDE = """Definition icase := (func * site * list string * list node * list string * list string * list string * bool)%type.
Fixpoint idx (p : icase -> bool) (i : nat) (l : list icase) : list nat := match l with [] => [] | c :: t => (if p c then [i] else []) ++ idx p (S i) t end.
Definition p_mism (c : icase) : bool := let '(f, s, inn, on, oo, onn, cn, cmp) := c in cmp && negb (inline_matches icf f s inn on oo onn).
Definition p_okb (c : icase) : bool := let '(f, s, inn, on, oo, onn, cn, cmp) := c in inline_okb icf f s.
Definition p_fresh (c : icase) : bool := let '(f, s, inn, on, oo, onn, cn, cmp) := c in inline_fresh icf f s cn.
Definition p_nodes (c : icase) : bool := let '(f, s, inn, on, oo, onn, cn, cmp) := c in cmp && negb (nodes_eqb (inline_nodes icf f s) on).
Definition p_outs (c : icase) : bool := let '(f, s, inn, on, oo, onn, cn, cmp) := c in cmp && negb (str_list_eqb (inline_outs icf f s) oo).
Definition p_names (c : icase) : bool := let '(f, s, inn, on, oo, onn, cn, cmp) := c in cmp && negb (str_list_eqb (inline_node_names f s inn) onn).
"""


def probe_icfg(ctx):
    """Which variant of _inliner.instantiate is this: are the inputs of a cloned subgraph prefixed, is a formal
    without actual mapped to None?  Observed on one hand-built graph; anything unexpected breaks the tie."""
    import onnx_ir as ir
    from onnxscript._internal import _inliner

    a, lo = ir.Value(name="a"), ir.Value(name="lo")
    bi, bc, bv = ir.Value(name="i"), ir.Value(name="cond_in"), ir.Value(name="acc_0")
    inner = ir.node("Add", [bv, a], name="n_in")
    inner.outputs[0].name = "acc_1"
    cond = ir.node("Identity", [bc], name="n_c")
    cond.outputs[0].name = "cond_out"
    body = ir.Graph(inputs=[bi, bc, bv], outputs=[cond.outputs[0], inner.outputs[0]], nodes=[inner, cond], name="body",
                    opset_imports={"": TR.OPSET})
    clip = ir.node("Clip", [a, lo], name="n_clip")
    clip.outputs[0].name = "c"
    loop = ir.node("Loop", [None, None, clip.outputs[0]], attributes={"body": body}, name="n_loop")
    loop.outputs[0].name = "r"
    g = ir.Graph(inputs=[a, lo], outputs=[loop.outputs[0]], nodes=[clip, loop], name="probe", opset_imports={"": TR.OPSET})
    x = ir.Value(name="x")
    nodes, _outs = _inliner.instantiate(g, [x], {}, prefix="P/")
    second = nodes[0].inputs[1]
    sub_in = [v.name for v in nodes[1].attributes["body"].as_graph().inputs]
    cfg = {}
    if second is None:
        cfg["pad_missing_actuals"] = True
    elif second is lo or getattr(second, "name", None) == "lo":
        cfg["pad_missing_actuals"] = False
    else:
        ctx.tie_broken("translator", "probe:inliner-missing-actual", f"unexpected second input {second!r} of the cloned node")
        cfg["pad_missing_actuals"] = False
    if sub_in == ["P/i", "P/cond_in", "P/acc_0"]:
        cfg["rename_sub_inputs"] = True
    elif sub_in == ["i", "cond_in", "acc_0"]:
        cfg["rename_sub_inputs"] = False
    else:
        ctx.tie_broken("translator", "probe:inliner-subgraph-inputs", f"unexpected input names {sub_in} of the cloned Loop body")
        cfg["rename_sub_inputs"] = False
    return cfg


ICFG = {"rename_sub_inputs": False, "pad_missing_actuals": False}


def coq_body(entries):
    """entries: list of (Fn, site, observed protos)."""
    lines = [f"Definition icf : icfg := ICfg {common.cbool(ICFG['rename_sub_inputs'])} {common.cbool(ICFG['pad_missing_actuals'])}.", COQ_PRELUDE]
    used = sorted({F.name for F, _s, _o in entries})
    for nm in used:
        lines.append(f"Definition fn_{nm} : func := {fn_by_name(nm).lit()}.")
        lines.append(f"Definition inn_{nm} : list string := {clist(fn_by_name(nm).inner_node_names, cstr)}.")
    for i, (F, site, obs) in enumerate(entries):
        on = clist([TR.node_lit_sorted(n) for n in obs])
        obs_names = node_names_pre(obs)
        if len(obs_names) == len(F.inner_node_names):
            obs_names = ["" if inn == "" else o for inn, o in zip(F.inner_node_names, obs_names)]
        lines.append(f"Definition c{i} : icase := (fn_{F.name}, {site_lit(F, site)}, inn_{F.name}, {on}, {clist(site['ret_names'], cstr)}, "
                     f"{clist(obs_names, cstr)}, {clist(site['caller_names'], cstr)}, {common.cbool(F.modelled)}).")
    lines.append(f"Definition cases : list icase := {clist([f'c{i}' for i in range(len(entries))])}.")
    for p in ("p_mism", "p_okb", "p_fresh", "p_nodes", "p_outs", "p_names"):
        lines.append(f"Eval vm_compute in (idx {p} 0 cases).")
    return "\n".join(lines)


# --------------------------------------------------------------------------- entry

def run_inline(ctx):
    t0 = time.time()
    ICFG.update(probe_icfg(ctx))
    ctx.assume("model D: the variant of _inliner.instantiate (inputs of cloned subgraphs prefixed or not, missing actuals mapped to None "
               "or passed through) is probed on the real code on every run; Inline.v is evaluated with the probed icfg")
    ctx.cover(probed_icfg=dict(ICFG))
    fns = pool()
    for F in fns:
        ok, detail = F.check_params()
        if not ok:
            ctx.tie_broken("correspondence", "modelD:function-params", detail)
    n_random = 70 if ctx.tier == "quick" else 360
    progs = directed() + [random_prog(ctx.rng) for _ in range(n_random)]
    entries = []          # (Fn, site, observed nodes), one per call_inline site
    entry_case = []       # index of the case of each entry
    failing = {}          # case index -> list of (key | None, kind, text)
    classes = {"planted-collision": 0, "call-unrunnable": 0, "both-rejected": 0, "unreadable": 0, "in-subgraph": 0, "twice": 0}
    cases = []
    for ci, prog in enumerate(progs):
        F = fn_by_name(prog["fn"])
        built = {}
        for mode in ("call", "inline"):
            try:
                built[mode] = build(prog, mode)
            except Exception as e:  # noqa: BLE001
                built[mode] = f"{type(e).__name__}: {str(e)[:200]}"
        bc, bi = built["call"], built["inline"]
        cases.append((prog, bi))
        ctx.case(case_key(prog))
        classes["in-subgraph"] += prog["where"] == "then"
        classes["twice"] += len(prog["calls"]) > 1
        obs, stats = oracle(prog, bc, bi)
        if stats:
            classes["call-unrunnable"] += not stats["call_ok"]
            classes["both-rejected"] += (not stats["call_ok"]) and (not stats["inl_ok"])
            classes["unreadable"] += not stats["readable"]
        if prog["planted"]:
            # the caller used a generated name: only duplicates of exactly that name (and what follows from them) are expected
            dup_names = {n for k, _t, ns in obs if k in ("same_graph_dups", "redefines_visible", "disjoint_dups") for n in ns}
            if dup_names <= {prog["planted"]}:
                classes["planted-collision"] += bool(dup_names)
                obs = [] if dup_names else obs
        for kind, text, names in obs:
            key = classify(prog, bi, kind, names)
            failing.setdefault(ci, []).append((key, kind, text))
        if not isinstance(bi, str):
            for s in bi["sites"]:
                entries.append((F, s, observed_nodes(bi["proto"], s)))
                entry_case.append(ci)
        if len(ctx.samples) < 3 and not isinstance(bi, str) and bi["sites"]:
            ctx.sample({"inline-case": describe(prog), "returned": bi["sites"][0]["ret_names"]})

    # ---- oracle verdicts
    for ci, lst in failing.items():
        prog = cases[ci][0]
        for key, kind, text in lst:
            replay = {"function": prog["fn"], "program": {k: prog[k] for k in ("inputs", "pre", "calls", "where", "post")},
                      "description": describe(prog), "seed": ctx.seed, "observation": kind}
            k = key or f"C18:inline:{kind}"
            ctx.violation(k, f"{describe(prog)}: {text}", replay)

    # ---- correspondence with model D
    shards = [list(range(i, min(i + 400, len(entries)))) for i in range(0, len(entries), 400)]
    bodies = [coq_body([entries[j] for j in sh]) for sh in shards]
    results = [ctx.coq_eval(REQUIRES, bodies[0], name="inline")] if len(bodies) == 1 else ctx.coq_eval_shards(REQUIRES, bodies, par=4)
    mism, okb, fresh, comp = [], [], [], {"nodes": [], "outs": [], "node-names": []}
    coq_ok = True
    for sh, (ok, vals, raw) in zip(shards, results):
        if not ok or len(vals) != 6:
            coq_ok = False
            ctx.tie_broken("correspondence", "modelD:inline", "coqc failed on the case file: " + raw[-1500:])
            continue
        lists = [[sh[i] for i in common.parse_nat_list(v)] for v in vals]
        mism += lists[0]
        okb += lists[1]
        fresh += lists[2]
        comp["nodes"] += lists[3]
        comp["outs"] += lists[4]
        comp["node-names"] += lists[5]
    n_cmp = sum(1 for F, _s, _o in entries if F.modelled)
    unexplained = []
    for j in mism:
        ci = entry_case[j]
        if ci in failing:
            continue            # the property fails on this case: reported above with its input
        parts = [k for k, l in comp.items() if j in l]
        F, s, obs = entries[j]
        unexplained.append(f"{describe(cases[ci][0])} [site count={s['count']} scope={s['scope']}]: differs in {parts}; observed outs {s['ret_names']}, "
                           f"observed node names {node_names_pre(obs)[:6]}")
    if unexplained:
        ctx.tie_broken("correspondence", "modelD:inline", f"{len(unexplained)} site(s) where OV.Builder.Inline and call_inline differ "
                       f"while the direct oracle passes: " + " || ".join(unexplained[:4]))
    ctx.obligation("C18:inline:model-vs-call_inline", coq_ok and not unexplained,
                   f"{n_cmp} call_inline sites compared with inline_nodes / inline_outs / inline_node_names ({len(entries) - n_cmp} outside the model: "
                   f"returned formal input), {len(mism)} differ, {len(mism) - len(unexplained)} of them on cases where the property itself fails")
    ctx.obligation("C18:inline:hypotheses-evaluated", coq_ok,
                   f"{len(okb)} of {len(entries)} cases satisfy inline_okb, {len(fresh)} inline_fresh")
    # a site satisfying both hypotheses on a case where the oracle fails is worth knowing (the theorem would be refuted)
    both = set(okb) & set(fresh)
    hyp_fail = sorted(ci for ci in failing if any(c == ci for c in entry_case)
                      and all(j in both for j, c in enumerate(entry_case) if c == ci))
    only_k5 = [ci for ci in hyp_fail if all(k == K5 for k, _kind, _t in failing[ci])]
    okb_s, fresh_s = set(okb), set(fresh)
    weak = {}
    for j, (F, _s, _o) in enumerate(entries):
        if entry_case[j] not in failing and (j not in okb_s or j not in fresh_s):
            k = F.name + (":okb=false" if j not in okb_s else "") + (":fresh=false" if j not in fresh_s else "")
            weak[k] = weak.get(k, 0) + 1
    ctx.assume("model D / call_inline: caller programs whose graph inputs literally carry a name of the builder's generated namespace "
               "(v_<f>_node_<n>/<inner>) break a precondition of the caller, not of call_inline: they are only required to make inline_fresh false; "
               "NumPy readings of the 17 functions and of the caller programs are written by hand in harness/c18_inline.py")
    ctx.cover(inline_hypothesis_false_but_oracle_passes=weak, inline_cases=len(progs), inline_sites=len(entries), inline_sites_compared=n_cmp, inline_okb_true=len(okb), inline_fresh_true=len(fresh),
              inline_okb_and_fresh=len(both), inline_oracle_failing_cases=len(failing),
              inline_hypotheses_hold_but_oracle_fails=[describe(cases[ci][0])[:160] for ci in hyp_fail if ci not in only_k5][:5],
              inline_hypotheses_hold_but_nested_call_unregistered=len(only_k5),
              inline_classes=classes, inline_functions=len(fns), inline_seconds=round(time.time() - t0, 1))
