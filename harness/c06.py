"""C06 -- the pattern matcher reports a match exactly when the subgraph is an instance (DESIGN.md 5, C06).

Model + theorems: coq/Match/{Pattern,Matcher,Spec}.v, *Proofs.v, Props/C06.v.
Tie (every run): patterns are built through the public pattern API from a description, the real
GraphPattern object is translated (fail-closed) into the model's pattern syntax, the real matcher is run
on every node of generated host graphs, and the result (matched?, bindings, matched nodes in order,
outputs) is compared inside Coq with the model `run` -- and, decisive for the property, with the
declarative meaning of the *description* evaluated by brute-force enumeration of all sigma
(harness/c06_spec.py); the sigma that explains a reported match is re-checked with the Coq `instanceb`.
"""
from __future__ import annotations

import json
import os

from harness import c06_checks, c06_gen, c06_pat, c06_spec, common
from harness.common import cbool, clist, cnat, copt

PROPERTY = "C06"
LEVEL = "proof"

F16_KEY_UNSOUND = "C06:or-merge-drops-bindings:non-instance-reported"
F16_KEY_MISSED = "C06:or-merge-drops-bindings:match-missed"


# ----------------------------------------------------------------------------- running the real matcher

def _enc(x, vid_of):
    from onnxscript import ir
    if x is None:
        return ("none",)
    if isinstance(x, ir.Value):
        return ("val", vid_of[id(x)])
    if isinstance(x, ir.Attr):
        v = x.value
        if x.type in (ir.AttributeType.INTS, ir.AttributeType.STRINGS, ir.AttributeType.FLOATS):
            v = tuple(v)
        return ("attr", x.name, v)
    if isinstance(x, int) and not isinstance(x, bool):
        return ("tag", x)
    raise c06_pat.TranslationError(f"bound object {type(x).__name__}")


class RealPattern:
    """The real pattern (or, with commute, the rules of the commuted rule set) built through the public API."""

    def __init__(self, pdesc, commute=False):
        from onnxscript.rewriter import pattern as P
        self.pdesc, self.commute = pdesc, commute
        self.build_error = None
        self.abstract_error = None
        try:
            fn = c06_pat.build_pattern_fn(pdesc)
            if commute:
                rule = P.RewriteRule(fn, lambda op, **_: None)
                self.variants = list(P.RewriteRuleSet([rule], commute=True).rules)
            else:
                self.variants = [P.Pattern(fn)]
        except Exception as e:  # the API refused the pattern (or commute() raised)
            self.build_error = f"{type(e).__name__}"
            self.variants = []
        self.abstract = None
        if self.variants:
            try:
                self.abstract = c06_pat.abstract_of_real(self.variants[0]._target_pattern, getattr(fn, "created", None))
                for v in self.variants[1:]:
                    c06_pat.abstract_of_real(v._target_pattern)       # fail-closed on the copies as well
            except c06_pat.TranslationError as e:
                self.abstract_error = str(e)
        self.P_spec = c06_pat.abstract_of_desc(pdesc)
        self.roots_spec = c06_spec.spec_roots(self.P_spec)
        self.features = features(pdesc, commute)
        self.spec_variants = None
        if commute:
            self.spec_variants = []
            for vd in swap_variants(pdesc):
                Pv = c06_pat.abstract_of_desc(vd)
                self.spec_variants.append((Pv, c06_spec.spec_roots(Pv)))
        self.coq_name = None


class RealHost:
    def __init__(self, hdesc):
        self.hdesc = hdesc
        self.model, self.graph, self.vals, self.nodes = c06_pat.build_host(hdesc)
        self.vid_of = {id(v): k for k, v in self.vals.items()}
        self.nid_of = {id(n): j for j, n in enumerate(self.nodes)}
        self.H = c06_spec.Host(hdesc)
        self.nested = bool(hdesc.get("outer_nodes") or hdesc.get("outer_inputs") or hdesc.get("outer_consts"))
        self.coq_name = None


def real_match(rp, rh, root, rm):
    """-> ("ok", variant index, bindings, nodes, outs) | ("fail",) | ("raise", name)"""
    for k, v in enumerate(rp.variants):
        try:
            r = v.match(rh.model, rh.graph, rh.nodes[root], check_nodes_are_removable=rm)
        except Exception as e:
            return ("raise", type(e).__name__)
        if r:
            b = {name: _enc(x, rh.vid_of) for name, x in r.bindings.items()}
            return ("ok", k, b, [rh.nid_of[id(n)] for n in r.nodes], [_enc(x, rh.vid_of) for x in r.outputs])
    return ("fail",)


# ----------------------------------------------------------------------------- features / keys

COMMUTATIVE_OPS = ["Add", "Mul", "And", "Or", "Xor", "BitwiseAnd", "BitwiseOr", "BitwiseXor", "Equal", "Max", "Mean", "Min", "Sum"]


def features(pdesc, commute=False):
    f = set()
    names = []
    vals = []
    for nd in pdesc["nodes"]:
        if nd.get("dom"):
            f.add("domain")
        if nd.get("prefix"):
            f.add("prefix-op")
        if nd.get("dom_prefix") is not None:
            f.add("prefix-domain")
        if nd.get("other_ins"):
            f.add("other-inputs")
        if nd.get("other_attrs") is False:
            f.add("no-other-attrs")
        outs = nd.get("outs", 1)
        if (outs if isinstance(outs, int) else len(outs)) > 1:
            f.add("2-outputs")
        if not isinstance(outs, int) and any(o is not None for o in outs):
            f.add("named-output")
        for _, a in nd.get("attrs", []):
            f.add("attr-const" if a[0] == "c" else "attr-var")
            if a[0] != "c" and a[1] is not None:
                names.append(a[1])
        vals += list(nd["ins"])
    for o in pdesc.get("ors", []):
        vals += list(o["alts"])
    for i in vals:
        if i is None:
            f.add("none-input")
        elif i[0] == "any":
            f.add("any")
        elif i[0] in ("var", "ovar"):
            names.append(i[1])
            if i[0] == "ovar":
                f.add("optional-var")
        elif i[0] == "const":
            f.add("const")
        elif i[0] == "or":
            f.add("or")
    if any(names.count(x) > 1 for x in names):
        f.add("repeated-var")
    if len(c06_spec.spec_roots(c06_pat.abstract_of_desc(pdesc))) > 1:
        f.add("multi-root")
    if commute:
        f.add("commute")
    return sorted(f)


def swap_variants(pdesc):
    """The pattern under swaps of the operands of its commutative (binary) operators -- from the description."""
    idx = [j for j, nd in enumerate(pdesc["nodes"])
           if nd["op"] in COMMUTATIVE_OPS and not nd.get("dom") and not nd.get("prefix") and nd.get("dom_prefix") is None
           and len(nd["ins"]) == 2]
    out = []
    import itertools
    for bits in itertools.product([False, True], repeat=len(idx)):
        d = json.loads(json.dumps(pdesc))
        for j, b in zip(idx, bits):
            if b:
                d["nodes"][j]["ins"].reverse()
        out.append(d)
    return out


def c_bindings(b):
    return clist(sorted(b.items()), lambda kv: f"({common.cstr(kv[0])}, {c06_pat.c_bval(kv[1])})")


def c_obs(o):
    if o[0] == "ok":
        return f"(ObsOk {c_bindings(o[2])} {clist(o[3], cnat)} {clist(o[4], c06_pat.c_bval)})"
    return "ObsFail" if o[0] == "fail" else "ObsErr"


def c_sigma(inst, abstract):
    """sigma literal from a spec instance; keys of unnamed patterns are renamed to the model's keys by position."""
    sn = clist(sorted(inst["nmap"].items()), lambda pn: f"({cnat(pn[0])}, {cnat(pn[1])})")
    sv = c_bindings(inst["bindings"])
    sk = clist(inst["model_keys"], lambda kv: f"({kv[0]}, {copt(kv[1], cnat)})")
    return f"(mkSig {sn} {sv} {sk})"


def model_keys(inst, P_spec, P_real, H):
    """value_bindings part of sigma: KOut entries from the node map, KObj entries by aligning the spec's keys with
    the translated pattern's keys (same positions)."""
    out = []
    for p, n in sorted(inst["nmap"].items()):
        for i, name in enumerate(P_real["nodes"][p]["outs"]):
            if name is None and i < len(H.nodes[n]["outs"]):
                out.append((f"KOut {p} {i}", H.nodes[n]["outs"][i]))
    align = {}

    def walk(a, b):
        if a is None or b is None:
            return
        if a[0] == "const" and b[0] == "const":
            align[a[1]] = b[1]
        if a[0] == "or" and b[0] in ("or", "disp"):
            align[a[1]] = b[1]
            if b[0] == "or":
                for (_, x), (_, y) in zip(a[4], b[4]):
                    walk(x, y)

    for ns, nr in zip(P_spec["nodes"], P_real["nodes"]):
        for a, b in zip(ns["ins"], nr["ins"]):
            walk(a, b)
    for k, b in inst["keys"].items():
        if k in align:
            out.append((f"KObj {align[k]}", None if b == ("none",) else b[1]))
    return out


# ----------------------------------------------------------------------------- the check

class Batch:
    def __init__(self, ctx):
        self.ctx = ctx
        self.defs = {}          # name -> Coq definition of a pattern / graph
        self.uses = []          # per case: names it needs
        self.build_errors = []
        self.cases = []         # coq case literals
        self.meta = []
        self.npat = self.ngraph = 0
        self.pcache = {}
        self.hcache = {}
        self.stats = {"triples": 0, "matched": 0, "root_op_mismatch": 0, "or_committed_choice": 0,
                      "multi_instance": 0, "raises": 0, "not_removable": 0, "compared_in_coq": 0, "nested_hosts": 0,
                      "commute_pairs": 0, "committed_compared": 0, "committed_or_triples": 0, "committed_multi_root_triples": 0,
                      "committed_matches": 0, "committed_skipped": 0}
        self.fcomb = {}         # feature combination -> [triples, matches reported]
        self.theorem_feats = {}  # feature (of the theorems' case split) -> [triples, matches reported, non-matches with an operator-matching root]

    def pattern(self, pdesc, commute):
        k = (json.dumps(pdesc, sort_keys=True), commute)
        if k not in self.pcache:
            self.pcache[k] = RealPattern(pdesc, commute)
        return self.pcache[k]

    def host(self, hdesc, cache=True):
        if not cache:
            return RealHost(hdesc)
        k = json.dumps(hdesc, sort_keys=True)
        if k not in self.hcache:
            self.hcache[k] = RealHost(hdesc)
        return self.hcache[k]

    def add(self, pdesc, hdesc, commute=False, tag="", coq_rate=1.0, cache_host=False):
        ctx = self.ctx
        rp = self.pattern(pdesc, commute)
        if rp.build_error:
            if not getattr(rp, "reported", False):
                rp.reported = True
                self.build_errors.append({"p": pdesc, "commute": commute, "error": rp.build_error, "features": rp.features})
            return
        if rp.abstract_error:
            if not getattr(rp, "reported", False):
                rp.reported = True
                ctx.tie_broken("translator", "pattern-ir", f"{rp.abstract_error} in {json.dumps(pdesc)}")
            return
        rh = self.host(hdesc, cache_host)
        H = rh.H
        feats = rp.features if not rh.nested else sorted(rp.features + ["other-graph-values"])
        fkey = "+".join(feats) or "plain"
        self.stats["nested_hosts"] += rh.nested
        self.stats["commute_pairs"] += commute
        P_spec, roots_spec = rp.P_spec, rp.roots_spec
        root_np = P_spec["nodes"][roots_spec[0]] if roots_spec else None
        small = len(P_spec["nodes"]) <= 4 and len(H.nodes) <= 5
        for root in range(H.first_own, len(H.nodes)):
            hn = H.nodes[root]
            trivial = root_np is not None and not (c06_spec.spat_matches(root_np["op"], hn["op"])
                                                   and c06_spec.spat_matches(root_np["dom"], hn.get("dom") or ""))
            for rm in ((False,) if trivial else (False, True)):
                obs = real_match(rp, rh, root, rm)
                self.stats["triples"] += 1
                if obs[0] == "raise":
                    self.stats["raises"] += 1
                if trivial and obs[0] == "fail":
                    # the operator of the root does not match: no sigma can be an instance
                    self.stats["root_op_mismatch"] += 1
                    ctx.case(("root-op-mismatch", fkey))
                    if ctx.rng.random() >= 0.1 * coq_rate:
                        continue
                # ---- the declarative meaning, by brute force
                if commute:
                    insts = []
                    for Pv, rv in rp.spec_variants:
                        for i in c06_spec.instances_search(Pv, H, rv, root):
                            if not rm or c06_spec.removable(H, i["nodes"], i["outs"]):
                                insts.append(i)
                else:
                    insts = (c06_spec.instances_enum if small else c06_spec.instances_search)(P_spec, H, roots_spec, root)
                    if small and (self.stats["triples"] % 7 == 0):
                        other = c06_spec.instances_search(P_spec, H, roots_spec, root)
                        k = lambda i: (sorted(i["bindings"].items()), sorted(i["nmap"].items()), i["outs"])
                        if sorted(map(k, insts), key=repr) != sorted(map(k, other), key=repr):
                            ctx.tie_broken("harness", "spec-enum-vs-search", json.dumps({"p": pdesc, "h": hdesc, "root": root}))
                    all_insts = insts
                    if rm:
                        insts = [i for i in insts if c06_spec.removable(H, i["nodes"], i["outs"])]
                        if len(insts) < len(all_insts):
                            self.stats["not_removable"] += 1
                    if len(insts) > 1:
                        self.stats["multi_instance"] += 1
                # ---- the committed-choice meaning (coq/Match/Committed.v), evaluated independently from the description
                if commute:
                    cm = c06_spec.committed_match_variants(rp.spec_variants, H, root, rm)
                else:
                    cm = c06_spec.committed_match(P_spec, H, roots_spec, root, rm)
                if cm == "err" or obs[0] == "raise":
                    cdev = False
                    self.stats["committed_skipped"] += 1
                else:
                    self.stats["committed_compared"] += 1
                    self.stats["committed_or_triples"] += "or" in feats
                    self.stats["committed_multi_root_triples"] += "multi-root" in feats
                    self.stats["committed_matches"] += cm is not None
                    if obs[0] == "ok":
                        cdev = cm is None or cm["bindings"] != obs[2] or cm["nodes"] != obs[3] or cm["outs"] != obs[4]
                    else:
                        cdev = cm is not None
                fc = self.fcomb.setdefault(fkey, [0, 0])
                fc[0] += 1
                fc[1] += obs[0] == "ok"
                for ft in (feats or ["plain"]):
                    tf = self.theorem_feats.setdefault(ft, [0, 0, 0])
                    tf[0] += 1
                    tf[1] += obs[0] == "ok"
                    tf[2] += (obs[0] == "fail" and not trivial)
                sigma = None
                verdict = None
                if obs[0] == "ok":
                    expl = [i for i in insts if i["bindings"] == obs[2] and i["nodes"] == frozenset(obs[3]) and i["outs"] == obs[4]]
                    if expl:
                        if not commute:
                            expl[0]["model_keys"] = model_keys(expl[0], P_spec, rp.abstract, H)
                            sigma = c_sigma(expl[0], rp.abstract)
                    else:
                        verdict = "unsound"
                    self.stats["matched"] += 1
                elif obs[0] == "fail" and insts:
                    verdict = "missed"
                elif obs[0] == "raise":
                    verdict = "raises"
                if not trivial:
                    ctx.case((fkey, obs[0], verdict, rm, min(len(insts), 2)))
                if verdict is None and not cdev and ctx.rng.random() >= coq_rate:
                    continue                   # agreement with both meanings; the model comparison is sampled
                if rp.coq_name is None:
                    rp.coq_name = f"p{self.npat}"
                    self.npat += 1
                    self.defs[rp.coq_name] = f"Definition {rp.coq_name} := {c06_pat.c_gpat(rp.abstract)}."
                if rh.coq_name is None:
                    rh.coq_name = f"g{self.ngraph}"
                    self.ngraph += 1
                    self.defs[rh.coq_name] = f"Definition {rh.coq_name} := {c06_pat.c_hgraph(hdesc)}."
                self.stats["compared_in_coq"] += 1
                self.uses.append((rp.coq_name, rh.coq_name))
                self.cases.append(
                    f"(mkCase {rp.coq_name} {clist(rp.abstract['roots'], cnat)} {rh.coq_name} {cnat(root)} {cbool(rm)} "
                    f"{cbool(commute)} {c_obs(obs)} {copt(sigma)})")
                self.meta.append({"p": pdesc, "h": hdesc, "root": root, "rm": rm, "commute": commute, "obs": obs,
                                  "n_instances": len(insts), "verdict": verdict, "committed_deviates": cdev,
                                  "committed": None if cm is None else (cm if cm == "err" else
                                                                          {"bindings": sorted(cm["bindings"].items()), "nodes": cm["nodes"], "outs": cm["outs"]}),
                                  "features": feats, "or": "or" in feats, "tag": tag,
                                  "instances": [{"bindings": sorted(i["bindings"].items()), "nodes": sorted(i["nodes"]), "outs": i["outs"]}
                                                for i in insts[:3]]})

    def evaluate(self):
        """Run the Coq side; returns {case index: code}."""
        ctx = self.ctx
        codes = {}
        shard = 800
        bodies = []
        spans = []
        for lo in range(0, len(self.cases), shard):
            cs = self.cases[lo:lo + shard]
            need = []
            for u in self.uses[lo:lo + shard]:
                for nm in u:
                    if nm not in need:
                        need.append(nm)
            defs = "\n".join(self.defs[nm] for nm in need)
            bodies.append(defs + f"\nDefinition cases : list case := {clist(cs)}.\nEval vm_compute in (report 0 cases).")
            spans.append(lo)
        results = _eval_shards(ctx, ["OV.Match.Pattern", "OV.Match.Matcher", "OV.Match.Spec", "OV.Match.Corr"], bodies)
        for lo, (ok, vals, raw) in zip(spans, results):
            if not ok or not vals:
                ctx.tie_broken("correspondence", "model-evaluation", raw[-1500:])
                continue
            s = vals[0].strip()
            if s not in ("[]", "nil"):
                import re
                for a, b in re.findall(r"\((\d+)\s*,\s*(\d+)\)", re.sub(r"%\w+", "", s)):
                    codes[lo + int(a)] = int(b)
        return codes


def _eval_shards(ctx, requires, bodies, par=8, timeout=900):
    """ctx.coq_eval_shards builds a file name that does not exist (it rewrites '-' in the whole path); same thing here."""
    from concurrent.futures import ThreadPoolExecutor
    hdr = "From Coq Require Import List ZArith String Bool QArith.\nImport ListNotations.\nClose Scope Q_scope.\n"
    hdr += "".join(f"Require Import {r}.\n" for r in requires)
    hdr += "Set Printing Width 1000000.\nSet Printing Depth 1000000.\n"

    def one(kb):
        k, b = kb
        fn = os.path.join(ctx.cases_dir, f"c06_shard_{k}.v")
        with open(fn, "w") as f:
            f.write(hdr + b + "\n")
        rc, out = common.coqc_file(fn, timeout=timeout, cwd=ctx.cases_dir)
        return rc == 0, common.parse_evals(out), out

    with ThreadPoolExecutor(max_workers=par) as ex:
        return list(ex.map(one, enumerate(bodies)))


def _replay(m):
    return {k: m.get(k) for k in ("p", "h", "root", "rm", "commute", "obs", "instances", "committed", "features", "mask")}


COMMUTE_NONBINARY_KEY = "C06:commute:commutative-op-not-binary:AssertionError"
COMMUTE_OR_KEY = "C06:commute:or-value-without-tag-var:ValueError"
OUT_KEY = "C06:pattern-node-with-more-outputs-than-graph-node:match-reported"
COMMUTE_UNRECORDED_KEY = "C06:commute:node-built-by-another-opset-builder:KeyError"


ITER_KEY = "C06:several-output-nodes-without-op-identifier:shared-node-iterator:match-missed"
ATTR_TYPE_KEY = "C06:attr-constant-scalar-vs-list-attribute:TypeError"


def _scalar_attr_vs_list(m):
    """some constant attribute pattern with a scalar (non-string) value meets a list-valued attribute of the same name in the host"""
    for nd in m["p"]["nodes"]:
        for name, a in nd.get("attrs", []):
            if a[0] == "c" and not isinstance(a[1], (list, tuple, str)):
                for hn in c06_pat.all_nodes(m["h"]):
                    if any(n == name and isinstance(val, (list, tuple)) for n, val in hn.get("attrs", [])):
                        return True
    return False
FULL = 65535
ATTR_SENSITIVE = 262144   # bit 18: a scalar constant attribute pattern meets a list attribute; bits 19..34: the mask without the attribute repair
# bit k of the mask <-> flags (fresh_iter, out_fail, keep_vb, keep_nb) = bits 3..0 of k
M_OUT0 = sum(1 << k for k in range(16) if not k & 4)        # settings with out_fail = false
M_MERGE0 = sum(1 << k for k in range(16) if (k & 3) != 3)   # settings in which merge drops something
M_ITER0 = sum(1 << k for k in range(16) if not k & 8)       # settings with the shared iterator


def decide(ctx, batch, codes):
    """Apply the decision rules to every case; returns the index (0..15) of the flag setting the implementation exhibits."""
    meta = batch.meta
    generic = {}

    def violation(kind, key, what, replay):
        # unclassified disagreements: at most three distinct feature keys per kind are reported
        seen = generic.setdefault(kind, set())
        if key in seen or len(seen) < 3:
            seen.add(key)
            ctx.violation(key, what, replay)

    flag_mask = FULL
    attr_as_read = 0            # cases explained only by the model WITHOUT the attribute repair (scalar pattern vs list attribute raises)
    attr_sensitive = 0
    for i, m in enumerate(meta):
        code = codes.get(i, FULL)
        k = code & FULL
        if code & ATTR_SENSITIVE:
            attr_sensitive += 1
            ka = (code >> 19) & FULL
            if k == 0 and ka:
                attr_as_read += 1
                k = ka
        if k:
            flag_mask &= k
    batch.stats["attr_scalar_vs_list_cases"] = attr_sensitive
    batch.stats["attr_scalar_vs_list_cases_raising"] = attr_as_read
    batch.attr_fix = attr_as_read == 0
    if flag_mask == 0:
        ctx.tie_broken("correspondence", "merge-flags", "no single setting of (fresh_iter, out_fail, keep_vb, keep_nb) agrees with the implementation on all cases")
        flag_mask = FULL
    # among the settings that explain every observation, the one with the most repairs
    best = max((k for k in range(16) if flag_mask >> k & 1), key=lambda k: (bin(k).count("1"), k))
    impl_bit = 1 << best
    for i, m in enumerate(meta):
        code = codes.get(i, FULL)
        mask = code & FULL
        agree_impl = bool(mask & impl_bit)
        sens_out = mask != 0 and (mask & ~M_OUT0 & FULL) == 0       # reproduced only when the output-count failure is not recorded
        sens_merge = mask != 0 and (mask & ~M_MERGE0 & FULL) == 0   # reproduced only when merge drops some bindings
        sens_iter = mask != 0 and (mask & ~M_ITER0 & FULL) == 0     # reproduced only with the shared node iterator
        fk = "+".join(m["features"]) or "plain"
        v = m["verdict"]
        m["mask"] = mask
        if code & 65536:
            ctx.tie_broken("correspondence", "output-nodes", f"model output_nodes differ from GraphPattern.output_nodes: {json.dumps(m['p'])}")
        if code & 131072 and v is None:
            ctx.tie_broken("correspondence", "spec-python-vs-coq", f"instance found by enumeration is rejected by instanceb: {json.dumps(_replay(m), default=str)[:1500]}")
        if v == "unsound":
            if sens_out:
                ctx.violation(OUT_KEY, "a truthy MatchResult (bindings and nodes of a partial match, no outputs) is returned when a pattern node "
                              "has more outputs than the graph node: _match_node returns False without recording the failure", _replay(m))
            elif sens_merge:
                ctx.violation(F16_KEY_UNSOUND, "a match is reported for a subgraph that is not an instance: PartialMatchResult.merge drops "
                              "node_bindings/value_bindings of a successful OR alternative, so a pattern node shared with the rest of the "
                              "pattern is matched again against a different graph node", _replay(m))
            else:
                violation("unsound", f"C06:non-instance-reported:{fk}", "the matcher reports a match whose bindings/nodes/outputs are not an instance of the pattern",
                          _replay(m))
        elif v == "missed":
            if sens_iter:
                ctx.violation(ITER_KEY, "an instance is not matched: with several output nodes, the output nodes without op identifier (prefix "
                              "patterns; every node of a commuted copy) share one node iterator, which is drained for the first of them", _replay(m))
            elif sens_merge:
                ctx.violation(F16_KEY_MISSED, "an instance is not matched: PartialMatchResult.merge drops bindings of a successful OR "
                              "alternative", _replay(m))
            elif m["or"] and agree_impl and not m.get("committed_deviates"):
                # no match under the committed-choice meaning either (C06_match_iff_committed; evaluated independently
                # from the description and by the model): the documented committed choice of OR, not a deviation
                batch.stats["or_committed_choice"] += 1
            else:
                violation("missed", f"C06:instance-not-matched:{fk}", "the subgraph is an instance of the pattern but no match is reported", _replay(m))
        elif v == "raises" and m["obs"][1] == "TypeError" and _scalar_attr_vs_list(m):
            ctx.violation(ATTR_TYPE_KEY, "Pattern.match raises TypeError instead of reporting no match: AttrConstantPattern.matches evaluates "
                          "tuple(<scalar pattern value>) when the node's attribute of that name is list-valued", _replay(m))
        elif v == "raises":
            violation("raises", f"C06:matcher-raises:{m['obs'][1]}:{fk}", "the matcher raises instead of reporting match / no match", _replay(m))
        elif m.get("committed_deviates"):
            # the result is an instance of the unordered meaning, but not the one the committed-choice meaning determines
            # (another alternative / candidate tuple / variant, other bindings or node order)
            violation("committed", f"C06:committed-choice-meaning-deviation:{fk}", "the matcher's result differs from the committed-choice meaning of the "
                      "pattern (first alternative that matches, first candidate tuple, first variant): verdict, bindings, node order or outputs",
                      _replay(m))
        elif not agree_impl:
            # spec and implementation agree on this case but the model does not: the tie is broken
            ctx.tie_broken("correspondence", f"model-vs-matcher:{fk}", json.dumps(_replay(m), default=str)[:1500])
    return impl_bit.bit_length() - 1


def run(ctx):
    ctx.assume("node-level and value-level `check` callables and the rule's condition function are outside the model (run after the structural match)")
    ctx.assume("pattern outputs: a pattern node with k outputs matches nodes with at least k outputs (as implemented and relied upon by the shipped "
               "rules; outputs_option.md words it as 'exactly'); not flagged")
    ctx.assume("OrValue is committed-choice (first alternative that matches from the bindings made so far; later conflicts do not re-open it), as "
               "documented in node_value_checkers.md: coq/Match/Committed.v, proved equal to the matcher model (C06_match_iff_committed) and evaluated "
               "independently from the pattern description on every triple (verdict, bindings, node order, outputs must coincide); instances of the "
               "unordered meaning that are not matched for that reason alone are counted (or_committed_choice)")
    ctx.assume("tag variables of OR patterns are fresh names; constants are finite float32 tensors (any shape); the tolerance test is read exactly "
               "(rationals): host constants on which the double rounding inside math.isclose decides differently from the exact bound are "
               "left out by the generators (counted: tolerance_bound.rounding_excluded); negative tolerances (math.isclose raises) not generated")
    ctx.check_props(extra_files=["Match/Corr.v"])
    import time
    batch = Batch(ctx)
    n = 0
    t0 = time.time()
    for item in c06_gen.cases(ctx):
        pdesc, hdesc, commute, tag = item[:4]
        opts = item[4] if len(item) > 4 else {}
        batch.add(pdesc, hdesc, commute, tag, **opts)
        n += 1
    refused = 0
    for be in batch.build_errors:
        has_untagged_or = any(o.get("tagv") is None for o in be["p"].get("ors", []))
        nonbinary = any(nd["op"] in COMMUTATIVE_OPS and not nd.get("dom") and len(nd["ins"]) != 2 for nd in be["p"]["nodes"])
        if not be["commute"]:
            refused += 1            # the pattern API refuses the pattern itself: not a matcher result
            continue
        ctx.case(("commute-build-error", be["error"]))
        if be["error"] == "AssertionError" and nonbinary:
            ctx.violation(COMMUTE_NONBINARY_KEY, "RewriteRuleSet(commute=True) raises AssertionError for a pattern in which a commutative "
                          "operator (Add, Mul, Sum, Max, ...) has a number of inputs other than 2", {"p": be["p"], "commute": True})
        elif be["error"] == "KeyError" and any(nd.get("dom_prefix") is not None for nd in be["p"]["nodes"]):
            ctx.violation(COMMUTE_UNRECORDED_KEY, "RewriteRuleSet(commute=True) raises KeyError for a pattern that contains a commutative binary "
                          "operator and a node made by another opset builder (pattern.torch_module_op / OpsetPatternBuilder(PrefixPattern)): such "
                          "nodes are not in GraphPattern._nodes, so NodeOutputPattern.clone finds no copy of the producer in node_map",
                          {"p": be["p"], "commute": True})
        elif be["error"] == "ValueError" and has_untagged_or:
            ctx.violation(COMMUTE_OR_KEY, "RewriteRuleSet(commute=True) raises ValueError for a pattern containing an OrValue without tag_var: "
                          "BacktrackingOr.clone passes the defaulted tag_values with tag_var=None", {"p": be["p"], "commute": True})
        else:
            ctx.violation(f"C06:commute-raises:{be['error']}:{'+'.join(be['features'])}", "building the commuted rule set raises",
                          {"p": be["p"], "commute": True})
    t1 = time.time()
    codes = batch.evaluate()
    t2 = time.time()
    ctx.cover(seconds_matching_and_spec=round(t1 - t0, 1), seconds_model_in_coq=round(t2 - t1, 1))
    k = decide(ctx, batch, codes)
    keeps = (bool(k & 2), bool(k & 1), bool(k & 4), bool(k & 8))
    ctx.obligation("correspondence: real matcher = Match/Matcher.v `run` (bindings, node order, outputs) on every case, for one setting of the merge flags",
                   not any(t["kind"] == "correspondence" for t in ctx.ties))
    # C06_match_sound is proved for the repaired setting only.  When the implementation exhibits another setting, either a
    # concrete non-instance was reported above (finding), or the theorem simply does not cover this implementation.
    seen = {k_ for k_, _ in ctx.known_hits} | {v["key"] for v in ctx.violations}
    merge_explained = F16_KEY_UNSOUND in seen or F16_KEY_MISSED in seen
    out_explained = OUT_KEY in seen
    uncovered = []
    if not (keeps[0] and keeps[1]) and not merge_explained:
        uncovered.append(f"merge keeps value_bindings={keeps[0]}, node_bindings={keeps[1]}")
    if not keeps[2] and not out_explained:
        uncovered.append("an output-count mismatch is not recorded as a failure")
    if not batch.attr_fix and ATTR_TYPE_KEY not in seen:
        uncovered.append("a scalar constant attribute pattern against a list attribute behaves as without the attribute repair")
    ctx.obligation("C06_match_sound applies to the setting of the flags the implementation exhibits (or the deviation is a reported finding)",
                   not uncovered, "; ".join(uncovered))
    if uncovered:
        ctx.tie_broken("proof", "C06_match_sound", "the implementation behaves like the model with " + "; ".join(uncovered) +
                       ", for which soundness is not proved, and no non-instance was found in this run")
    ctx.cover(pattern_host_pairs=n, patterns_refused_by_api=refused, merge_keeps_value_bindings=keeps[0], merge_keeps_node_bindings=keeps[1],
              output_count_failure_recorded=keeps[2], own_node_list_per_output_node=keeps[3],
              scalar_attr_pattern_vs_list_attr_is_no_match=batch.attr_fix,
              match_sound_applies_to_implementation=all(keeps[:3]), **batch.stats)
    ctx.cover(feature_combinations={k: {"triples": v[0], "matched": v[1]} for k, v in sorted(batch.fcomb.items(), key=lambda kv: -kv[1][0])},
              features_of_the_theorems={k: {"triples": v[0], "matched": v[1], "not_matched_with_operator_matching_root": v[2]}
                                        for k, v in sorted(batch.theorem_feats.items())},
              feature_combinations_distinct=len(batch.fcomb),
              feature_combinations_with_a_match=sum(1 for v in batch.fcomb.values() if v[1]))
    ctx.cover(tolerance_bound=dict(c06_gen.TIGHT_STATS))
    ctx.cover(generator="tolerance-bound family (scalar constants at the float32 neighbours of the exact bound, both sides, both operand orders, "
              "commute) + list-constant family (same elements at ranks 0/1/2/3, other lengths, element at the bound) + corpus/C06 (findings, feature cases) + bounded-exhaustive family (351 patterns with <=3 node patterns over "
              "{Relu/Neg, Add, Sub, Split} x {repeated var, const, any, attr const/var/optional, allow_other_inputs/attributes, None / optional "
              "input, domain, named / 2 outputs, several output nodes, OrValue dispatch/backtracking/name/tag} x all hosts with <=2 nodes, sampled "
              "3- and 4-node hosts and their attribute/input/constant/graph-output variants; quick = one pattern per feature combination and a seeded "
              "slice of hosts) + random patterns (<=3 nodes; thorough also <=8 nodes with hosts up to 20 nodes) with hosts instantiated from the "
              "pattern and perturbed + hosts inside an If branch using outer values + commute=True; every node as root, with and without the "
              "removability check; non-trivial key = (features, outcome, verdict, removability, number of instances)")
    ctx.trust("harness/c06_spec.py: brute-force evaluation of the declarative meaning (enumeration of all node maps, cross-checked against a "
              "nondeterministic search and, for every reported match, against the Coq instance checker) and a direct evaluator of the "
              "committed-choice meaning (cross-checked against the Coq model through the correspondence: both must agree with the matcher)")
    c06_checks.run(ctx)
    api_keywords(ctx)
    for m in batch.meta[:: max(1, len(batch.meta) // 5)][:5]:
        ctx.sample({"pattern": m["p"], "host": m["h"], "root": m["root"], "removable": m["rm"], "observed": m["obs"][0]})
    if ctx.tier == "thorough":
        ctx.coqchk(["Props.C06"])


def api_keywords(ctx):
    """The keywords of the pattern builder that the model has no counterpart for must stay refused / absent: `_version`
    (refused with ValueError: version restrictions belong to the rule), a non-string `_domain` (TypeError), and the
    keyword set of OpPatternBuilder.__call__ / Var / Constant / OrValue / AttrVar (a new keyword = a feature the model
    does not have: broken tie)."""
    import inspect
    from onnxscript.rewriter import _pattern_ir as I, pattern as P
    got = {}
    for label, kw in (("_version", {"_version": 18}), ("_domain-not-a-string", {"_domain": P.torch_module_op})):
        def mkfn(kw):
            def fn(op, x):
                return op.Relu(x, **kw)
            return fn
        try:
            P.Pattern(mkfn(kw))
            got[label] = "accepted"
        except Exception as e:          # noqa: BLE001
            got[label] = type(e).__name__
    expect = {"_version": "ValueError", "_domain-not-a-string": "TypeError"}
    for k in expect:
        if got[k] != expect[k]:
            ctx.tie_broken("translator", "pattern-api-keyword", f"{k}: the pattern builder answers {got[k]}, the model assumes it is refused ({expect[k]})")
    sigs = {
        "OpPatternBuilder.__call__": (I.OpPatternBuilder.__call__, ["self", "args", "_domain", "_version", "_outputs", "_allow_other_attributes",
                                                                    "_allow_other_inputs", "_check", "kwargs"]),
        "Var": (I.Var.__init__, ["self", "name", "check", "can_match_none"]),
        "Constant": (I.Constant.__init__, ["self", "value", "rel_tol", "abs_tol"]),
        "OrValue": (I.OrValue, ["values", "name", "tag_var", "tag_values"]),
        "AttrVar": (I.AttrVar.__init__, ["self", "name", "can_match_none"]),
        "NodePattern": (I.NodePattern.__init__, ["self", "domain", "op", "inputs", "attributes", "outputs", "allow_other_attributes",
                                                 "allow_other_inputs", "check"]),
    }
    for label, (f, names) in sigs.items():
        have = list(inspect.signature(f).parameters)
        if have != names:
            ctx.tie_broken("translator", "pattern-api-signature", f"{label}{have} differs from the keyword set the model was written for {names}")
    d = I.Constant(1.0)
    if (d._rel_tol, d._abs_tol) != (1e-5, 1e-8):
        ctx.tie_broken("translator", "constant-default-tolerances", f"Constant defaults are {(d._rel_tol, d._abs_tol)}, the description language assumes (1e-5, 1e-8)")
    ctx.obligation("pattern API keywords: _version and a non-string _domain are refused; the keyword sets of the pattern constructors are the ones "
                   "the model covers; default tolerances (1e-5, 1e-8)", not any(t["name"].startswith(("pattern-api", "constant-default")) for t in ctx.ties),
                   str(got))
    ctx.cover(pattern_api_keywords=got)


def replay(doc):
    """./check C06 --replay evidence/replays/C06_xxx.json : run the recorded (pattern, host, root) on the real matcher again."""
    r = doc["replay"]
    if "h" not in r:
        rp = RealPattern(r["p"], bool(r.get("commute")))
        print(json.dumps({"key": doc["key"], "building the (commuted) pattern": rp.build_error or "ok"}))
        return 1 if rp.build_error else 0
    rp = RealPattern(r["p"], bool(r.get("commute")))
    rh = RealHost(r["h"])
    obs = real_match(rp, rh, r["root"], r["rm"])
    if r.get("commute"):
        insts = [i for Pv, rv in rp.spec_variants for i in c06_spec.instances_search(Pv, rh.H, rv, r["root"])]
    else:
        insts = c06_spec.instances_search(rp.P_spec, rh.H, rp.roots_spec, r["root"])
    if r["rm"]:
        insts = [i for i in insts if c06_spec.removable(rh.H, i["nodes"], i["outs"])]
    ok = (obs[0] == "fail" and not insts) or (obs[0] == "ok" and any(
        i["bindings"] == obs[2] and i["nodes"] == frozenset(obs[3]) and i["outs"] == obs[4] for i in insts))
    print(json.dumps({"key": doc["key"], "observed": obs, "instances": [
        {"bindings": sorted(i["bindings"].items()), "nodes": sorted(i["nodes"]), "outs": i["outs"]} for i in insts[:5]],
        "property_holds_here": ok}, default=str))
    return 0 if ok else 1
