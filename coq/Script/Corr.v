(* Comparison functions used by the correspondence checks (evaluated with vm_compute on literals printed
   by the harness).  No proofs in this file. *)
From Coq Require Import List String Bool Arith ZArith.
Require Import OV.Graph.Syntax OV.Script.Syntax OV.Script.Sets OV.Gen.Analysis OV.Script.AnalysisAux OV.Script.Translate.
Import ListNotations.

Fixpoint path_eqb (a b : list nat) : bool :=
  match a, b with
  | [], [] => true
  | x :: s, y :: t => Nat.eqb x y && path_eqb s t
  | _, _ => false
  end.

Definition row_eqb (a b : row) : bool :=
  let '(p1, a1, i1, o1) := a in
  let '(p2, a2, i2, o2) := b in
  path_eqb p1 p2 && seqb a1 a2 && seqb i1 i2 && seqb o1 o2.

Fixpoint rows_eqb (a b : list row) : bool :=
  match a, b with
  | [], [] => true
  | x :: s, y :: t => row_eqb x y && rows_eqb s t
  | _, _ => false
  end.

Definition lrow_eqb (a b : list nat * sset * sset) : bool :=
  let '(p1, a1, e1) := a in
  let '(p2, a2, e2) := b in
  path_eqb p1 p2 && seqb a1 a2 && seqb e1 e2.

Fixpoint lrows_eqb (a b : list (list nat * sset * sset)) : bool :=
  match a, b with
  | [], [] => true
  | x :: s, y :: t => lrow_eqb x y && lrows_eqb s t
  | _, _ => false
  end.

(* one correspondence case: the program, the globals' truth values, and what the real AstAnalyzer said *)
Definition acase := (list stmt * list (string * bool) * list row * list (list nat * sset * sset))%type.

Definition acase_ok (c : acase) : bool :=
  let '(body, globals, rows, lrows) := c in
  match analysis_table body globals with
  | Some t => rows_eqb t rows && lrows_eqb (loops_table body globals) lrows
  | None => false
  end.

Fixpoint disagreeing (i : nat) (l : list acase) : list nat :=
  match l with
  | [] => []
  | c :: t => (if acase_ok c then [] else [i]) ++ disagreeing (S i) t
  end.


(* ------------------------------------------------------------------ skeleton correspondence: graph comparison *)

(* what is compared of an attribute: its name, an integer payload, a referenced attribute parameter *)
Definition attr_sig_eqb (a b : string * attrv) : bool :=
  String.eqb (fst a) (fst b) &&
  match snd a, snd b with
  | AInt x, AInt y => Z.eqb x y
  | ARef x, ARef y => String.eqb x y
  | AInt _, _ | _, AInt _ | ARef _, _ | _, ARef _ => false
  | _, _ => true
  end.

Definition attrs_eqb (a b : list (string * attrv)) : bool :=
  forallb (fun x => existsb (attr_sig_eqb x) b) a && forallb (fun x => existsb (attr_sig_eqb x) a) b.

Definition oname_eqb (a b : option vname) : bool :=
  match a, b with Some x, Some y => String.eqb x y | None, None => true | _, _ => false end.

Fixpoint list_eqb {A} (f : A -> A -> bool) (a b : list A) : bool :=
  match a, b with [] , [] => true | x :: s, y :: t => f x y && list_eqb f s t | _, _ => false end.

Fixpoint node_eqb (fuel : nat) (a b : node) {struct fuel} : bool :=
  match fuel with
  | O => false
  | S f =>
    let 'Node d1 o1 i1 u1 a1 s1 := a in
    let 'Node d2 o2 i2 u2 a2 s2 := b in
    String.eqb d1 d2 && String.eqb o1 o2 && list_eqb oname_eqb i1 i2 && list_eqb String.eqb u1 u2 && attrs_eqb a1 a2 &&
    list_eqb (fun x y => String.eqb (fst x) (fst y) && graph_eqb f (snd x) (snd y)) s1 s2
  end
with graph_eqb (fuel : nat) (a b : graph) {struct fuel} : bool :=
  match fuel with
  | O => false
  | S f =>
    let 'Graph i1 n1 l1 o1 := a in
    let 'Graph i2 n2 l2 o2 := b in
    list_eqb String.eqb i1 i2 && list_eqb String.eqb n1 n2 && list_eqb (node_eqb f) l1 l2 && list_eqb String.eqb o1 o2
  end.

(* one case: the function, its module constants and truth values, the observed set listings, and the graph the
   real converter produced (None = the decorator refused the program) *)
Definition tcase := (func * list (string * lit) * list (string * bool) * list (list string) * option graph)%type.

Definition model_of (legacy : bool) (c : tcase) : option graph :=
  let '(f, consts, truth, orders, _) := c in
  translate legacy consts (cic_of (f_body f) truth) (fuel_of (f_body f)) orders f.

Definition tcase_ok (legacy : bool) (c : tcase) : bool :=
  let '(f, consts, truth, orders, real) := c in
  match model_of legacy c, real with
  | Some g, Some r => graph_eqb 40 g r
  | None, None => true
  | _, _ => false
  end.

Fixpoint tdisagreeing (legacy : bool) (i : nat) (l : list tcase) : list nat :=
  match l with
  | [] => []
  | c :: t => (if tcase_ok legacy c then [] else [i]) ++ tdisagreeing legacy (S i) t
  end.
