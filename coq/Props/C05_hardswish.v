(* C05, family _fuse_hardswish.py: property theorems (statements only, closed by `exact`).
   Carrier: the rationals Q (an ordered field containing every finite float); equality is Qeq. *)
From Coq Require Import ZArith QArith.
Require Import OV.Rules.HardSwish OV.Rules.HardSwishProofs.
Open Scope Q_scope.

(* clip(x+3, 0, 6) * x / 6 = x * max(0, min(1, x/6 + 1/2)) for every x *)
Theorem C05_hardswish_identity : forall x, host_hardswish 3 0 6 6 x == hardswish x.
Proof. exact hardswish_exact. Qed.
Print Assumptions C05_hardswish_identity.

Theorem C05_hardswish_hardsigmoid_identity : forall x, host_hardsigmoid 3 0 6 6 x == hardsigmoid (1 # 6) (1 # 2) x.
Proof. exact hardsigmoid_exact. Qed.
Print Assumptions C05_hardswish_hardsigmoid_identity.

Theorem C05_hardswish_from_hardsigmoid : forall x, hardsigmoid (1 # 6) (1 # 2) x * x == hardswish x.
Proof. exact hardswish_from_hardsigmoid. Qed.
Print Assumptions C05_hardswish_from_hardsigmoid.

(* the repaired check (exact constants, no constant out-ranking x) is sound: same values, same rank *)
Theorem C05_hardswish_fixed_check_sound : forall c, hs_check_fixed c = true ->
  (forall x, host_hardswish (c_bias c) (c_min c) (c_max c) (c_div c) x == hardswish x) /\
  (forall x, host_hardsigmoid (c_bias c) (c_min c) (c_max c) (c_div c) x == hardsigmoid (1 # 6) (1 # 2) x) /\
  host_rank c = x_rank c.
Proof. exact hs_check_fixed_sound. Qed.
Print Assumptions C05_hardswish_fixed_check_sound.

Theorem C05_hardswish_fixed_check_implies_impl : forall c, hs_check_fixed c = true -> hs_check_impl c = true.
Proof. exact hs_check_fixed_implies_impl. Qed.
Print Assumptions C05_hardswish_fixed_check_implies_impl.

Theorem C05_hardswish_rank_iff : forall c, host_rank c = x_rank c <-> (r_bias c <= x_rank c /\ r_div c <= x_rank c)%nat.
Proof. exact host_rank_preserved_iff. Qed.
Print Assumptions C05_hardswish_rank_iff.

(* the check as read (is_singleton_value with rtol=1e-4, any rank) is NOT sound:
   finding C05:hardswish:singleton-constant-raises-rank ... *)
Theorem C05_hardswish_rank_refuted : exists c, hs_check_impl c = true /\ host_rank c <> x_rank c.
Proof. exact hs_check_impl_rank_refuted. Qed.
Print Assumptions C05_hardswish_rank_refuted.

(* ... and finding C05:hardswish:approximate-constant (bias 3.0003, x = -2.9999) *)
Theorem C05_hardswish_approx_refuted : exists c x, hs_check_impl c = true /\ host_rank c = x_rank c /\
  ~ host_hardswish (c_bias c) (c_min c) (c_max c) (c_div c) x == hardswish x.
Proof. exact hs_check_impl_approx_refuted. Qed.
Print Assumptions C05_hardswish_approx_refuted.
