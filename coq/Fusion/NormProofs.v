(* C19 proofs: the normalisation patterns are, in every field, the documented function of the fused operator. *)
From Coq Require Import List Field Ring ZArith Bool Arith Lia.
Require Import OV.Fusion.Field OV.Fusion.Norm.
Import ListNotations.

Section Laws.
  Variable F : Type.
  Variable o : fops F.
  Hypothesis Fth : is_field o.
  Variable sqrt : F -> F.
  Add Field FF : (Fth : field_theory (f0 o) (f1 o) (fadd o) (fmul o) (fsub o) (fopp o) (fdiv o) (finv o) (@eq F)).
  Notation "x + y" := (fadd o x y).
  Notation "x * y" := (fmul o x y).
  Notation "x - y" := (fsub o x y).
  Notation "x / y" := (fdiv o x y).

  Lemma div_def : forall p q, p / q = p * finv o q.
  Proof. exact (Fdiv_def Fth). Qed.

  (* x * Reciprocal(s) = x / s : no side condition (both sides are x * inv s) *)
  Lemma mul_recip : forall x s, x * recip o s = x / s.
  Proof. intros; unfold recip; rewrite !div_def; ring. Qed.

  Lemma pow2 : forall x, pow o x 2 = x * x.
  Proof. intros; simpl; ring. Qed.

  Lemma map2_comm : forall f, (forall a b, f a b = f b a) -> forall a b : list F, map2 f a b = map2 f b a.
  Proof. intros f H a; induction a as [|x a IH]; intros [|y b]; simpl; auto. rewrite H, IH; reflexivity. Qed.

  Lemma vmul_comm : forall a b, vmul o a b = vmul o b a.
  Proof. apply map2_comm; intros; ring. Qed.
  Lemma vadd_comm : forall a b, vadd o a b = vadd o b a.
  Proof. apply map2_comm; intros; ring. Qed.
  Lemma vadd_assoc : forall a b c, vadd o (vadd o a b) c = vadd o a (vadd o b c).
  Proof.
    unfold vadd. induction a as [|x a IH]; intros [|y b] [|z c]; simpl; auto.
    rewrite IH. f_equal. ring.
  Qed.

  Lemma smap_ext : forall f g (a : list F) s t, (forall x, f x s = g x t) -> smap f a s = smap g a t.
  Proof. intros; unfold smap; apply map_ext; auto. Qed.

  Lemma map_pow2 : forall v, map (fun x => pow o x 2) v = map (fun x => x * x) v.
  Proof. intros; apply map_ext; intros; apply pow2. Qed.

  Lemma vmul_self : forall d, vmul o d d = map (fun x => x * x) d.
  Proof. unfold vmul. induction d; simpl; auto. rewrite IHd; reflexivity. Qed.

  (* ---- RMS normalisation: both Mul orders, all vector lengths (also unequal ones), every epsilon *)
  Theorem rms_norm_identity : forall (mul_order : bool) (x scale : list F) (eps : F),
    rms_pattern F o sqrt mul_order x scale eps = rms_spec F o sqrt x scale eps.
  Proof.
    intros. unfold rms_pattern, rms_spec, rms_of. rewrite map_pow2.
    set (r := sqrt (mean o (map (fun v => v * v) x) + eps)).
    assert (E : smap (fmul o) x (recip o r) = smap (fdiv o) x r) by (apply smap_ext; intros; apply mul_recip).
    rewrite E. destruct mul_order; [reflexivity | apply vmul_comm].
  Qed.

  (* ---- LayerNormalization: all four combinations of the two OrValue alternatives *)
  Theorem layer_norm_identity : forall sq nm (x scale : list F) (eps : F),
    ln_pattern F o sqrt sq nm x scale eps = ln_spec F o sqrt x scale None eps.
  Proof.
    intros. unfold ln_pattern, ln_spec.
    set (d := deviation F o x).
    assert (Edd : (match sq with SqMul => vmul o d d | SqPow => map (fun v => pow o v 2) d end) = vmul o d d).
    { destruct sq; [reflexivity|]. rewrite map_pow2, vmul_self. reflexivity. }
    rewrite Edd. set (std := sqrt (mean o (vmul o d d) + eps)).
    destruct nm; [reflexivity|].
    f_equal. apply smap_ext. intros. symmetry. apply mul_recip.
  Qed.

  (* LayerNormBiasFusion: LayerNormalization(x, scale) + bias = LayerNormalization(x, scale, bias) *)
  Theorem layer_norm_bias_identity : forall x scale b eps,
    ln_bias_pattern F o sqrt x scale b eps = ln_spec F o sqrt x scale (Some b) eps.
  Proof. reflexivity. Qed.

  (* ---- skip sums: every variant adds the same three tensors *)
  Lemma skip_sum_total : forall bm sf input skip bias,
    skip_sum F o bm sf input skip bias = skip_total F o input skip (bias_arg F bm bias).
  Proof.
    intros. unfold skip_sum, skip_total, bias_arg.
    destruct bm, sf; simpl; try reflexivity.
    - apply vadd_comm.
    - (* pre, skip first: skip + (input + bias) *)
      rewrite (vadd_comm skip (vadd o input bias)). rewrite !vadd_assoc. f_equal. apply vadd_comm.
    - (* pre: (input + bias) + skip *)
      rewrite !vadd_assoc. f_equal. apply vadd_comm.
    - f_equal. apply vadd_comm.
  Qed.

  Theorem skip_rms_norm_identity : forall bm sf input skip gamma bias eps,
    skip_rms_pattern F o sqrt bm sf input skip gamma bias eps
    = skip_rms_spec F o sqrt input skip gamma (bias_arg F bm bias) eps.
  Proof. intros. unfold skip_rms_pattern, skip_rms_spec. rewrite skip_sum_total. reflexivity. Qed.

  Theorem skip_layer_norm_identity : forall bm sf input skip gamma beta bias eps,
    skip_ln_pattern F o sqrt bm sf input skip gamma beta bias eps
    = skip_ln_spec F o sqrt input skip gamma beta (bias_arg F bm bias) eps.
  Proof. intros. unfold skip_ln_pattern, skip_ln_spec. rewrite skip_sum_total. reflexivity. Qed.
End Laws.

(* ---- the side conditions are what makes the fused operator applicable ------------------------------------ *)
(* whenever RmsNormFusion fires, stash_type is FLOAT or DOUBLE (what ORT's kernel requires), axis is -1 *)
Lemma rms_check_sound : forall g x s c e rx re rs ax st,
  rms_check_rewrite g x s c e rx re rs = Some (ax, st) -> ax = (-1)%Z /\ (st = 1 \/ st = 11)%Z /\ e = true
  /\ is_float_type x = true /\ is_float_type s = true.
Proof.
  intros g x s c e rx re rs ax st. unfold rms_check_rewrite.
  destruct e; simpl; [|discriminate].
  destruct (is_float_type x) eqn:Hx; simpl; [|discriminate].
  destruct (is_float_type s) eqn:Hs; simpl; [|discriminate].
  destruct (negb g || (keeps_rank re rx && keeps_rank rs rx)); rewrite ?andb_true_r, ?andb_false_r;
    destruct c as [c|]; [destruct c | destruct x | destruct c | destruct x]; simpl; intro H; inversion H; auto 10.
Qed.

(* the repair (rank_guard = true): an accepted match cannot gain dimensions by broadcasting epsilon or scale -- the rank
   of the pattern's result is the rank of x, which is the rank of the fused operator's output *)
Lemma keeps_rank_le : forall v x r n, keeps_rank v x = true -> v = Some r -> x = Some n -> 1 <= n -> r <= n.
Proof.
  intros v x r n H -> -> Hn. simpl in H. apply orb_prop in H. destruct H as [H|H]; apply Nat.leb_le in H; lia.
Qed.
Theorem rms_rank_guard_sufficient : forall x s c e rx re rs n a b r,
  rms_check_rewrite true x s c e rx re rs = Some r -> rx = Some n -> re = Some a -> rs = Some b -> 1 <= n ->
  bc_rank n a b = n.
Proof.
  intros x s c e rx re rs n a b r H Hx He Hs Hn. unfold rms_check_rewrite in H.
  match type of H with (if ?c then _ else _) = _ => destruct c eqn:E; [|discriminate] end.
  apply andb_prop in E. destruct E as [_ E]. simpl in E. apply andb_prop in E. destruct E as [E1 E2].
  pose proof (keeps_rank_le _ _ _ _ E1 He Hx Hn). pose proof (keeps_rank_le _ _ _ _ E2 Hs Hx Hn).
  unfold bc_rank. lia.
Qed.
Theorem ln_rank_guard_sufficient : forall x e rx re rs n a b r,
  ln_check_rewrite true x e rx re rs = Some r -> rx = Some n -> re = Some a -> rs = Some b -> 1 <= n ->
  bc_rank n a b = n.
Proof.
  intros x e rx re rs n a b r H Hx He Hs Hn. unfold ln_check_rewrite in H.
  match type of H with (if ?c then _ else _) = _ => destruct c eqn:E; [|discriminate] end.
  apply andb_prop in E. destruct E as [_ E]. simpl in E. apply andb_prop in E. destruct E as [E1 E2].
  pose proof (keeps_rank_le _ _ _ _ E1 He Hx Hn). pose proof (keeps_rank_le _ _ _ _ E2 Hs Hx Hn).
  unfold bc_rank. lia.
Qed.
Theorem ln_bias_rank_guard_sufficient : forall rx rb n b,
  ln_bias_check true rx rb = true -> rx = Some n -> rb = Some b -> 1 <= n -> Nat.max n b = n.
Proof.
  intros rx rb n b H Hx Hb Hn. unfold ln_bias_check in H. simpl in H.
  pose proof (keeps_rank_le _ _ _ _ H Hb Hx Hn). lia.
Qed.
(* FINDING (known, C19:*:epsilon-or-scale-rank-exceeds-input-rank): as read (rank_guard = false) the checks accept x of rank 3
   with an epsilon of rank 4 -- the pattern's result then has rank 4, the fused operator's rank 3; the repair refuses it *)
Theorem rms_rank_as_read_refuted : exists n a b,
  rms_check_rewrite false FLOAT FLOAT None true (Some n) (Some a) (Some b) <> None /\ 1 <= n /\ bc_rank n a b <> n
  /\ rms_check_rewrite true FLOAT FLOAT None true (Some n) (Some a) (Some b) = None.
Proof. exists 3, 4, 1. repeat split; vm_compute; try discriminate; try lia; reflexivity. Qed.
Theorem ln_rank_as_read_refuted : exists n a b,
  ln_check_rewrite false FLOAT true (Some n) (Some a) (Some b) <> None /\ 1 <= n /\ bc_rank n a b <> n
  /\ ln_check_rewrite true FLOAT true (Some n) (Some a) (Some b) = None
  /\ ln_bias_check false (Some n) (Some a) = true /\ ln_bias_check true (Some n) (Some a) = false.
Proof. exists 3, 4, 1. repeat split; vm_compute; try discriminate; try lia; reflexivity. Qed.
Example rms_rank_guard_fires : rms_check_rewrite true FLOAT16 FLOAT16 (Some FLOAT) true (Some 3) (Some 0) (Some 1) = Some ((-1)%Z, 1%Z)
  /\ rms_check_rewrite true FLOAT FLOAT None true (Some 3) (Some 3) (Some 3) = Some ((-1)%Z, 1%Z).
Proof. split; vm_compute; reflexivity. Qed.

(* skip fusions fire only when input/skip are rank 3 of one shape [B,S,D] and gamma/beta/bias are [D] *)
Lemma bind_dims_length : forall actual names b b', bind_dims b actual names = Some b' -> length actual = length names.
Proof.
  induction actual as [|a t IH]; intros [|n nt] b b' H; simpl in *; try discriminate; auto.
  destruct (lookup b n).
  - destruct (Z.eqb a z); [|discriminate]. f_equal; eauto.
  - f_equal; eauto.
Qed.

Lemma check_shape_some : forall b sh names b', check_shape b sh names = Some b' ->
  exists b0 s, b = Some b0 /\ sh = Some s /\ length s = length names.
Proof. intros [b|] [sh|] names b'; simpl; try discriminate. intro H. exists b, sh. repeat split. eapply bind_dims_length; eauto. Qed.

Lemma skip_check_ranks : forall hb ln i s g be bi st,
  skip_check hb ln i s g be bi st = true ->
  exists si ss sg, i = Some si /\ s = Some ss /\ g = Some sg /\ length si = 3%nat /\ length ss = 3%nat /\ length sg = 1%nat /\ st = 1%Z.
Proof.
  intros hb ln i s g be bi st. unfold skip_check.
  set (b1 := check_shape (Some []) i [0; 1; 2]%nat).
  set (b2 := check_shape b1 s [0; 1; 2]%nat).
  set (b3 := check_shape b2 g [2]%nat).
  set (b4 := if ln then check_shape b3 be [2]%nat else b3).
  destruct (if hb then check_shape b4 bi [2]%nat else b4) as [b5|] eqn:E5; [|discriminate].
  intro H. apply Z.eqb_eq in H.
  assert (H4 : exists x, b4 = Some x).
  { destruct hb; [apply check_shape_some in E5; destruct E5 as (x & _ & -> & _); eauto | eauto]. }
  destruct H4 as (x4 & E4).
  assert (H3 : exists x, b3 = Some x).
  { unfold b4 in E4. destruct ln; [apply check_shape_some in E4; destruct E4 as (x & _ & -> & _); eauto | eauto]. }
  destruct H3 as (x3 & E3). unfold b3 in E3.
  apply check_shape_some in E3. destruct E3 as (x2 & sg & E2 & -> & Lg). unfold b2 in E2.
  apply check_shape_some in E2. destruct E2 as (x1 & ss & E1 & -> & Ls). unfold b1 in E1.
  apply check_shape_some in E1. destruct E1 as (x0 & si & _ & -> & Li).
  exists si, ss, sg. repeat split; auto.
Qed.

(* check()-sufficiency for the skip fusions: an accepted match has input = skip = [B,S,D] and gamma (beta, bias) = [D] with
   the SAME D -- the documented operand shapes of Skip(Simplified)LayerNormalization, and exactly the situation in which every
   row of the last axis is computed from rows of equal length, which is what skip_*_norm_identity is about *)
Lemma zshape_eqb_refl : forall a, zshape_eqb a a = true.
Proof. unfold zshape_eqb. induction a; simpl; auto. rewrite Z.eqb_refl. auto. Qed.
Theorem skip_check_sufficient : forall hb ln i s g be bi st,
  skip_check hb ln (Some i) (Some s) (Some g) be bi st = true ->
  exists B S D, i = [B; S; D] /\ s = [B; S; D] /\ g = [D] /\ (ln = true -> be = Some [D]) /\ (hb = true -> bi = Some [D]) /\ st = 1%Z
    /\ skip_op_ok ln i s g (if ln then be else None) (if hb then bi else None) = true.
Proof.
  intros hb ln i s g be bi st H. unfold skip_check in H.
  destruct i as [|a [|b [|c [|? ?]]]]; try (destruct ln, hb; simpl in H; discriminate).
  destruct s as [|a' [|b' [|c' [|? ?]]]];
    try (destruct ln, hb; simpl in H; repeat (match type of H with context [Z.eqb ?x ?y] => destruct (Z.eqb x y) end; simpl in H); discriminate).
  simpl in H.
  destruct (Z.eqb a' a) eqn:Ea; [|destruct ln, hb; simpl in H; discriminate]. simpl in H.
  destruct (Z.eqb b' b) eqn:Eb; [|destruct ln, hb; simpl in H; discriminate]. simpl in H.
  destruct (Z.eqb c' c) eqn:Ec; [|destruct ln, hb; simpl in H; discriminate]. simpl in H.
  apply Z.eqb_eq in Ea, Eb, Ec. subst a' b' c'.
  destruct g as [|d [|? ?]];
    try (destruct ln, hb; simpl in H; repeat (match type of H with context [Z.eqb ?x ?y] => destruct (Z.eqb x y) end; simpl in H); discriminate).
  simpl in H.
  destruct (Z.eqb d c) eqn:Ed; [|destruct ln, hb; simpl in H; discriminate]. apply Z.eqb_eq in Ed. subst d. simpl in H.
  exists a, b, c.
  destruct ln, hb; destruct be as [[|e [|? ?]]|]; destruct bi as [[|f [|? ?]]|]; simpl in H;
    repeat match type of H with context [Z.eqb ?x ?y] => let E := fresh "E" in destruct (Z.eqb x y) eqn:E; simpl in H end;
    try discriminate;
    repeat match goal with E : Z.eqb _ _ = true |- _ => apply Z.eqb_eq in E end; subst;
    repeat split; auto; try (intro; discriminate); simpl; rewrite ?Z.eqb_refl; reflexivity.
Qed.
Example skip_check_sufficient_satisfiable :
  skip_check true true (Some [2; 3; 8]%Z) (Some [2; 3; 8]%Z) (Some [8]%Z) (Some [8]%Z) (Some [8]%Z) 1 = true
  /\ skip_check false false (Some [-2; -3; 8]%Z) (Some [-2; -3; 8]%Z) (Some [8]%Z) None None 1 = true.
Proof. split; vm_compute; reflexivity. Qed.

(* ---- non-vacuity: the field hypothesis is satisfiable (Qc) and the identity is not 0 = 0 there ------------ *)
From Coq Require Import QArith Qcanon.
Definition qc_ops : fops Qc := mk_fops Qc (Q2Qc 0) 1%Qc Qcplus Qcmult Qcminus Qcopp Qcdiv Qcinv.
Lemma qc_is_field : is_field qc_ops.
Proof. exact Qcft. Qed.

Example rms_example :
  let x := [Q2Qc 3; Q2Qc 4] in let g := [Q2Qc 2; Q2Qc 5] in
  (* with sqrt := id and eps = 0: mean(x^2) = 25/2, so y = x / (25/2) * g *)
  rms_spec Qc qc_ops (fun v => v) x g (Q2Qc 0) = [Q2Qc (12 # 25); Q2Qc (40 # 25)].
Proof. vm_compute. repeat f_equal; apply Qc_is_canon; reflexivity. Qed.
