(* Model of the statement emission of onnxscript/backend/onnx_export.py for NESTED graphs (C13): If and Loop
   nodes, the un-SSA renaming, and the export options that change the emitted structure.

     _Exporter._translate_node   (dispatch: inlined Constant, If / Loop / Scan, graph attribute,
                                  use_operators, generic call)                       -> emit_node_with
     _Exporter._translate_if     (`if c:` then-body, `out = then_out`..., `else:` ...) -> emit_if
     _Exporter._translate_loop   (`cond_in = c`, `formal = actual`..., for / while / for+break,
                                  body, `cond_in = cond_out`, `formal = formal_out`...,
                                  `actual_out = formal`... after the loop)             -> emit_loop
     _Exporter._emit_assign      (zip of the two name lists, one assignment per pair)  -> assigns
     _Exporter._translate_onnx_var      ("" -> None; the remapping scope; the renamer) -> tr / tv / tvo
     _Exporter._translate_onnx_var_ref  (an inlined constant's literal, else the name) -> ref / ref_e
     _get_const_repr + str/repr of the value (inline_const)                            -> const_lit / ilit_expr
     _cond_is_used_in_loop_body / _is_used_in_graph_body                               -> cond_used / memb .. names_nodes
     _translate_graph_body / _translate_graph / _translate_function                    -> emit_nodes / export_cf

   State of the exporter.  The real exporter mutates two dictionaries while it walks the graph:
   `_name_remappings[-1]` (a pure `for` loop maps the body's condition output to the Python name of its condition
   input, for the rest of the function) and `constants` (inline_const: output of a dropped Constant node -> literal
   text).  Here both are computed by one pass in the same traversal order BEFORE the emission (`scan`, giving `rm`
   and `consts`) and the emission reads them.  The two agree whenever no name is translated before the loop /
   Constant that registers it is reached, i.e. on every graph in which a value is defined before it is used
   (the correspondence check compares on the real exporter's output, it does not assume this).

   A graph is OV.Graph.Syntax with the convention of Export/Emit.v (an omitted node output stays in `outs` as "").
   If: subs = the node's two graph attributes in the order of the proto; Loop: subs = [("body", g)].
   Out of the model (None): subgraphs with initializers, Scan, nodes of another kind with graph attributes, nodes
   the straight-line model refuses, operator form with other than two inputs, a counted loop outside a
   FunctionProto (the real exporter raises IndexError there: known finding), a Loop with neither trip count use nor
   condition use (RuntimeError in the source), attribute parameters of functions.
   Not modelled: comments, doc strings, type annotations, import lines, _handle_attrname_conflict.
   No proofs in this file. *)
From Coq Require Import List String Ascii Bool Arith ZArith.
Require Import OV.Export.Cleanup.
Require Import OV.Graph.Syntax OV.Graph.Names OV.Graph.Sem OV.Script.Syntax OV.Script.Translate OV.Gen.ScriptTables
               OV.Gen.ExportTables OV.Export.Emit.
Import ListNotations.
Local Open Scope string_scope.

(* ---- inline_const: the literal of a small FLOAT / INT64 tensor ------------------------------------------- *)
(* payload of an ATensor = the raw little-endian bytes of the tensor (harness/graphlit.py, <= 64 bytes) *)
Fixpoint le_nat (bs : list Z) : Z := match bs with [] => 0%Z | b :: t => (b + 256 * le_nat t)%Z end.
Fixpoint chunks (k fuel : nat) (bs : list Z) : list (list Z) :=
  match fuel with
  | O => []
  | S f => match bs with [] => [] | _ => firstn k bs :: chunks k f (skipn k bs) end
  end.
Definition int64_of (bs : list Z) : Z :=
  let u := le_nat bs in if Z.leb 9223372036854775808 u then (u - 18446744073709551616)%Z else u.

Definition is_some {A} (o : option A) : bool := match o with Some _ => true | None => false end.

Inductive ilit := IInt (z : Z) | IFloat (bits : Z) | IInts (zs : list Z) | IFloats (bits : list Z).

(* _get_const_repr on the first attribute of a Constant node *)
Definition const_lit (a : attrv) : option ilit :=
  match a with
  | ATensor dt dims payload =>
    let n := List.length payload in
    if Z.eqb dt 1 then
      match dims with
      | [] => match chunks 4 n payload with c :: _ => Some (IFloat (le_nat c)) | [] => None end
      | [d] => if Z.ltb d 5 then Some (IFloats (map le_nat (chunks 4 n payload))) else None
      | _ => None
      end
    else if Z.eqb dt 7 then
      match dims with
      | [] => match chunks 8 n payload with c :: _ => Some (IInt (int64_of c)) | [] => None end
      | [d] => if Z.ltb d 5 then Some (IInts (map int64_of (chunks 8 n payload))) else None
      | _ => None
      end
    else None
  | _ => None
  end.

(* Repair variants (proposed_fixes C13_02 / _04 / _05 / _09, decided by probe in harness/c13_variants.py); every flag
   false = the exporter as read.  The flags only exist when inline_const is on: the option is `option inline_fx`. *)
Record inline_fx := {
  fx_finite : bool;       (* C13_04: nan / inf / -inf are not inlined *)
  fx_nonempty : bool;     (* C13_09: a constant of shape [0] is not inlined *)
  fx_src_ref : bool;      (* C13_05: right-hand sides of emitted assignments, range() and return use the literal *)
  fx_init_raw : bool      (* C13_02: an inlined initializer is recorded under its ONNX name *)
}.
Definition as_read_fx : inline_fx := {| fx_finite := false; fx_nonempty := false; fx_src_ref := false; fx_init_raw := false |}.
Definition nonfinite_b (b : Z) : bool := Z.leb 2139095040 (Z.modulo b 2147483648).
Definition lit_okb (fx : inline_fx) (l : ilit) : bool :=
  negb (fx_finite fx && match l with IFloat b => nonfinite_b b | IFloats bs => existsb nonfinite_b bs | _ => false end) &&
  negb (fx_nonempty fx && match l with IInts [] | IFloats [] => true | _ => false end).
Definition const_lit_fx (fx : inline_fx) (a : attrv) : option ilit :=
  match const_lit a with Some l => if lit_okb fx l then Some l else None | None => None end.
Definition node_const (fx : inline_fx) (attrs : list (string * attrv)) : option ilit :=
  match attrs with (_, a) :: _ => const_lit_fx fx a | [] => None end.
(* `self.inline_const and node.op_type == "Constant"` and a compact representation exists *)
Definition inl_drop (inline : option inline_fx) (op : string) (attrs : list (string * attrv)) : bool :=
  match inline with Some fx => String.eqb op "Constant" && is_some (node_const fx attrs) | None => false end.

(* str(numpy float32) / repr(python float): nan, inf, -inf are printed as bare names *)
Definition is_nan_bits (b : Z) : bool := Z.ltb 2139095040 (Z.modulo b 2147483648).
Definition float_expr (b : Z) : expr :=
  if is_nan_bits b then EVar "nan"
  else if Z.eqb b 2139095040 then EVar "inf"
  else if Z.eqb b 4286578688 then EUn "USub" (EVar "inf")
  else ELit (LFloat b).
(* Script.Syntax has no literal for a list of floats: the list display [f1, .., fk] is encoded as the application
   of the pseudo-callee CFun "[]" to its elements (comparison only; no theorem reads it) *)
Definition ilit_expr (l : ilit) : expr :=
  match l with
  | IInt z => ELit (LInt z)
  | IFloat b => float_expr b
  | IInts zs => ELit (LInts zs)
  | IFloats [] => ELit (LInts [])
  | IFloats bs => ECall (CFun "[]") (map (fun b => Some (float_expr b)) bs) []
  end.

(* number of elements of an initializer: skip_initializers moves the ones with more than _SMALL_TENSOR_SIZE *)
Definition tensor_size (a : attrv) : Z :=
  match a with ATensor _ dims _ => fold_right Z.mul 1%Z dims | _ => 1%Z end.

(* Python operator symbol -> (is a comparison, ast class name) *)
Definition pyop (sym : string) : option (bool * string) :=
  lookup_assoc sym
    [("+", (false, "Add")); ("-", (false, "Sub")); ("*", (false, "Mult")); ("@", (false, "MatMult"));
     ("/", (false, "Div")); ("**", (false, "Pow")); ("&", (false, "BitAnd")); ("|", (false, "BitOr"));
     (">", (true, "Gt")); ("==", (true, "Eq")); ("<", (true, "Lt")); (">=", (true, "GtE")); ("<=", (true, "LtE"))].

(* the loop needs its condition: some node other than `cond_out = Identity(cond_in)` mentions one of the two *)
Definition passthrough (cin cout : vname) (n : node) : bool :=
  let 'Node dom op ins outs _ _ := n in
  String.eqb dom "" && String.eqb op "Identity" &&
  match ins, outs with
  | [Some i], [o] => String.eqb i cin && String.eqb o cout
  | _, _ => false
  end.
Definition cond_used (cin cout : vname) (ns : list node) : bool :=
  existsb (fun n => negb (passthrough cin cout n) && (memb cin (names_node n) || memb cout (names_node n))) ns.

Inductive loop_form := FFor | FWhile | FForBreak | FNone.
Definition has_in (ins : list (option vname)) (k : nat) : bool :=
  match nth_error ins k with Some (Some _) => true | _ => false end.
Definition loop_form_of (ins : list (option vname)) (body : graph) : option loop_form :=
  match g_ins body, g_outs body with
  | iv :: cin :: _, cout :: _ =>
    let use_iter := has_in ins 0 || memb iv (names_nodes (g_nodes body)) in
    let use_cond := has_in ins 1 || cond_used cin cout (g_nodes body) in
    Some (match use_iter, use_cond with
          | true, false => FFor | false, true => FWhile | true, true => FForBreak | false, false => FNone end)
  | _, _ => None
  end.

Section EmitCF.
  Variable kw : list string.
  Variable rename : vname -> string.              (* self._rename_variable *)
  Variable infun : bool.                          (* inside _translate_function (a remapping scope exists) *)
  Variable use_ops : option bool.                 (* use_operators; Some true = C13_11: a negative literal operand is parenthesized *)
  Variable inline : option inline_fx.             (* inline_const, with its repair flags *)

  (* ---- the exporter's two dictionaries, as association lists (latest entry first) --------------------- *)
  Definition remaps := list (vname * string).
  Definition cdict := list (vname * ilit).

  Definition tr_with (rm : remaps) (x : vname) : string :=
    match lookup_assoc x rm with Some s => s | None => rename x end.

  Section Scan.
    Variable sub : remaps * cdict -> graph -> remaps * cdict.
    Definition scan_node (st : remaps * cdict) (n : node) : remaps * cdict :=
      let 'Node dom op ins outs attrs subs := n in
      if inl_drop inline op attrs then
        match inline, outs with
        | Some fx, o :: _ => match node_const fx attrs with Some l => (fst st, (o, l) :: snd st) | None => st end
        | _, _ => st
        end
      else if String.eqb op "If" then
        match subs with
        | [(n0, g0); (n1, g1)] =>
          let '(gt, ge) := if String.eqb n0 "else_branch" then (g1, g0) else (g0, g1) in
          sub (sub st gt) ge
        | _ => st
        end
      else if String.eqb op "Loop" then
        match subs with
        | (_, body) :: _ =>
          match loop_form_of ins body, g_ins body, g_outs body with
          | Some FFor, _ :: cin :: _, cout :: _ =>
            if infun then sub ((cout, tr_with (fst st) cin) :: fst st, snd st) body else st
          | Some _, _, _ => sub st body
          | None, _, _ => st
          end
        | [] => st
        end
      else st.
  End Scan.

  Fixpoint scan_nodes (fuel : nat) (st : remaps * cdict) (ns : list node) {struct fuel} : remaps * cdict :=
    match fuel with
    | O => st
    | S fu => fold_left (scan_node (fun st g => scan_nodes fu st (g_nodes g))) ns st
    end.

  (* ---- emission, reading the two dictionaries ---------------------------------------------------------- *)
  Variable rm : remaps.
  Variable consts : cdict.

  Definition tr (x : vname) : string := tr_with rm x.
  Definition tv (x : vname) : string := if is_empty x then "None" else tr x.
  Definition tvo (o : option vname) : string := match o with None => "None" | Some x => tr x end.
  Definition ref_e (o : option vname) : expr :=
    match o with
    | None => EVar "None"
    | Some x => match lookup_assoc x consts with Some l => ilit_expr l | None => EVar (tr x) end
    end.
  Definition ref (o : option vname) : option expr :=
    match o with None => None | Some _ => Some (ref_e o) end.

  Definition assigns (lhs rhs : list string) : list stmt :=
    map (fun p => SAssign (fst p) (EVar (snd p))) (combine lhs rhs).
  (* the right-hand side of an emitted assignment: the variable as read; the reference (an inlined literal) with C13_05 *)
  Definition src_refb : bool := match inline with Some fx => fx_src_ref fx | None => false end.
  Definition ref_name (x : vname) : expr := if is_empty x then EVar "None" else ref_e (Some x).
  Definition src_o (o : option vname) : expr :=
    match inline with Some fx => if fx_src_ref fx then ref_e o else EVar (tvo o) | None => EVar (tvo o) end.
  Definition src_n (x : vname) : expr :=
    match inline with Some fx => if fx_src_ref fx then ref_name x else EVar (tv x) | None => EVar (tv x) end.
  Definition assigns_e (lhs : list string) (rhs : list expr) : list stmt :=
    map (fun p => SAssign (fst p) (snd p)) (combine lhs rhs).
  Definition assigns_n (lhs : list string) (rhs : list vname) : list stmt :=
    match inline with
    | Some fx => if fx_src_ref fx then assigns_e lhs (map ref_name rhs) else assigns lhs (map tv rhs)
    | None => assigns lhs (map tv rhs)
    end.
  Definition assigns_o (lhs : list string) (rhs : list (option vname)) : list stmt :=
    match inline with
    | Some fx => if fx_src_ref fx then assigns_e lhs (map ref_e rhs) else assigns lhs (map tvo rhs)
    | None => assigns lhs (map tvo rhs)
    end.

  (* the generic call, with references that may be literals (the straight-line model Emit.emit_node has names only) *)
  Definition emit_call (n : node) : option (list stmt) :=
    let 'Node dom op ins outs attrs subs := n in
    if negb (String.eqb dom "") || is_cf op || negb (is_nil subs) || existsb is_other attrs then None
    else
      let os := out_names tr 0 outs in
      let supp := String.eqb op "Identity" &&
                  match ins, os with
                  | [i], [o] => match ref i with
                                | Some (EVar s) => String.eqb o s
                                | None => String.eqb o "None"
                                | _ => false
                                end
                  | _, _ => false
                  end in
      if supp then Some []
      else
        let call := ECall (COp (cleanup kw op)) (map ref ins) (map kw_of_attr attrs) in
        match os with
        | [] => None
        | [o] => Some [SAssign o call]
        | _ => Some [STuple os call]
        end.

  (* The text `a ** b` is read back by Python's grammar, in which `**` binds tighter than a unary minus on its LEFT:
     with a negative literal (or -inf) as left operand the parsed expression is -(|a| ** b), not (a) ** b.
     The model gives the expression as parsed (what the generated source denotes).  With C13_11 (use_ops = Some true)
     the operand is parenthesized and stays one operand. *)
  Definition neg_operand (e : expr) : option expr :=
    match e with
    | ELit (LInt z) => if Z.ltb z 0 then Some (ELit (LInt (- z))) else None
    | ELit (LFloat b) => if Z.leb 2147483648 b then Some (ELit (LFloat (b - 2147483648))) else None
    | EUn "USub" a => Some a
    | _ => None
    end.
  Definition emit_operator (sym : string) (ins : list (option vname)) (outs : list vname) : option (list stmt) :=
    match pyop sym, ins, outs with
    | Some (cmp, cls), [a; b], o :: _ =>
      Some [SAssign (tv o)
              (match (if String.eqb sym "**" && negb (match use_ops with Some true => true | _ => false end)
                      then neg_operand (ref_e a) else None) with
               | Some pa => EUn "USub" (EBin cls pa (ref_e b))
               | None => (if cmp then ECmp else EBin) cls (ref_e a) (ref_e b)
               end)]
    | _, _, _ => None
    end.

  Section Node.
    Variable sub : graph -> option (list stmt).     (* _translate_graph_body of a subgraph *)

    Definition emit_if (ins : list (option vname)) (outs : list vname) (attrs : list (string * attrv))
                       (subs : list (string * graph)) : option (list stmt) :=
      match ins, attrs, subs with
      | c :: _, [], [(n0, g0); (n1, g1)] =>
        let '(gt, ge) := if String.eqb n0 "else_branch" then (g1, g0) else (g0, g1) in
        match sub gt, sub ge with
        | Some st, Some se =>
          Some [SIf (ref_e c)
                    (st ++ assigns_n (map tv outs) (g_outs gt))%list
                    (se ++ assigns_n (map tv outs) (g_outs ge))%list]
        | _, _ => None
        end
      | _, _, _ => None
      end.

    Definition emit_loop (ins : list (option vname)) (outs : list vname) (attrs : list (string * attrv))
                         (subs : list (string * graph)) : option (list stmt) :=
      match attrs, subs with
      | [], (_, body) :: _ =>
        match loop_form_of ins body, g_ins body, g_outs body, sub body with
        | Some form, iv :: cin :: fins, cout :: fouts_all, Some sb =>
          let nstate := List.length ins - 2 in
          let fouts := firstn nstate fouts_all in
          let aouts := firstn nstate outs in
          let n_iter := match ins with Some m :: _ => src_o (Some m) | _ => EVar "None" end in
          let use_cond := match form with FWhile | FForBreak => true | _ => false end in
          let pre := ((if has_in ins 1 then [SAssign (tr cin) (src_o (nth 1 ins None))] else [])
                      ++ assigns_o (map tv fins) (skipn 2 ins))%list in
          let inner := (sb ++ (if use_cond then [SAssign (tr cin) (src_n cout)] else [])
                           ++ assigns_n (map tv fins) fouts)%list in
          let post := assigns_n (map tv aouts) fins in
          match form with
          | FFor => if infun then Some (pre ++ [SFor (tr iv) n_iter inner] ++ post)%list else None
          | FWhile => Some (pre ++ [SWhile (tr cin) inner] ++ post)%list
          | FForBreak =>
            Some (pre ++ [SFor (tr iv) n_iter (SIf (EUn "Not" (EVar (tr cin))) [SBreak] [] :: inner)] ++ post)%list
          | FNone => None
          end
        | _, _, _, _ => None
        end
      | _, _ => None
      end.

    Definition emit_node_with (n : node) : option (list stmt) :=
      let 'Node dom op ins outs attrs subs := n in
      if inl_drop inline op attrs then Some []
      else if String.eqb op "If" then emit_if ins outs attrs subs
      else if String.eqb op "Loop" then emit_loop ins outs attrs subs
      else if String.eqb op "Scan" then None
      else if negb (is_nil subs) then None
      else
        match (match use_ops with Some _ => lookup_assoc op use_operators_table | None => None end) with
        | Some sym => emit_operator sym ins outs
        | None => match inline with Some _ => emit_call n | None => emit_node kw tr n end
        end.
  End Node.

  Fixpoint emit_nodes (fuel : nat) (ns : list node) {struct fuel} : option (list stmt) :=
    match fuel with
    | O => None
    | S fu => emit_all (emit_node_with (fun g => if is_nil (g_inits g) then emit_nodes fu (g_nodes g) else None)) ns
    end.
End EmitCF.

(* ---- the whole function -------------------------------------------------------------------------------------- *)
Section Export.
  Variable kw : list string.
  Variable prename rename : vname -> string.
  Variable infun : bool.
  Variable use_ops : option bool.
  Variable inline : option inline_fx.
  Variable skip : bool.

  Definition skipped (iv : vname * attrv) : bool := skip && Z.ltb (Z.of_nat small_tensor_size) (tensor_size (snd iv)).

  (* initializers come first: an inlinable one is registered under its TRANSLATED name (the source hands the
     translated name to make_node and _translate_node records node.output[0]) *)
  Definition init_consts (ivals : list (vname * attrv)) : cdict :=
    fold_left (fun acc iv => if skipped iv then acc
                             else match inline with
                                  | Some fx => match const_lit_fx fx (snd iv) with
                                               | Some l => ((if fx_init_raw fx then fst iv else rename (fst iv)), l) :: acc
                                               | None => acc
                                               end
                                  | None => acc
                                  end) ivals [].

  Definition scan (ivals : list (vname * attrv)) (g : graph) : remaps * cdict :=
    scan_nodes rename infun inline (depth_graph g) ([], init_consts ivals) (g_nodes g).

  Definition emit_init_cf (rm : remaps) (iv : vname * attrv) : option (list stmt) :=
    if skipped iv then Some []
    else if match inline with Some fx => is_some (const_lit_fx fx (snd iv)) | None => false end then Some []
    else emit_init kw (tr_with rename rm) iv.

  (* -> the function, and the names of the parameters of the enclosing make_model (skip_initializers) *)
  Definition export_cf (fname : string) (ivals : list (vname * attrv)) (g : graph) : option (func * list string) :=
    let '(rm, consts) := scan ivals g in
    match emit_all (emit_init_cf rm) ivals,
          emit_nodes kw rename infun use_ops inline rm consts (depth_graph g) (g_nodes g) with
    | Some si, Some sn =>
      Some ({| f_name := fname;
               f_tparams := map prename (g_ins g);
               f_aparams := [];
               f_body := (si ++ sn ++ [SReturn (match inline with
                                                | Some fx => if fx_src_ref fx then map (ref_name rename rm consts) (g_outs g)
                                                             else map (fun o => EVar (tr_with rename rm o)) (g_outs g)
                                                | None => map (fun o => EVar (tr_with rename rm o)) (g_outs g)
                                                end)])%list |},
            map (fun iv => tr_with rename rm (fst iv)) (filter skipped ivals))
    | _, _ => None
    end.
End Export.

(* ---- structural equality of programs with control flow, for the correspondence check --------------------- *)
Definition lit_eqb (a b : lit) : bool :=
  match a, b with
  | LInt x, LInt y => Z.eqb x y
  | LFloat x, LFloat y => Z.eqb x y
  | LBool x, LBool y => Bool.eqb x y
  | LInts x, LInts y => zlist_eqb x y
  | _, _ => false
  end.
Fixpoint expr_eqb' (a b : expr) {struct a} : bool :=
  match a, b with
  | EVar x, EVar y => String.eqb x y
  | ELit x, ELit y => lit_eqb x y
  | EUn o x, EUn p y => String.eqb o p && expr_eqb' x y
  | EBin o x1 x2, EBin p y1 y2 => String.eqb o p && expr_eqb' x1 y1 && expr_eqb' x2 y2
  | ECmp o x1 x2, ECmp p y1 y2 => String.eqb o p && expr_eqb' x1 y1 && expr_eqb' x2 y2
  | ECall f xs ks, ECall g ys ls =>
    callee_eqb f g && all2 kwarg_eqb ks ls &&
    (fix go (l : list (option expr)) (m : list (option expr)) {struct l} : bool :=
       match l, m with
       | [], [] => true
       | None :: l', None :: m' => go l' m'
       | Some x :: l', Some y :: m' => expr_eqb' x y && go l' m'
       | _, _ => false
       end) xs ys
  | _, _ => false
  end.
Fixpoint stmt_eqb' (a b : stmt) {struct a} : bool :=
  let stmts_eqb := fix go (l m : list stmt) {struct l} : bool :=
                     match l, m with
                     | [], [] => true
                     | x :: l', y :: m' => stmt_eqb' x y && go l' m'
                     | _, _ => false
                     end in
  match a, b with
  | SAssign x e, SAssign y f => String.eqb x y && expr_eqb' e f
  | STuple xs e, STuple ys f => list_eqb xs ys && expr_eqb' e f
  | SIf c t e, SIf d u f => expr_eqb' c d && stmts_eqb t u && stmts_eqb e f
  | SFor i n s, SFor j m t => String.eqb i j && expr_eqb' n m && stmts_eqb s t
  | SWhile c s, SWhile d t => String.eqb c d && stmts_eqb s t
  | SBreak, SBreak => true
  | SReturn es, SReturn fs => all2 expr_eqb' es fs
  | _, _ => false
  end.
Definition func_eqb' (a b : func) : bool :=
  String.eqb (f_name a) (f_name b) && list_eqb (f_tparams a) (f_tparams b) &&
  is_nil (f_aparams a) && is_nil (f_aparams b) && all2 stmt_eqb' (f_body a) (f_body b).

(* one correspondence case: model against observation; `None` on the observed side = the real exporter raised *)
Definition cf_agrees (model : option (func * list string)) (observed : option (func * list string)) : bool :=
  match model, observed with
  | Some (f, sk), Some (g, sl) => func_eqb' f g && list_eqb sk sl
  | None, None => true
  | _, _ => false
  end.
Fixpoint disagreeing_cf (i : nat) (cs : list (option (func * list string) * option (func * list string))) : list nat :=
  match cs with
  | [] => []
  | (m, o) :: t => ((if cf_agrees m o then [] else [i]) ++ disagreeing_cf (S i) t)%list
  end.

(* ---- executable side conditions of the nested soundness theorem (Export/EmitCFProofs.v) ---------------------
   D = the value names visible at this point (every one of them bound, under its Python name, to the same tensor);
   NN = the names on which the translation `tr` is injective.  A checker returns the names visible afterwards.
   Covered: plain nodes (as Export/Emit.v), If (both branches), Loop in the `while` form whose body does not read its
   condition input, Loop in the `for` form whose body passes the condition through as its last node (or directly),
   and -- when the flag `brk` is set -- Loop in the `for` + `if not c: break` form with a condition input whose body
   does not read it; bodies nested to any depth.  Everything else (Scan, ...) -> None. *)
Fixpoint seqokb (L R : list string) : bool :=
  match L, R with
  | x :: l, _ :: r => negb (memb x r) && seqokb l r
  | _, _ => true
  end.

(* the exact condition under which the lines compute the simultaneous assignment (Export/SeqAssign.v): no target is
   overwritten with ANOTHER variable's value and read by a later line *)
Fixpoint hazardb (L R : list string) : bool :=
  match L, R with
  | x :: l, y :: r => (negb (String.eqb x y) && memb x r) || hazardb l r
  | _, _ => false
  end.

(* repair variant "refuse": a Loop whose body returns one of its own inputs at a later position raises a descriptive
   error instead of printing sequential copies that would read an overwritten variable (decided on the ONNX names) *)
Definition loop_hazard (ins : list (option vname)) (body : graph) : bool :=
  match loop_form_of ins body, g_ins body, g_outs body with
  | Some form, _ :: cin :: fins, cout :: fouts =>
    let uc := match form with FWhile | FForBreak => true | _ => false end in
    hazardb ((if uc then [cin] else []) ++ fins)%list ((if uc then [cout] else []) ++ firstn (List.length ins - 2) fouts)%list
  | _, _, _ => false
  end.
Fixpoint hazard_nodes (fuel : nat) (ns : list node) {struct fuel} : bool :=
  match fuel with
  | O => false
  | S fu =>
    existsb (fun n => let 'Node _ op ins _ _ subs := n in
                      (String.eqb op "Loop" && match subs with (_, b) :: _ => loop_hazard ins b | [] => false end) ||
                      existsb (fun sg => hazard_nodes fu (g_nodes (snd sg))) subs) ns
  end.
Definition refuse_hazard {A} (flag : bool) (g : graph) (m : option A) : option A :=
  if flag && hazard_nodes (depth_graph g) (g_nodes g) then None else m.

Section WfCF.
  Variable kw : list string.
  Variable rename : vname -> string.
  Variable infun : bool.
  Variable rm : remaps.
  Variable NN : list vname.
  Variable brk : bool.      (* Loop nodes with a trip count AND a condition (`for` + `if not c: break`) are in the class *)
  Variable use_ops : option bool.   (* use_operators: a node of the operator table is printed as `a <sym> b` *)

  Notation tr := (tr rename rm).
  Notation tv := (tv rename rm).
  Notation tvo := (tvo rename rm).

  Definition freshb (D : list vname) (x : vname) : bool := nonempty x && memb x NN && negb (memb x D).
  Definition phb (outs : list vname) : bool := forallb (fun p => negb (memb p (map tr NN))) (ph_names 0 outs).

  (* use_operators: the exporter looks at the operator NAME only (not at the domain, the attributes or the number of
     operands) and prints `out0 = in0 <sym> in1`.  That line denotes the node when the node is the default-domain operator
     with exactly two operands and one output and no attribute, and the converter's table reads the symbol back as this
     operator (the dead entry "Lesser" does not: `<` is Less). *)
  Definition op_line_okb (n : node) : bool :=
    match use_ops with
    | None => true
    | Some _ =>
      match lookup_assoc (n_op n) use_operators_table with
      | None => true
      | Some sym =>
        String.eqb (n_dom n) "" && negb (String.eqb (n_op n) "Identity") && is_nil (n_attrs n) &&
        match n_ins n, n_outs n with
        | [Some _; Some _], [o] => nonempty o
        | _, _ => false
        end &&
        match pyop sym with
        | Some (_, cls) => match lookup_assoc cls primop_map with
                           | Some o' => String.eqb o' (n_op n) && negb (String.eqb cls "Mod") && negb (String.eqb o' "NotEqual")
                           | None => false
                           end
        | None => false
        end
      end
    end.

  Definition wf_plain (D : list vname) (n : node) : option (list vname) :=
    let named := filter nonempty (n_outs n) in
    if forallb (fun x => memb x D) (present (n_ins n))
       && forallb (freshb D) named && nodupb named && phb (n_outs n) && call_okb kw (n_op n) (n_ins n) && op_line_okb n
    then Some (named ++ D)%list else None.

  Section Node.
    Variable wsub : list vname -> list node -> option (list vname).

    Definition wf_branch (D : list vname) (g : graph) (outs : list vname) : bool :=
      is_nil (g_ins g) && is_nil (g_inits g) && Nat.eqb (List.length (g_outs g)) (List.length outs) &&
      forallb nonempty (g_outs g) &&
      match wsub D (g_nodes g) with
      | Some Db => forallb (fun o => memb o Db) (g_outs g) && seqokb (map tv outs) (map tv (g_outs g))
      | None => false
      end.

    Definition branch_names (n0 n1 : string) : bool :=
      (String.eqb n0 "then_branch" && String.eqb n1 "else_branch") || (String.eqb n0 "else_branch" && String.eqb n1 "then_branch").

    Definition wf_if (D : list vname) (dom : string) (ins : list (option vname)) (outs : list vname)
                     (attrs : list (string * attrv)) (subs : list (string * graph)) : option (list vname) :=
      match ins, attrs, subs with
      | [Some c], [], [(n0, g0); (n1, g1)] =>
        if String.eqb dom "" && memb c D && branch_names n0 n1 && forallb (freshb D) outs && nodupb outs && nodupb (map tv outs)
           && wf_branch D g0 outs && wf_branch D g1 outs
        then Some (outs ++ D)%list else None
      | _, _, _ => None
      end.

    (* Loop, `while` form: no trip count, a condition input, a body that does not read its condition input (`wsub` runs
       without cond_in among the visible names). *)
    Definition wf_while (D : list vname) (dom : string) (ins : list (option vname)) (outs : list vname)
                       (attrs : list (string * attrv)) (subs : list (string * graph)) : option (list vname) :=
      match ins, attrs, subs with
      | None :: Some c :: actual, [], [(bn, Graph (iv :: cin :: fins) [] nsb (cout :: fouts))] =>
        let acts := present actual in
        let n := List.length actual in
        if String.eqb dom "" && String.eqb bn "body" &&
           match loop_form_of ins (Graph (iv :: cin :: fins) [] nsb (cout :: fouts)) with Some FWhile => true | _ => false end &&
           Nat.eqb (List.length acts) n && forallb (fun a => memb a D) acts &&
           Nat.eqb (List.length fins) n && Nat.eqb (List.length fouts) n && Nat.eqb (List.length outs) n &&
           nodupb (iv :: cin :: fins) && negb (memb iv D) && freshb D cin &&
           forallb (freshb D) fins && forallb (freshb D) outs && nodupb outs &&
           forallb nonempty fouts && nonempty cout &&
           nodupb (map tv outs) && seqokb (map tv outs) (map tv fins) &&
           memb c D && nodupb (tr cin :: map tv fins) &&
           seqokb (tr cin :: map tv fins) (tr c :: map tvo actual) &&
           seqokb (tr cin :: map tv fins) (tv cout :: map tv fouts)
        then match wsub (fins ++ D)%list nsb with
             | Some Db => if forallb (fun o => memb o Db) (cout :: fouts) then Some (outs ++ D)%list else None
             | None => None
             end
        else None
      | _, _, _ => None
      end.

    (* the nodes of a counted loop's body: the pass-through `cond_out = Identity(cond_in)` must be the LAST node (where
       the converter and every producer seen by the correspondence check put it), or absent when cond_out IS cond_in *)
    Definition split_tail (cin cout : vname) (nodes : list node) : option (list node) :=
      if String.eqb cout cin then Some nodes
      else match rev nodes with
           | Node d o [Some i] [u] [] [] :: r =>
             if String.eqb d "" && String.eqb o "Identity" && String.eqb i cin && String.eqb u cout then Some (rev r) else None
           | _ => None
           end.

    (* Loop, `for` form: a trip count, no condition input, no node of the body but the pass-through mentions the
       condition; the iteration variable is an ordinary visible name of the body *)
    Definition wf_for (D : list vname) (dom : string) (ins : list (option vname)) (outs : list vname)
                      (attrs : list (string * attrv)) (subs : list (string * graph)) : option (list vname) :=
      match ins, attrs, subs with
      | Some m :: None :: actual, [], [(bn, Graph (iv :: cin :: fins) [] nodes (cout :: fouts))] =>
        let acts := present actual in
        let n := List.length actual in
        match split_tail cin cout nodes with
        | Some nsb =>
          if String.eqb dom "" && String.eqb bn "body" &&
             match loop_form_of ins (Graph (iv :: cin :: fins) [] nodes (cout :: fouts)) with Some FFor => true | _ => false end &&
             Nat.eqb (List.length acts) n && forallb (fun a => memb a D) acts &&
             Nat.eqb (List.length fins) n && Nat.eqb (List.length fouts) n && Nat.eqb (List.length outs) n &&
             nodupb (iv :: cin :: fins) && freshb D iv && negb (memb cin D) &&
             forallb (freshb D) fins && forallb (freshb D) outs && nodupb outs &&
             forallb nonempty fouts && nonempty cout &&
             nodupb (map tv outs) && seqokb (map tv outs) (map tv fins) &&
             memb m D && nodupb (map tv fins) &&
             seqokb (map tv fins) (map tvo actual) &&
             seqokb (map tv fins) (map tv fouts) &&
             String.eqb (tr cout) (tr cin) &&
             negb (memb cin (names_nodes nsb)) && negb (memb cout fouts)
          then match wsub (fins ++ iv :: D)%list nsb with
               | Some Db => if forallb (fun o => memb o Db) fouts && (String.eqb cout cin || negb (memb cout Db))
                            then Some (outs ++ D)%list else None
               | None => None
               end
          else None
        | None => None
        end
      | _, _, _ => None
      end.

    (* Loop, `for` + `if not c: break` form: a trip count and a condition input; the body computes the next
       condition and does not read its condition input *)
    Definition wf_forbreak (D : list vname) (dom : string) (ins : list (option vname)) (outs : list vname)
                           (attrs : list (string * attrv)) (subs : list (string * graph)) : option (list vname) :=
      match ins, attrs, subs with
      | Some m :: Some c :: actual, [], [(bn, Graph (iv :: cin :: fins) [] nsb (cout :: fouts))] =>
        let acts := present actual in
        let n := List.length actual in
        if String.eqb dom "" && String.eqb bn "body" &&
           match loop_form_of ins (Graph (iv :: cin :: fins) [] nsb (cout :: fouts)) with Some FForBreak => true | _ => false end &&
           Nat.eqb (List.length acts) n && forallb (fun a => memb a D) acts &&
           Nat.eqb (List.length fins) n && Nat.eqb (List.length fouts) n && Nat.eqb (List.length outs) n &&
           nodupb (iv :: cin :: fins) && freshb D iv && freshb D cin &&
           forallb (freshb D) fins && forallb (freshb D) outs && nodupb outs &&
           forallb nonempty fouts && nonempty cout &&
           nodupb (map tv outs) && seqokb (map tv outs) (map tv fins) &&
           memb m D && memb c D && nodupb (tr cin :: map tv fins) &&
           seqokb (tr cin :: map tv fins) (tr c :: map tvo actual) &&
           seqokb (tr cin :: map tv fins) (tv cout :: map tv fouts)
        then match wsub (fins ++ iv :: D)%list nsb with
             | Some Db => if forallb (fun o => memb o Db) (cout :: fouts) then Some (outs ++ D)%list else None
             | None => None
             end
        else None
      | _, _, _ => None
      end.

    Definition wf_loop (D : list vname) (dom : string) (ins : list (option vname)) (outs : list vname)
                       (attrs : list (string * attrv)) (subs : list (string * graph)) : option (list vname) :=
      match wf_while D dom ins outs attrs subs with
      | Some r => Some r
      | None =>
        match wf_for D dom ins outs attrs subs with
        | Some r => Some r
        | None => if brk then wf_forbreak D dom ins outs attrs subs else None
        end
      end.

    Definition wf_node (D : list vname) (n : node) : option (list vname) :=
      let 'Node dom op ins outs attrs subs := n in
      if String.eqb op "If" then wf_if D dom ins outs attrs subs
      else if String.eqb op "Loop" then wf_loop D dom ins outs attrs subs
      else wf_plain D n.

    Fixpoint wf_list (D : list vname) (ns : list node) : option (list vname) :=
      match ns with
      | [] => Some D
      | n :: t => match wf_node D n with Some D' => wf_list D' t | None => None end
      end.
  End Node.

  Fixpoint wf_cf (fuel : nat) (D : list vname) (ns : list node) {struct fuel} : option (list vname) :=
    match fuel with
    | O => None
    | S fu => wf_list (wf_cf fu) D ns
    end.
End WfCF.

(* the whole function: options off, every parameter named as in the body, the initializers as in Export/Emit.v *)
Section NestedOk.
  Variable kw : list string.
  Variable prename rename : vname -> string.
  Variable infun : bool.

  Definition nested_names (rm : remaps) (g : graph) : list vname :=
    filter (fun x => negb (memb x (map fst rm))) (gnames g).

  Variable brk : bool.
  Definition nested_ops_okb (use_ops : option bool) (ivals : list (vname * attrv)) (g : graph) : bool :=
    let rm := fst (scan rename infun None false ivals g) in
    let NN := nested_names rm g in
    let t := tr rename rm in
    let D0 := (g_ins g ++ g_inits g)%list in
    is_nil (snd (scan rename infun None false ivals g)) &&
    list_eqb (map fst ivals) (g_inits g) && nodupb D0 && forallb (fun x => nonempty x && memb x NN) D0 &&
    nodupb (map t NN) && negb (memb "None" (map t NN)) && negb (memb "" (map t NN)) &&
    forallb (fun x => String.eqb (prename x) (t x)) (g_ins g) &&
    forallb (fun x => String.eqb (t (t x)) (t x)) (g_inits g) &&
    (is_nil ivals || call_okb kw "Constant" []) &&
    match wf_cf kw rename rm NN brk use_ops (depth_graph g) D0 (g_nodes g) with
    | Some D => forallb (fun o => memb o D) (g_outs g)
    | None => false
    end.
  (* use_operators off *)
  Definition nested_okb : list (vname * attrv) -> graph -> bool := nested_ops_okb None.
End NestedOk.
