(* build_computes_trace_cfx: for traces with If, Loop (loop-carried values and scan outputs) and Scan bodies built
   through builder.subgraph, evaluating the built graph with the extended evaluator SemX.eval_graph_x EQUALS the
   direct reading TraceCFX.creplay_x, failure included.  One pass with both invariants of TraceCFProofs /
   TraceCFConvProofs (inv, inv2); the lemmas about the builder state, the operands (resolve_sem / resolve_none) and
   the environments are reused from there. *)
From Coq Require Import String List Bool Arith ZArith Lia.
Require Import OV.Graph.Syntax OV.Graph.Sem OV.Graph.SemProofs OV.Graph.Names.
Require Import OV.Builder.Strings OV.Builder.StringsProofs OV.Builder.Naming OV.Builder.NamingProofs.
Require Import OV.Builder.Trace OV.Builder.TraceProofs OV.Builder.TraceCF OV.Builder.TraceCFProofs OV.Builder.TraceCFConvProofs.
Require Import OV.Builder.SemX OV.Builder.TraceCFX.
Import ListNotations.
Local Open Scope list_scope.

(* ------------------------------------------------------------------ the nested folds, unfolded once *)
Fixpoint cfx_subs (l : list (string * sub)) : bool :=
  match l with [] => true | (_, sb) :: r => cfx_sub sb && cfx_subs r end.

Lemma cfx_call_eq : forall st dom op args attrs subs outs,
  cfx_call (COp st dom op args attrs subs outs) = cfx_subs subs.
Proof. intros. reflexivity. Qed.

Lemma cfx_sub_eq : forall ins body rets decl, cfx_sub (Sub ins body rets decl) = forallb cfx_call body.
Proof. intros. reflexivity. Qed.

Lemma cfx_sub_at : forall name subs nid k sb,
  cfx_subs subs = true -> sub_at name nid subs = Some (k, sb) -> cfx_sub sb = true.
Proof.
  induction subs as [|[k0 sb0] r IH]; intros nid k sb H Hs; cbn [sub_at] in Hs; [discriminate|].
  cbn [cfx_subs] in H. apply andb_true_iff in H as [H1 H2].
  destruct (String.eqb k0 name).
  - inversion Hs; subst. exact H1.
  - eapply IH; eauto.
Qed.

(* ------------------------------------------------------------------ ncore depends on the bodies extensionally *)
Section Ext.
  Variable V : Type.
  Variable sem : string -> string -> list (string * attrv) -> list (option V) -> option (list V).
  Variable truth : V -> option bool.
  Variable trip : V -> option nat.
  Variable of_nat : nat -> V.
  Variable of_bool : bool -> V.
  Variable lim : nat.
  Variable stack : list V -> V.
  Variable unstack : V -> option (list V).

  Definition sub_equiv (s1 s2 : string -> option (list V -> option (list V))) : Prop :=
    forall name, match s1 name, s2 name with
                 | Some f, Some g => forall a, f a = g a
                 | None, None => True
                 | _, _ => False
                 end.

  Lemma loop_x_ext : forall f g, (forall a, f a = g a) -> forall k bounded i c st acc,
    loop_x V truth of_nat of_bool f bounded k i c st acc = loop_x V truth of_nat of_bool g bounded k i c st acc.
  Proof.
    intros f g H. induction k as [|k IH]; intros bounded i c st acc; cbn [loop_x]; [reflexivity|].
    destruct (negb c); [reflexivity|]. rewrite H.
    destruct (g (of_nat i :: of_bool c :: st)) as [[|cv' rs]|]; try reflexivity.
    destruct (Nat.eqb (List.length rs) (List.length st + List.length acc)); [|reflexivity].
    destruct (truth cv'); [|reflexivity]. apply IH.
  Qed.

  Lemma scan_x_ext : forall f g, (forall a, f a = g a) -> forall xss n t st acc,
    scan_x V f xss n t st acc = scan_x V g xss n t st acc.
  Proof.
    intros f g H xss. induction n as [|n IH]; intros t st acc; cbn [scan_x]; [reflexivity|].
    destruct (nth_each V t xss) as [row|]; [|reflexivity]. rewrite H.
    destruct (g (st ++ row)) as [rs|]; [|reflexivity].
    destruct (Nat.eqb (List.length rs) (List.length st + List.length acc)); [|reflexivity]. apply IH.
  Qed.

  Lemma ncore_ext : forall s1 s2, sub_equiv s1 s2 -> forall dom op attrs n vs,
    ncore V sem truth trip of_nat of_bool lim stack unstack s1 dom op attrs n vs =
    ncore V sem truth trip of_nat of_bool lim stack unstack s2 dom op attrs n vs.
  Proof.
    intros s1 s2 H dom op attrs n vs. unfold ncore.
    destruct (is_if dom op).
    { destruct vs as [|[cv|] [|? ?]]; try reflexivity. destruct (truth cv) as [b|]; [|reflexivity].
      specialize (H (if b then "then_branch" else "else_branch")%string).
      destruct (s1 (if b then "then_branch" else "else_branch")%string), (s2 (if b then "then_branch" else "else_branch")%string);
        try contradiction; auto. }
    destruct (is_loop dom op).
    { specialize (H "body"%string). destruct (s1 "body"%string) as [f|], (s2 "body"%string) as [g|]; try contradiction; auto.
      unfold loop_core. destruct vs as [|mv [|cv rest]]; try reflexivity.
      destruct (match mv with Some v => option_map Some (trip v) | None => Some None end) as [[kk|]|]; try reflexivity;
        destruct (match cv with Some v => truth v | None => Some true end) as [c0|]; try reflexivity;
        now rewrite (loop_x_ext f g H). }
    destruct (is_scan dom op); [|reflexivity].
    specialize (H "body"%string). destruct (s1 "body"%string) as [f|], (s2 "body"%string) as [g|]; try contradiction; auto.
    unfold scan_core. destruct (attr_int "num_scan_inputs" attrs) as [mz|]; [|reflexivity].
    destruct (all_some V vs) as [ws|]; [|reflexivity].
    destruct (Nat.leb 1 (Z.to_nat mz) && Nat.leb (Z.to_nat mz) (List.length ws)); [|reflexivity].
    destruct (unstack_all V unstack (skipn (List.length ws - Z.to_nat mz) ws)) as [xss|]; [|reflexivity].
    destruct (forallb (fun x => Nat.eqb (List.length x) (List.length (hd [] xss))) xss); [|reflexivity].
    now rewrite (scan_x_ext f g H).
  Qed.

  Notation enx ev := (eval_node_x V sem truth trip of_nat of_bool lim stack unstack ev).
  Notation runx ev := (run_x V sem truth trip of_nat of_bool lim stack unstack ev).

  Lemma run_x_app : forall ev a e b,
    runx ev e (a ++ b) = match runx ev e a with Some e' => runx ev e' b | None => None end.
  Proof.
    intros ev. induction a as [|n t IH]; intros e b; cbn [app run_x]; [reflexivity|].
    destruct (enx ev e n); [apply IH|reflexivity].
  Qed.

  (* the nodes inserted by _cast_inputs are ordinary operators: both evaluators treat them alike *)
  Definition ordinary (n : node) : bool :=
    negb (Sem.is_if (n_dom n) (n_op n)) && negb (is_loop (n_dom n) (n_op n)) && negb (is_scan (n_dom n) (n_op n)).

  Lemma run_x_ordinary : forall ev ev' ns e, forallb ordinary ns = true ->
    runx ev' e ns = run V sem truth trip of_nat of_bool lim ev e ns.
  Proof.
    intros ev ev'. induction ns as [|n t IH]; intros e H; cbn [run_x run]; [reflexivity|].
    cbn [forallb] in H. apply andb_true_iff in H as [H1 H2].
    assert (Q : enx ev' e n = eval_node V sem truth trip of_nat of_bool lim ev e n).
    { destruct n as [dom op ins outs attrs subs]. unfold ordinary in H1. cbn [n_dom n_op] in H1.
      apply andb_true_iff in H1 as [H1 H13]. apply andb_true_iff in H1 as [H11 H12].
      apply negb_true_iff in H11, H12, H13.
      unfold eval_node_x, eval_node, ncore. rewrite H11, H12, H13. reflexivity. }
    rewrite Q. destruct (eval_node V sem truth trip of_nat of_bool lim ev e n); [now apply IH|reflexivity].
  Qed.
End Ext.

Lemma resolve_ordinary : forall cf args st s local s' local' ins pre,
  resolve cf st s local args = (s', local', ins, pre) -> forallb ordinary pre = true.
Proof.
  intro cf. induction args as [|a r IH]; intros st s local s' local' ins pre H.
  - cbn in H. inversion H; subst. reflexivity.
  - destruct a as [id | l | l like | ]; cbn [resolve] in H.
    + destruct (resolve cf st s local r) as [[[s1 l1] ins1] pre1] eqn:Er. inversion H; subst. eauto.
    + destruct (promote s l) as [s0 n] eqn:Epr.
      destruct (resolve cf st s0 local r) as [[[s1 l1] ins1] pre1] eqn:Er. inversion H; subst. eauto.
    + destruct (promote s l) as [s0 n] eqn:Epr. cbv zeta in H.
      match type of H with context [resolve cf st ?s3 (S local) r] =>
        destruct (resolve cf st s3 (S local) r) as [[[s1 l1] ins1] pre1] eqn:Er end.
      inversion H; subst. cbn [forallb]. rewrite (IH _ _ _ _ _ _ _ Er). reflexivity.
    + destruct (resolve cf st s local r) as [[[s1 l1] ins1] pre1] eqn:Er. inversion H; subst. eauto.
Qed.

(* ------------------------------------------------------------------ the semantic argument, both directions at once *)
Section SemCFX.
  Variable V : Type.
  Variable sem : string -> string -> list (string * attrv) -> list (option V) -> option (list V).
  Variable truth : V -> option bool.
  Variable trip : V -> option nat.
  Variable of_nat : nat -> V.
  Variable of_bool : bool -> V.
  Variable lim : nat.
  Variable stack : list V -> V.
  Variable unstack : V -> option (list V).
  Variable lit_val : string -> V.
  Variable cf : bcfg.
  Variable rn : list (nat * string).
  Variable N : list string.
  Variable A : list string.
  Variable C : list (string * (string * lit)).
  Hypothesis Hnd : NoDup (N ++ A ++ cache_names C).
  Notation ud := "?undefined"%string.
  Hypothesis Hud : ~ In ud (N ++ A ++ cache_names C).

  Notation enx ev := (eval_node_x V sem truth trip of_nat of_bool lim stack unstack ev).
  Notation runx ev := (run_x V sem truth trip of_nat of_bool lim stack unstack ev).
  Notation runn ev := (run V sem truth trip of_nat of_bool lim ev).
  Notation vbind := (vbind V).
  Notation cargs := (cargs V sem lit_val).
  Notation cok := (cache_ok V lit_val C).
  Notation lok := (lit_ok V lit_val C).
  Notation inv := (inv V N).
  Notation inv2 := (inv2 V N).
  Notation below := (below N A C).
  Notation ccall rb := (creplay_call_x V sem truth trip of_nat of_bool lim stack unstack lit_val rb).
  Notation ccalls rb := (creplay_calls_x V sem truth trip of_nat of_bool lim stack unstack lit_val rb).

  (* the evaluation of a built subgraph = the reading of the body *)
  Definition sub_eq_x (ev : env V -> graph -> list V -> option (list V))
                      (rb : venv V -> nat -> sub -> list V -> option (list V)) : Prop :=
    forall sb s0 s1 g E e args,
      build_sub cf rn sb s0 = (s1, g) -> below s1 -> inv E e (List.length (b_names s0)) -> inv2 E e -> cok e ->
      Forall lok (lits_sub sb) -> cfx_sub sb = true ->
      ev e g args = rb E (List.length (b_names s0)) sb args.

  Lemma subs_equiv : forall ev rb, sub_eq_x ev rb ->
    forall subs s s1 sgs E e,
      build_subs cf rn subs s = (s1, sgs) -> below s1 -> inv E e (List.length (b_names s)) -> inv2 E e -> cok e ->
      Forall lok (lits_subs subs) -> cfx_subs subs = true ->
      sub_equiv V (gsub V ev e sgs) (rsub V rb E (List.length (b_names s)) subs).
  Proof.
    intros ev rb Heq subs s s1 sgs E e Hb Hbel Hi Hi2 Hc Hl Hcf name. unfold gsub, rsub.
    destruct (sub_at name (List.length (b_names s)) subs) as [[k sb]|] eqn:Esa.
    - destruct (subs_find V lit_val cf rn C _ _ _ _ _ _ _ Hb Esa) as (s0 & s0' & g & G1 & G2 & G3 & G4 & G5 & _ & G7).
      rewrite G2. subst k. intro a.
      eapply (Heq sb s0 s0' g E e a G1); eauto.
      + eapply below_ext; eauto.
      + eapply inv_mono; eauto. destruct G4 as (M & _ & _ & HM & _). rewrite HM, app_length. lia.
      + eapply cfx_sub_at; eauto.
    - now rewrite (subs_find_none _ _ _ _ _ _ _ _ Hb Esa).
  Qed.

  (* one call *)
  Lemma call_both_x : forall ev rb, sub_eq_x ev rb ->
    forall c s local s' local' ns E e,
      build_call cf rn c s local = (s', local', ns) -> below s' -> cfx_call c = true ->
      Forall lok (lits_call c) -> inv E e (List.length (b_names s)) -> inv2 E e -> cok e ->
      match ccall rb E (List.length (b_names s)) c with
      | Some (E', nid') => exists e', runx ev e ns = Some e' /\ inv E' e' nid' /\ inv2 E' e' /\ cok e' /\
                                      nid' = List.length (b_names s')
      | None => runx ev e ns = None
      end.
  Proof.
    intros ev rb Heq c s local s' local' ns E e Hb Hbel Hcf Hl Hi Hi2 Hc.
    destruct c as [st dom op args attrs subs outs|]; [|discriminate].
    rewrite build_call_eq in Hb. cbv zeta in Hb.
    destruct (build_subs cf rn subs s) as [s1 sgs] eqn:Es.
    destruct (resolve cf st s1 local args) as [[[s2 local2] ins] pre] eqn:Er.
    destruct (fresh_many rn s2 (out_names st op (cnt cf s2 local2) outs)) as [s3 onames] eqn:Ef.
    inversion Hb; subst s' local' ns. clear Hb.
    rewrite cfx_call_eq in Hcf.
    rewrite lits_call_eq in Hl. apply Forall_app in Hl as [Hla Hls].
    assert (Hg : Forall (fun ks => grows_sub cf rn (snd ks)) subs).
    { apply Forall_forall. intros. apply (proj2 (grows_all cf rn)). }
    destruct (grows_subs cf rn _ Hg _ _ _ Es) as [X1 L1].
    destruct (resolve_ext cf _ _ _ _ _ _ _ _ Er) as [N2 X2].
    destruct (fresh_many_spec rn _ _ _ _ Ef) as (N3 & L3 & C3 & A3 & _).
    assert (X3 : ext s2 s3) by (eapply fresh_many_ext; eauto).
    assert (B3 : below s3) by (eapply below_ext; [apply bump_ext|exact Hbel]).
    assert (B2 : below s2) by (eapply below_ext; eauto).
    assert (B1 : below s1) by (eapply below_ext; eauto).
    assert (Hle : List.length (b_names s) <= List.length (b_names s1)) by lia.
    pose proof (resolve_ordinary cf _ _ _ _ _ _ _ _ Er) as Hord.
    rewrite (run_x_app V sem truth trip of_nat of_bool lim stack unstack).
    rewrite (run_x_ordinary V sem truth trip of_nat of_bool lim stack unstack ev ev pre e Hord).
    cbn [creplay_call_x].
    destruct (cargs E args) as [vs|] eqn:Ea.
    2:{ destruct (resolve_none V sem truth trip of_nat of_bool lim lit_val cf N A C Hnd Hud _ _ _ _ _ _ _ _ Er B2 ev E e _ Hi Hi2 Hle Hc Hla Ea)
          as [L|[e1 [R1 R2]]].
        - now rewrite L.
        - rewrite R1. cbn [run_x eval_node_x]. now rewrite R2. }
    destruct (resolve_sem V sem truth trip of_nat of_bool lim lit_val cf N A C Hnd _ _ _ _ _ _ _ _ Er B2 ev E e _ vs Hi Hle Hc Hla Ea)
      as (e1 & An & R1 & R2 & R3 & R4).
    rewrite R1. cbn [run_x eval_node_x]. rewrite R2.
    assert (HAn : forall x, In x An -> In x A).
    { intros x Hx. destruct B2 as (_ & _ & A' & _ & _ & HA). rewrite HA, R3. apply in_or_app. left. apply in_or_app. now right. }
    assert (Hi1 : inv E e1 (List.length (b_names s))).
    { intros id v Hv. destruct (Hi id v Hv) as [H1 H2]. split; auto. rewrite R4; auto.
      intro Hin. apply (nthN_notA N A C Hnd Hud id). now apply HAn. }
    assert (Hi21 : inv2 E e1) by (eapply (inv2_agree V N A C Hnd Hud); eauto).
    assert (Hc1 : cok e1).
    { intros k n l0 Hk. rewrite R4; [eapply Hc; eauto|]. intro Hin. eapply (A_notC N A C Hnd n); eauto.
      apply assoc_str_In in Hk. unfold cache_names. apply in_map_iff. exists (k, (n, l0)). auto. }
    set (n := n_outs_of outs) in *.
    assert (Hlen_on : List.length onames = n) by (rewrite L3; apply out_names_length).
    unfold vname in *. rewrite Hlen_on.
    rewrite (ncore_ext V sem truth trip of_nat of_bool lim stack unstack _ _
               (subs_equiv ev rb Heq subs s s1 sgs E e1 Es B1 Hi1 Hi21 Hc1 Hls Hcf)).
    destruct (ncore V sem truth trip of_nat of_bool lim stack unstack (rsub V rb E (List.length (b_names s)) subs) dom op attrs n vs)
      as [rs|]; [|reflexivity].
    rewrite bind_spec. unfold vname in *.
    destruct (Nat.eqb (List.length rs) n) eqn:En.
    2:{ rewrite Nat.eqb_sym in En. rewrite Hlen_on, En. reflexivity. }
    apply Nat.eqb_eq in En.
    assert (Hq : Nat.eqb (List.length onames) (List.length rs) = true) by (apply Nat.eqb_eq; lia).
    rewrite Hq. cbn [run_x].
    exists (combine onames rs ++ e1).
    destruct B3 as (M3 & D3 & A3' & HN3 & HC3 & HA3).
    assert (Hlen2 : List.length (b_names s2) = List.length (b_names s) + nvals_subs subs) by (rewrite N2; exact L1).
    assert (HNseg : N = b_names s2 ++ onames ++ M3) by (rewrite HN3, N3; now rewrite <- app_assoc).
    split; [reflexivity|]. split; [|split; [|split]].
    - rewrite <- En.
      eapply (inv_bind V N A C Hnd E e1 (List.length (b_names s)) _ rs (b_names s2) onames M3); eauto; lia.
    - eapply (inv2_bind V N A C Hnd Hud E e1 _ rs (b_names s2) onames M3); eauto. lia.
    - apply (cok_bind V lit_val N A C Hnd); auto. intros x Hx. left. rewrite HNseg. apply in_or_app. right. apply in_or_app. now left.
    - cbn [bump b_names]. rewrite N3, app_length. lia.
  Qed.

  Lemma calls_both_x : forall ev rb, sub_eq_x ev rb ->
    forall tr s local s' ns E e,
      build_calls cf rn tr s local = (s', ns) -> below s' -> forallb cfx_call tr = true ->
      Forall lok (lits_calls tr) -> inv E e (List.length (b_names s)) -> inv2 E e -> cok e ->
      match ccalls rb E (List.length (b_names s)) tr with
      | Some (E', nid') => exists e', runx ev e ns = Some e' /\ inv E' e' nid' /\ inv2 E' e' /\ cok e' /\
                                      nid' = List.length (b_names s')
      | None => runx ev e ns = None
      end.
  Proof.
    intros ev rb Heq. induction tr as [|c r IH]; intros s local s' ns E e Hb Hbel Hcf Hl Hi Hi2 Hc.
    - cbn in Hb. inversion Hb; subst. cbn. exists e. auto.
    - cbn [build_calls] in Hb.
      destruct (build_call cf rn c s local) as [[s1 l1] ns1] eqn:Ec.
      destruct (build_calls cf rn r s1 l1) as [s2 ns2] eqn:Er. inversion Hb; subst s' ns. clear Hb.
      cbn [forallb] in Hcf. apply andb_true_iff in Hcf as [Hcf1 Hcf2].
      unfold lits_calls in Hl. cbn [flat_map] in Hl. apply Forall_app in Hl as [Hl1 Hl2].
      assert (X : ext s1 s2).
      { eapply (grows_calls cf rn r); eauto. apply Forall_forall. intros. apply (proj1 (grows_all cf rn)). }
      assert (B1 : below s1) by (eapply below_ext; eauto).
      cbn [creplay_calls_x]. rewrite (run_x_app V sem truth trip of_nat of_bool lim stack unstack).
      pose proof (call_both_x ev rb Heq c s local s1 l1 ns1 E e Ec B1 Hcf1 Hl1 Hi Hi2 Hc) as R.
      destruct (ccall rb E (List.length (b_names s)) c) as [[E1 n1]|].
      + destruct R as (e1 & R1 & R2 & R3 & R4 & R5). subst n1. rewrite R1.
        exact (IH s1 l1 s2 ns2 E1 e1 Er Hbel Hcf2 Hl2 R2 R3 R4).
      + now rewrite R.
  Qed.

  (* bodies, at every nesting depth the fuel allows *)
  Lemma sub_eq_x_fuel : forall fuel,
    sub_eq_x (eval_graph_x V sem truth trip of_nat of_bool lim stack unstack fuel)
             (creplay_body_x V sem truth trip of_nat of_bool lim stack unstack lit_val fuel).
  Proof.
    induction fuel as [|f IH]; intros sb s0 s1 g E e args Hb Hbel Hi Hi2 Hc Hl Hcf; [reflexivity|].
    destruct sb as [ins body rets decl].
    rewrite build_sub_eq in Hb.
    destruct (fresh_many rn s0 ins) as [sa inames] eqn:Ef.
    destruct (build_calls cf rn body sa 0) as [sb' nodes] eqn:Eb. inversion Hb; subst s1 g. clear Hb.
    rewrite cfx_sub_eq in Hcf. rewrite lits_sub_eq in Hl.
    cbn [creplay_body_x creplay_sub_x].
    destruct (fresh_many_spec rn _ _ _ _ Ef) as (Na & La & Ca & Aa & _).
    cbn [eval_graph_x]. unfold eval_body_x. cbn [g_ins g_nodes g_outs].
    destruct (Nat.eqb (List.length ins) (List.length args)) eqn:El.
    2:{ rewrite bind_mismatch; [reflexivity|]. unfold vname in *. rewrite La, Nat.eqb_sym. exact El. }
    apply Nat.eqb_eq in El.
    assert (Hna : List.length (b_names sa) = List.length (b_names s0) + List.length ins)
      by (rewrite Na, app_length; lia).
    rewrite <- Hna.
    rewrite bind_spec.
    assert (Hq : Nat.eqb (@List.length vname inames) (List.length args) = true)
      by (apply Nat.eqb_eq; unfold vname; lia).
    rewrite Hq.
    assert (X : ext sa sb').
    { eapply (grows_calls cf rn body); eauto. apply Forall_forall. intros. apply (proj1 (grows_all cf rn)). }
    assert (Ba : below sa) by (eapply below_ext; eauto).
    pose proof Ba as (Ma & Da & Aa' & HNa & HCa & HAa).
    assert (HNseg : N = b_names s0 ++ inames ++ Ma) by (rewrite HNa, Na; now rewrite <- app_assoc).
    assert (Hi0 : inv (vbind (List.length (b_names s0)) args E) (combine inames args ++ e) (List.length (b_names sa))).
    { rewrite Hna, El.
      eapply (inv_bind V N A C Hnd E e (List.length (b_names s0)) (List.length (b_names s0)) args (b_names s0) inames Ma); eauto. lia. }
    assert (Hi20 : inv2 (vbind (List.length (b_names s0)) args E) (combine inames args ++ e)).
    { eapply (inv2_bind V N A C Hnd Hud E e (List.length (b_names s0)) args (b_names s0) inames Ma); eauto. lia. }
    assert (Hc0 : cok (combine inames args ++ e)).
    { apply (cok_bind V lit_val N A C Hnd); auto. intros x Hx. left. rewrite HNseg. apply in_or_app. right. apply in_or_app. now left. }
    pose proof (calls_both_x _ _ IH body sa 0 sb' nodes _ _ Eb Hbel Hcf Hl Hi0 Hi20 Hc0) as R.
    destruct (ccalls (creplay_body_x V sem truth trip of_nat of_bool lim stack unstack lit_val f)
                     (vbind (List.length (b_names s0)) args E) (List.length (b_names sa)) body) as [[E2 n2]|].
    - destruct R as (e' & R1 & R2 & R3 & R4 & R5). unfold vname in *. rewrite R1.
      destruct (vlooks V E2 rets) as [r|] eqn:Hv.
      + eapply (vlooks_lookups V N A C); eauto. lia.
      + eapply (vlooks_none V N A C); eauto. lia.
    - unfold vname in *. now rewrite R.
  Qed.
End SemCFX.

(* build_computes_trace_cfx: for every trace of operator / function calls, If, Loop and Scan calls whose bodies
   were built through builder.subgraph (any nesting depth, bodies referring to values of the enclosing trace
   functions; Loop bodies returning loop-carried values and scan outputs; Scan bodies over state variables and
   scan inputs), with literal operands at every level: evaluating the built graph = the direct reading of the
   trace, INCLUDING failure.  Hypotheses: no raw (inlined) nodes; the names the build defines are pairwise distinct
   and "?undefined" is none of them; literals that share a cache key denote the same tensor. *)
Theorem build_computes_trace_cfx : forall V sem truth trip of_nat of_bool lim stack unstack lit_val cf fuel ins tr outs args,
  cfx_trace tr = true ->
  let sf := fst (build_state cf ins tr) in
  NoDup (all_defined sf) -> ~ In "?undefined"%string (all_defined sf) ->
  Forall (lit_ok V lit_val (b_cache sf)) (lits_calls tr) ->
  List.length args = List.length ins ->
  eval_graph_x V sem truth trip of_nat of_bool lim stack unstack (S fuel) (init_env V lit_val (b_cache sf)) (build cf ins tr outs) args =
  creplay_x V sem truth trip of_nat of_bool lim stack unstack lit_val fuel tr args outs.
Proof.
  intros V sem truth trip of_nat of_bool lim stack unstack lit_val cf fuel ins tr outs args Hcf sf Hnd Hud Hl Hlen.
  unfold build. unfold sf in *. unfold build_state in *.
  set (rn := renames_calls tr) in *.
  destruct (build_calls cf rn tr (init_state ins) 0) as [s nodes] eqn:Eb. cbn [fst] in *.
  unfold all_defined in Hnd, Hud. fold (cache_names (b_cache s)) in Hnd, Hud.
  set (N := b_names s) in *. set (A := b_anon s) in *. set (C := b_cache s) in *.
  assert (Hbel : below N A C s) by (exists [], [], []; now rewrite !app_nil_r).
  assert (X : ext (init_state ins) s).
  { eapply (grows_calls cf rn tr); eauto. apply Forall_forall. intros. apply (proj1 (grows_all cf rn)). }
  assert (B0 : below N A C (init_state ins)) by (eapply below_ext; eauto).
  pose proof B0 as (M0 & D0 & A0 & HN0 & HC0 & HA0). cbn [init_state b_names b_cache b_anon] in HN0, HC0, HA0.
  cbn [eval_graph_x]. unfold eval_body_x. cbn [g_ins g_nodes g_outs].
  rewrite bind_spec.
  assert (Hq : Nat.eqb (@List.length vname ins) (List.length args) = true)
    by (apply Nat.eqb_eq; unfold vname; lia).
  rewrite Hq.
  set (outer := init_env V lit_val C).
  unfold creplay_x.
  assert (Hi0 : inv V N (vbind V 0 args []) (combine ins args ++ outer) (List.length (b_names (init_state ins)))).
  { cbn [init_state b_names]. rewrite <- Hlen. change (List.length args) with (0 + List.length args).
    eapply (inv_bind V N A C Hnd [] outer 0 0 args [] ins M0); eauto.
    intros id v Hv. discriminate. }
  assert (Hout : forall x, ~ In x (cache_names C) -> lookup outer x = None) by (intros; now apply init_env_none).
  assert (Hi20 : inv2 V N (vbind V 0 args []) (combine ins args ++ outer)).
  { change (vbind V 0 args []) with (vbind V 0 args (@nil (nat * V))).
    eapply (inv2_bind V N A C Hnd Hud [] outer 0 args [] ins M0); eauto.
    intros id _. apply Hout. intro Q.
    destruct (nth_in_or_default id N "?undefined"%string) as [Hin|Hd].
    - exact (N_notC N A C Hnd _ Hin Q).
    - rewrite Hd in Q. apply Hud. apply in_or_app. right. apply in_or_app. now right. }
  assert (Hc0 : cache_ok V lit_val C (combine ins args ++ outer)).
  { eapply (cok_bind V lit_val N A C Hnd); eauto.
    - intros k n l0 Hk. unfold outer. eapply (lookup_init_env V lit_val _ k).
      + apply NoDup_app_r in Hnd. apply NoDup_app_r in Hnd. exact Hnd.
      + now apply assoc_str_In.
    - intros x Hx. left. rewrite HN0. apply in_or_app. now left. }
  assert (Hc : List.length args = List.length (b_names (init_state ins))) by (cbn; exact Hlen).
  rewrite Hc.
  pose proof (calls_both_x V sem truth trip of_nat of_bool lim stack unstack lit_val cf rn N A C Hnd Hud _ _
                (sub_eq_x_fuel V sem truth trip of_nat of_bool lim stack unstack lit_val cf rn N A C Hnd Hud fuel)
                tr (init_state ins) 0 s nodes _ _ Eb Hbel Hcf Hl Hi0 Hi20 Hc0) as R.
  destruct (creplay_calls_x V sem truth trip of_nat of_bool lim stack unstack lit_val
              (creplay_body_x V sem truth trip of_nat of_bool lim stack unstack lit_val fuel) (vbind V 0 args [])
              (List.length (b_names (init_state ins))) tr) as [[E2 n2]|].
  - destruct R as (e' & R1 & R2 & R3 & R4 & R5). unfold vname in *. rewrite R1.
    destruct (vlooks V E2 outs) as [r|] eqn:Hv.
    + eapply (vlooks_lookups V N A C); eauto. lia.
    + eapply (vlooks_none V N A C E2 e' n2 s outs R2 R3); eauto. lia.
  - unfold vname in *. now rewrite R.
Qed.

Theorem build_computes_trace_cfx_checked : forall V sem truth trip of_nat of_bool lim stack unstack lit_val cf fuel ins tr outs args,
  cfx_hypsb cf ins tr = true ->
  List.length args = List.length ins ->
  eval_graph_x V sem truth trip of_nat of_bool lim stack unstack (S fuel)
               (init_env V lit_val (b_cache (fst (build_state cf ins tr)))) (build cf ins tr outs) args =
  creplay_x V sem truth trip of_nat of_bool lim stack unstack lit_val fuel tr args outs.
Proof.
  intros V sem truth trip of_nat of_bool lim stack unstack lit_val cf fuel ins tr outs args H Hlen.
  unfold cfx_hypsb in H. apply andb_true_iff in H as [H H4].
  apply andb_true_iff in H as [H H3]. apply andb_true_iff in H as [H1 H2].
  apply build_computes_trace_cfx; auto.
  - now apply nodup_strb_NoDup.
  - intro Q. apply mem_str_In in Q. rewrite Q in H4. discriminate.
  - now apply lits_okb_sound.
Qed.

(* ------------------------------------------------------------------ non-vacuity (toy kernels over Z of TraceCFProofs) *)
Local Open Scope string_scope.
Definition zstack (l : list Z) : Z := fold_left (fun a x => (a * 100 + x)%Z) l 7%Z.
Definition zunstack (z : Z) : option (list Z) := Some [z; (z + 1)%Z; (z + 2)%Z].

(* x = input
   acc, hist = op.Loop(3, None, x, body = subgraph(lambda op, it, cnd, acc:
                  (op.Identity(cnd), op.Add(acc, it), op.Mul(acc, 2.0)), outputs=["cond_out", "", "row"]))
                                                       one loop-carried value, one scan output (hist)
   s, ys = op.Scan(0, acc, body = subgraph(lambda op, st, el: (op.Add(st, el), op.Mul(el, x))), num_scan_inputs=1)
                                                       literal state (heterogeneous variadic), body captures x *)
Definition ex_scan_trace : list call :=
  [COp [] "" "Loop" [OLit l_three; ONone; OVal 0] []
       [("body", Sub ["it"; "cnd"; "acc"]
                     [COp [] "" "Identity" [OVal 2] [] [] (ODefault 1);
                      COp [] "" "Add" [OVal 3; OVal 1] [] [] (ODefault 1);
                      COp [] "" "Mul" [OVal 3; OLit l_two] [] [] (ODefault 1)]
                     [4; 5; 6] ["cond_out"; ""; "row"])]
       (ONamed ["acc_f"; "hist"]);
   COp ["blk"] "" "Scan" [OLit l_zero; OVal 7] [("num_scan_inputs", AInt 1)]
       [("body", Sub ["st"; "el"]
                     [COp ["blk"] "" "Add" [OVal 9; OVal 10] [] [] (ODefault 1);
                      COp ["blk"] "" "Mul" [OVal 10; OVal 0] [] [] (ODefault 1)]
                     [11; 12] [""; "scan_row"])]
       (ODefault 2)].

Example ex_scan_hyps :
  cfx_hypsb bcfg_fixed ["x"] ex_scan_trace = true /\
  (* x = 5: acc = 5+0+1+2 = 8, hist = stack [10; 10; 12]; slices of acc: 8, 9, 10: s = 27, ys = stack [40; 45; 50] *)
  creplay_x Z zsem ztruth ztrip Z.of_nat zof_bool 100 zstack zunstack zlit 1 ex_scan_trace [5]%Z [7; 8; 13; 14] =
    Some [8; zstack [10; 10; 12]; 27; zstack [40; 45; 50]]%Z /\
  (* bodies nested deeper than the fuel have no reading *)
  creplay_x Z zsem ztruth ztrip Z.of_nat zof_bool 100 zstack zunstack zlit 0 ex_scan_trace [5]%Z [7; 8; 13; 14] = None.
Proof. vm_compute. repeat split; reflexivity. Qed.

Example ex_scan_graph :
  build bcfg_fixed ["x"] ex_scan_trace [7; 8; 13; 14] =
  Graph ["x"] ["const_2.0_f32"; "const_3_i64"; "const_0_i64"]
    [Node "" "Loop" [Some "const_3_i64"; None; Some "x"] ["v_acc_f"; "v_hist"] []
       [("body", Graph ["it"; "cnd"; "acc"] []
                   [Node "" "Identity" [Some "cnd"] ["cond_out"] [] [];
                    Node "" "Add" [Some "acc"; Some "it"] ["v_Add_1"] [] [];
                    Node "" "Mul" [Some "acc"; Some "const_2.0_f32"] ["row"] [] []]
                   ["cond_out"; "v_Add_1"; "row"])];
     Node "" "Scan" [Some "const_0_i64"; Some "v_acc_f"] ["v_blk.Scan_6_0"; "v_blk.Scan_6_1"] [("num_scan_inputs", AInt 1)]
       [("body", Graph ["st"; "el"] []
                   [Node "" "Add" [Some "st"; Some "el"] ["v_blk.Add_4"] [] [];
                    Node "" "Mul" [Some "el"; Some "x"] ["scan_row"] [] []]
                   ["v_blk.Add_4"; "scan_row"])]]
    ["v_acc_f"; "v_hist"; "v_blk.Scan_6_0"; "v_blk.Scan_6_1"].
Proof. reflexivity. Qed.

Example ex_scan_computes :
  eval_graph_x Z zsem ztruth ztrip Z.of_nat zof_bool 100 zstack zunstack 2
               (init_env Z zlit (b_cache (fst (build_state bcfg_fixed ["x"] ex_scan_trace))))
               (build bcfg_fixed ["x"] ex_scan_trace [7; 8; 13; 14]) [5]%Z =
  Some [8; zstack [10; 10; 12]; 27; zstack [40; 45; 50]]%Z.
Proof.
  rewrite (build_computes_trace_cfx_checked Z zsem ztruth ztrip Z.of_nat zof_bool 100 zstack zunstack zlit bcfg_fixed 1);
    [apply ex_scan_hyps | apply ex_scan_hyps | reflexivity].
Qed.

(* the failure direction: a Loop whose body returns one value too few (the scan output is declared on the node but
   not returned) has no reading, and the built graph fails *)
Definition ex_scan_short : list call :=
  [COp [] "" "Loop" [OLit l_three; ONone; OVal 0] []
       [("body", Sub ["it"; "cnd"; "acc"]
                     [COp [] "" "Identity" [OVal 2] [] [] (ODefault 1);
                      COp [] "" "Add" [OVal 3; OVal 1] [] [] (ODefault 1)]
                     [4; 5] ["cond_out"; ""])]
       (ONamed ["acc_f"; "hist"])].

Example ex_scan_short_fails :
  cfx_hypsb bcfg_fixed ["x"] ex_scan_short = true /\
  eval_graph_x Z zsem ztruth ztrip Z.of_nat zof_bool 100 zstack zunstack 2
               (init_env Z zlit (b_cache (fst (build_state bcfg_fixed ["x"] ex_scan_short))))
               (build bcfg_fixed ["x"] ex_scan_short [6; 7]) [5]%Z = None.
Proof.
  split; [vm_compute; reflexivity|].
  rewrite (build_computes_trace_cfx_checked Z zsem ztruth ztrip Z.of_nat zof_bool 100 zstack zunstack zlit bcfg_fixed 1);
    [vm_compute; reflexivity | vm_compute; reflexivity | reflexivity].
Qed.
