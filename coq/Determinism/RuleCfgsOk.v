(* The must-definition check evaluated on the CFGs that the translator extracted from the current
   sources (Gen/RuleCfgs.v is rewritten by every ./check C14 run): a finite domain, so a computation
   is a proof; the general theorems of MustDefProofs.v then apply to every shipped rule class. *)
From Coq Require Import List String Bool.
Require Import OV.Determinism.MustDef OV.Determinism.MustDefProofs OV.Gen.RuleCfgs.
Import ListNotations.

Lemma rules_all_ok : forallb rule_ok RuleCfgs.all = true.
Proof. vm_compute. reflexivity. Qed.

Lemma passes_all_ok : forallb rule_ok RuleCfgs.passes = true.
Proof. vm_compute. reflexivity. Qed.

Theorem shipped_rules_history_independent : forall r, In r RuleCfgs.all ->
  forall (h : list (oracle * nat * trace)) (s0 : state) orc fuel tr,
    observable (run_match orc fuel (r_check r) (r_rewrite r) (run_history r h s0) tr) =
    observable (run_match orc fuel (r_check r) (r_rewrite r) s0 tr).
Proof. exact (all_rules_history_independent RuleCfgs.all rules_all_ok). Qed.

Theorem fold_pass_history_independent : forall r, In r RuleCfgs.passes ->
  forall (h : list (oracle * nat * trace)) (s0 : state) orc fuel tr,
    observable (run_match orc fuel (r_check r) (r_rewrite r) (run_history r h s0) tr) =
    observable (run_match orc fuel (r_check r) (r_rewrite r) s0 tr).
Proof. exact (all_rules_history_independent RuleCfgs.passes passes_all_ok). Qed.

Theorem shipped_rules_target_history_independent : forall r, In r RuleCfgs.all ->
  forall (h ms : list (oracle * nat * trace)) (s0 : state),
    run_target r ms (run_history r h s0) = run_target r ms s0.
Proof.
  intros r Hin. apply target_history_independent.
  pose proof rules_all_ok as H. rewrite forallb_forall in H. apply H, Hin.
Qed.

(* the rule-set object (RewriteRuleSet.apply_to_model, Gen/RuleCfgs.ruleset_passes): whether the must-definition
   check accepts what the source says now is evaluated by the harness on every run; when it does, this gives the
   theorem (the harness then states and proves the unconditional instance) *)
Theorem ruleset_passes_history_independent_if_ok : forallb rule_ok RuleCfgs.ruleset_passes = true ->
  forall r, In r RuleCfgs.ruleset_passes ->
  forall (h : list (oracle * nat * trace)) (s0 : state) orc fuel tr,
    observable (run_match orc fuel (r_check r) (r_rewrite r) (run_history r h s0) tr) =
    observable (run_match orc fuel (r_check r) (r_rewrite r) s0 tr).
Proof. exact (all_rules_history_independent RuleCfgs.ruleset_passes). Qed.
