"""C03 / C04 family `shape-override`: a SHAPE-LIKE operand (<= 20 elements) that is an initializer AND a graph input - an overridable
default - feeds an operator whose output shape depends on the VALUE of that operand (Reshape target, Expand shape, Slice bounds,
ConstantOfShape, Tile repeats, Range limit), followed by consumers of the resulting shape (Shape, Size, ReduceProd + Reshape,
Expand to that shape).  Node-level ONNX shape inference (FoldConstantsPass._do_inference, on by default in optimize()) is handed the
constant inputs of a node as data: when it is handed the DEFAULT, the node output gets a static shape, Shape folding bakes it in and the
optimized model ignores the caller's value.  Every host is run with the default and with override values that CHANGE the shape, shape
inference on (default) and off, ModelProto and ir.Model entry.  The graph outputs are declared with symbolic dimensions."""
from __future__ import annotations

import numpy as np
import onnx
import onnx.parser

from harness import c03_gen as G

HEAD = '<ir_version: {irv}, opset_import: ["" : {opset}]>\n'

# name -> (text, ordinary feeds, overridable name, default, override values)
_TAIL = """
    dims = Shape (r)
    sz = Size (r)
    minus1 = Constant <value_ints = [-1]> ()
    n = ReduceProd <keepdims = 0> (dims)
    n1 = Unsqueeze (n, minus1)
    flat0 = Reshape (r, n1)
    flat = Neg (flat0)
    one = Constant <value = float[1] {1.5}> ()
    ee = Expand (one, dims)
"""


def _hosts():
    f32 = np.float32
    i64 = np.int64
    x23 = (np.arange(6, dtype=f32).reshape(2, 3) - 2.5)
    res = {}
    res["reshape"] = ("""
agraph (float[2, 3] x, int64[2] shp) => (float[A, B] y, int64[R] dims, int64 sz, float[K] flat, float[P, Q] ee)
<int64[2] shp = {3, 2}>
{
    r = Reshape (x, shp)
    y = Relu (r)""" + _TAIL + "}", {"x": x23}, "shp", np.array([3, 2], dtype=i64),
        [np.array(v, dtype=i64) for v in ([6, 1], [1, 6], [2, -1], [2, 3], [0, -1])])
    res["expand"] = ("""
agraph (float[1, 3] x, int64[2] shp) => (float[A, B] y, int64[R] dims, int64 sz, float[K] flat, float[P, Q] ee)
<int64[2] shp = {2, 3}>
{
    r = Expand (x, shp)
    y = Relu (r)""" + _TAIL + "}", {"x": x23[:1]}, "shp", np.array([2, 3], dtype=i64),
        [np.array(v, dtype=i64) for v in ([4, 3], [1, 3], [3, 1], [5, 1])])
    res["slice"] = ("""
agraph (float[4, 3] x, int64[1] ends) => (float[A, B] y, int64[R] dims, int64 sz, float[K] flat, float[P, Q] ee)
<int64[1] ends = {2}>
{
    starts = Constant <value_ints = [0]> ()
    axes = Constant <value_ints = [0]> ()
    r = Slice (x, starts, ends, axes)
    y = Relu (r)""" + _TAIL + "}", {"x": np.arange(12, dtype=f32).reshape(4, 3) - 5}, "ends", np.array([2], dtype=i64),
        [np.array(v, dtype=i64) for v in ([3], [1], [4], [-1])])
    res["slice-starts"] = ("""
agraph (float[4, 3] x, int64[2] starts) => (float[A, B] y, int64[R] dims, int64 sz, float[K] flat, float[P, Q] ee)
<int64[2] starts = {1, 0}>
{
    ends = Constant <value_ints = [4, 3]> ()
    r = Slice (x, starts, ends)
    y = Relu (r)""" + _TAIL + "}", {"x": np.arange(12, dtype=f32).reshape(4, 3) - 5}, "starts", np.array([1, 0], dtype=i64),
        [np.array(v, dtype=i64) for v in ([0, 0], [2, 1], [3, 2])])
    res["constant-of-shape"] = ("""
agraph (float[1] x, int64[2] shp) => (float[A, B] y, int64[R] dims, int64 sz, float[K] flat, float[P, Q] ee)
<int64[2] shp = {2, 3}>
{
    z = ConstantOfShape <value = float[1] {2.0}> (shp)
    r = Mul (z, x)
    y = Relu (r)""" + _TAIL + "}", {"x": np.array([1.25], dtype=f32)}, "shp", np.array([2, 3], dtype=i64),
        [np.array(v, dtype=i64) for v in ([3, 2], [1, 4], [4, 1])])
    res["tile"] = ("""
agraph (float[2, 3] x, int64[2] reps) => (float[A, B] y, int64[R] dims, int64 sz, float[K] flat, float[P, Q] ee)
<int64[2] reps = {1, 2}>
{
    r = Tile (x, reps)
    y = Relu (r)""" + _TAIL + "}", {"x": x23}, "reps", np.array([1, 2], dtype=i64),
        [np.array(v, dtype=i64) for v in ([2, 1], [3, 2], [1, 1])])
    res["range"] = ("""
agraph (float[1] x, int64 limit) => (float[A] y, int64[R] dims, int64 sz, float[K] flat, float[P] ee)
<int64 limit = {4}>
{
    start = Constant <value = int64 {0}> ()
    delta = Constant <value = int64 {1}> ()
    rg = Range (start, limit, delta)
    rf = Cast <to = 1> (rg)
    r = Mul (rf, x)
    y = Relu (r)""" + _TAIL + "}", {"x": np.array([-1.5], dtype=f32)}, "limit", np.array(4, dtype=i64),
        [np.array(v, dtype=i64) for v in (2, 6, 1)])
    # the default reaches the shape operand through an Identity (the folder forwards the symbolic value)
    res["reshape-through-identity"] = ("""
agraph (float[2, 3] x, int64[2] shp) => (float[A, B] y, int64[R] dims, int64 sz, float[K] flat, float[P, Q] ee)
<int64[2] shp = {3, 2}>
{
    shp1 = Identity (shp)
    r = Reshape (x, shp1)
    y = Relu (r)""" + _TAIL + "}", {"x": x23}, "shp", np.array([3, 2], dtype=i64),
        [np.array(v, dtype=i64) for v in ([6, 1], [1, 6])])
    # inside an If body on a run-time condition, the shape operand captured from the outer scope
    res["reshape-in-if-body"] = ("""
agraph (float[2, 3] x, int64[2] shp, bool c) => (float[A, B] y, int64[R] dims)
<int64[2] shp = {3, 2}>
{
    y, dims = If (c) <
        then_branch = tb () => (float[A, B] ty, int64[R] tdims) { tr = Reshape (x, shp)  ty = Relu (tr)  tdims = Shape (tr) },
        else_branch = eb () => (float[A, B] ey, int64[R] edims) { er = Reshape (x, shp)  ey = Neg (er)  edims = Shape (er) }
    >
}""", {"x": x23, "c": np.array(True)}, "shp", np.array([3, 2], dtype=i64),
        [np.array(v, dtype=i64) for v in ([6, 1], [1, 6])])
    return res


ON = (2, True, True, True, 8192, 512 * 512)
OFF = (2, False, True, True, 8192, 512 * 512)
ONE_ITER = (1, True, True, False, 8192, 512 * 512)
NO_INLINE = (2, True, False, True, 8192, 512 * 512)


def plan(rng):
    return [("optimize", None, False), ("optimize", None, True), ("optimize", OFF, rng.random() < 0.5), ("optimize", ONE_ITER, rng.random() < 0.5),
            ("optimize_ir", NO_INLINE, True), ("fold_constants", ON, rng.random() < 0.5), ("fold_constants", None, rng.random() < 0.5)]


def cases(rng):
    """-> G.Case objects with .overrides (list of {name: value}) and .plan"""
    for name, (text, feed, ov_name, default, overrides) in _hosts().items():
        try:
            m = onnx.parser.parse_model(HEAD.format(irv=rng.choice([8, 9, 10]), opset=rng.choice([18, 21])) + text)
            n_out = len(m.graph.output)
            feeds = [dict(feed)]
            ovs = list(overrides)
            rng.shuffle(ovs)
            for v in ovs[:2]:
                feeds.append(dict(feed, **{ov_name: v}))
            if "c" in feed:
                feeds.append(dict(feed, c=np.array(False), **{ov_name: ovs[0]}))
            c = G.Case(m, feeds, ["shape-override:" + name, "overridable-shape-operand"], [True] * n_out, "shape-ov", "shape-ov-" + name,
                       overridable=[(ov_name, default, "shape")])
            c.overrides = [{ov_name: v} for v in overrides]
            c.plan = plan(rng)
            yield c
        except Exception as e:  # a generator bug must not look like a finding
            yield ("generator-error", f"{name}: {type(e).__name__}: {e}")
