From Coq Require Import ZArith List Bool Lia.
Require Import OV.Rules.Reshape.
Import ListNotations.
Local Open Scope Z_scope.

(* ---------------------------------------------------------------- basics *)
Lemma prod_app : forall a b, prod (a ++ b) = prod a * prod b.
Proof.
  induction a as [|x a IH]; intro b.
  - change (prod b = 1 * prod b). ring.
  - change (x * prod (a ++ b) = x * prod a * prod b). rewrite IH. ring.
Qed.

Lemma prod_firstn_skipn : forall n l, prod (firstn n l) * prod (skipn n l) = prod l.
Proof. intros n l. rewrite <- prod_app. now rewrite firstn_skipn. Qed.

Lemma positive_prod : forall l, positive l = true -> 0 < prod l.
Proof.
  induction l as [|x l IH]; intro H; [cbn; lia|].
  unfold positive in H. cbn [forallb] in H. apply andb_true_iff in H as [H1 H2]. apply Z.ltb_lt in H1.
  specialize (IH H2). change (prod (x :: l)) with (x * prod l). nia.
Qed.

Lemma positive_app : forall a b, positive (a ++ b) = positive a && positive b.
Proof. intros. unfold positive. apply forallb_app. Qed.

Lemma positive_firstn : forall n l, positive l = true -> positive (firstn n l) = true.
Proof.
  intros n l H. unfold positive in *. rewrite forallb_forall in *. intros x Hx. apply H. rewrite <- (firstn_skipn n l). apply in_or_app. now left.
Qed.
Lemma positive_skipn : forall n l, positive l = true -> positive (skipn n l) = true.
Proof.
  intros n l H. unfold positive in *. rewrite forallb_forall in *. intros x Hx. apply H. rewrite <- (firstn_skipn n l). apply in_or_app. now right.
Qed.

Lemma copy0_true : forall insh s, copy0 true insh s = Some s.
Proof.
  intros insh s. revert insh. induction s as [|d s IH]; intro insh; [reflexivity|].
  cbn. rewrite IH. now rewrite andb_false_r.
Qed.

Lemma copy0_nozero : forall az s insh, has 0 s = false -> copy0 az insh s = Some s.
Proof.
  intros az s. induction s as [|d s IH]; intros insh H; [reflexivity|].
  unfold has in H. cbn [existsb] in H. apply orb_false_iff in H as [H1 H2]. cbn. rewrite (IH _ H2).
  rewrite Z.eqb_sym in H1. rewrite H1. reflexivity.
Qed.

Lemma count_filter_none : forall l, count (-1) l = O -> filter (fun d => negb (d =? -1)) l = l /\ map (fun d => if d =? -1 then 0 else d) l = l.
Proof.
  induction l as [|x l IH]; intro H; [split; reflexivity|].
  unfold count in H. cbn [filter] in H. destruct (-1 =? x) eqn:E; [cbn in H; lia|].
  rewrite Z.eqb_sym in E. destruct (IH H) as [H1 H2]. cbn. rewrite E. cbn. now rewrite H1, H2.
Qed.

Lemma map_repl_none : forall v l, count (-1) l = O -> map (fun d => if d =? -1 then v else d) l = l.
Proof.
  induction l as [|x l IH]; intro H; [reflexivity|].
  unfold count in H. cbn [filter] in H. destruct (-1 =? x) eqn:E; [cbn in H; lia|].
  rewrite Z.eqb_sym in E. cbn. rewrite E. now rewrite (IH H).
Qed.

Lemma prod_repl_one : forall v l, count (-1) l = 1%nat ->
  prod (map (fun d => if d =? -1 then v else d) l) = v * prod (filter (fun d => negb (d =? -1)) l).
Proof.
  induction l as [|x l IH]; intro H; [discriminate|].
  unfold count in H. cbn [filter] in H. destruct (-1 =? x) eqn:E.
  - cbn [length] in H. assert (Hc : count (-1) l = O) by (unfold count; lia).
    rewrite Z.eqb_sym in E. cbn [map filter]. rewrite E. cbn [negb].
    rewrite (map_repl_none v l Hc). rewrite (proj1 (count_filter_none l Hc)). reflexivity.
  - rewrite Z.eqb_sym in E. cbn [map filter]. rewrite E. cbn [negb]. change (prod (x :: ?t)) with (x * prod t).
    rewrite (IH H). change (prod (x :: ?t)) with (x * prod t). ring.
Qed.

(* a resolved shape always has the element count of the input *)
Lemma finish_prod : forall n s1 o, finish n s1 = Some o -> prod o = n.
Proof.
  intros n s1 o H. unfold finish in H. destruct (existsb (fun d => d <? -1) s1); [discriminate|].
  destruct (count (-1) s1) as [|[|k]] eqn:Hc; [| |discriminate].
  - destruct (prod s1 =? n) eqn:E; [|discriminate]. inversion H; subst. now apply Z.eqb_eq.
  - destruct (prod (filter (fun d => negb (d =? -1)) s1) =? 0) eqn:Ep; [discriminate|].
    destruct (n mod prod (filter (fun d => negb (d =? -1)) s1) =? 0) eqn:Em; [|discriminate].
    inversion H; subst. rewrite prod_repl_one by exact Hc.
    apply Z.eqb_neq in Ep. apply Z.eqb_eq in Em. rewrite Z.mul_comm. symmetry. apply Z.div_exact; auto.
Qed.

Lemma resolve_prod : forall az insh s o, resolve az insh s = Some o -> prod o = prod insh.
Proof.
  intros az insh s o H. unfold resolve in H. destruct (az && has 0 s && has (-1) s); [discriminate|].
  destruct (copy0 az insh s); [|discriminate]. eapply finish_prod; eauto.
Qed.

(* ---------------------------------------------------------------- SqueezeReshape *)
Theorem squeeze_reshape_sound : forall n, 0 <= n -> resolve false (squeeze_all [n]) [-1] = Some [n].
Proof.
  intros n Hn. unfold squeeze_all. cbn [filter]. destruct (n =? 1) eqn:E.
  - apply Z.eqb_eq in E. subst. reflexivity.
  - cbn [negb]. unfold resolve. cbn. unfold finish. cbn.
    replace (n * 1) with n by ring. rewrite Z.mod_1_r. cbn. rewrite Z.div_1_r. reflexivity.
Qed.

(* ---------------------------------------------------------------- ReshapeReshape *)
Lemma has_false_map : forall l, has 0 l = false -> map (fun d => if d =? 0 then -1 else d) l = l.
Proof.
  induction l as [|x l IH]; intro H; [reflexivity|]. unfold has in H. cbn [existsb] in H.
  apply orb_false_iff in H as [H1 H2]. rewrite Z.eqb_sym in H1. cbn. rewrite H1. now rewrite (IH H2).
Qed.

(* resolve only looks at the element count of the input when no dim is copied *)
Lemma resolve_true_prod : forall a b s, prod a = prod b -> resolve true a s = resolve true b s.
Proof. intros a b s H. unfold resolve. rewrite !copy0_true. now rewrite H. Qed.

Lemma resolve_nozero_prod : forall az az' a b s, has 0 s = false -> prod a = prod b -> resolve az a s = resolve az' b s.
Proof.
  intros az az' a b s Hz H. unfold resolve. rewrite Hz. rewrite !andb_false_r. cbn [andb].
  rewrite !copy0_nozero by exact Hz. now rewrite H.
Qed.

(* a list with exactly one 0 and no negative entry *)
Lemma one_zero_split : forall l, count 0 l = 1%nat -> existsb (fun d => d <? 0) l = false ->
  exists pre post, l = pre ++ 0 :: post /\ positive pre = true /\ positive post = true.
Proof.
  induction l as [|x l IH]; intros Hc Hn; [discriminate|].
  cbn [existsb] in Hn. apply orb_false_iff in Hn as [Hx Hn]. apply Z.ltb_ge in Hx.
  unfold count in Hc. cbn [filter] in Hc. destruct (0 =? x) eqn:E.
  - apply Z.eqb_eq in E. subst x. exists [], l. split; [reflexivity|]. split; [reflexivity|].
    cbn [length] in Hc. assert (Hc0 : length (filter (Z.eqb 0) l) = O) by lia.
    unfold positive. apply forallb_forall. intros y Hy. apply Z.ltb_lt.
    assert (0 <= y). { apply Z.ltb_ge. destruct (y <? 0) eqn:Ey; [|reflexivity].
      assert (existsb (fun d => d <? 0) l = true) by (apply existsb_exists; eauto). congruence. }
    assert (y <> 0). { intro. subst y. assert (In 0 (filter (Z.eqb 0) l)) by (apply filter_In; split; auto).
      destruct (filter (Z.eqb 0) l); [contradiction|discriminate]. }
    lia.
  - destruct (IH Hc Hn) as [pre [post [-> [Hp Hq]]]]. exists (x :: pre), post. split; [reflexivity|]. split; auto.
    unfold positive. cbn [forallb]. apply Z.eqb_neq in E. replace (0 <? x) with true by (symmetry; apply Z.ltb_lt; lia). exact Hp.
Qed.

Lemma positive_no_zero : forall l, positive l = true -> has 0 l = false /\ count (-1) l = O /\ existsb (fun d => d <? -1) l = false.
Proof.
  induction l as [|x l IH]; intro H; [repeat split; reflexivity|].
  unfold positive in H. cbn [forallb] in H. apply andb_true_iff in H as [H1 H2]. apply Z.ltb_lt in H1.
  destruct (IH H2) as [A [B C]]. unfold has, count in *. cbn [existsb filter].
  replace (0 =? x) with false by (symmetry; apply Z.eqb_neq; lia).
  replace (-1 =? x) with false by (symmetry; apply Z.eqb_neq; lia).
  replace (x <? -1) with false by (symmetry; apply Z.ltb_ge; lia). cbn. auto.
Qed.

Lemma copy0_app_pos : forall pre post insh,
  positive pre = true -> positive post = true -> (length pre < length insh)%nat ->
  copy0 false insh (pre ++ 0 :: post) = Some (pre ++ nth (length pre) insh 0 :: post).
Proof.
  induction pre as [|x pre IH]; intros post insh Hp Hq Hl.
  - destruct insh as [|i insh]; [cbn in Hl; lia|]. cbn [app copy0 tl length nth].
    rewrite copy0_nozero by (apply positive_no_zero; exact Hq). cbn. reflexivity.
  - destruct insh as [|i insh]; [cbn in Hl; lia|].
    unfold positive in Hp. cbn [forallb] in Hp. apply andb_true_iff in Hp as [H1 H2]. apply Z.ltb_lt in H1.
    cbn [app copy0 tl length nth]. rewrite IH; auto; [|cbn in Hl; lia].
    replace (x =? 0) with false by (symmetry; apply Z.eqb_neq; lia). reflexivity.
Qed.

Lemma copy0_short : forall pre post insh, positive pre = true -> (length insh <= length pre)%nat ->
  copy0 false insh (pre ++ 0 :: post) = None.
Proof.
  induction pre as [|x pre IH]; intros post insh Hp Hl.
  - destruct insh; [|cbn in Hl; lia]. cbn. destruct (copy0 false [] post); reflexivity.
  - unfold positive in Hp. cbn [forallb] in Hp. apply andb_true_iff in Hp as [H1 H2].
    cbn [app copy0]. rewrite IH; auto. destruct insh; cbn in *; lia.
Qed.

Lemma finish_single : forall n pre post v,
  positive pre = true -> positive post = true -> 0 <= v ->
  finish n (pre ++ v :: post) = Some (pre ++ v :: post) -> finish n (pre ++ -1 :: post) = Some (pre ++ v :: post).
Proof.
  intros n pre post v Hp Hq Hv H.
  destruct (positive_no_zero pre Hp) as [_ [Cp Np]]. destruct (positive_no_zero post Hq) as [_ [Cq Nq]].
  pose proof (finish_prod _ _ _ H) as Hn. rewrite prod_app in Hn. change (prod (v :: post)) with (v * prod post) in Hn.
  pose proof (positive_prod pre Hp). pose proof (positive_prod post Hq).
  unfold finish. rewrite existsb_app. cbn [existsb]. rewrite Np, Nq. cbn.
  unfold count in *. rewrite filter_app. cbn [filter]. cbn. rewrite app_length. cbn [length]. rewrite Cp, Cq. cbn.
  rewrite filter_app. cbn [filter]. cbn.
  rewrite (proj1 (count_filter_none pre Cp)), (proj1 (count_filter_none post Cq)).
  rewrite prod_app. set (p := prod pre * prod post). assert (Hp0 : 0 < p) by (unfold p; nia).
  assert (Hnp : n = v * p) by (unfold p; rewrite <- Hn; ring).
  replace (p =? 0) with false by (symmetry; apply Z.eqb_neq; lia).
  rewrite Hnp. rewrite Z.mod_mul by lia. cbn. rewrite Z.div_mul by lia.
  rewrite map_app. cbn [map]. cbn. rewrite (map_repl_none v pre Cp), (map_repl_none v post Cq). reflexivity.
Qed.

(* ReshapeReshape, stated on `new` (= the second shape with the annotated positive output dims written in; = s2 itself when
   the output shape is not annotated): whenever the rule decides to fuse, the single Reshape gives the same shape. *)
Theorem reshape_reshape_sound : forall xs s1 az1 mid new az2 out s' az',
  resolve az1 xs s1 = Some mid -> nonneg mid = true ->
  resolve az2 mid new = Some out ->
  rr_decide new az2 = Some (s', az') ->
  resolve az' xs s' = Some out.
Proof.
  intros xs s1 az1 mid new az2 out s' az' H1 Hnn H2 Hd.
  pose proof (resolve_prod _ _ _ _ H1) as Hp. unfold rr_decide in Hd.
  destruct (az2 && has 0 new) eqn:E1.
  - inversion Hd; subst. apply andb_true_iff in E1 as [-> _]. rewrite <- H2. apply resolve_true_prod. now symmetry.
  - destruct (has 0 new) eqn:Ez.
    + (* exactly one 0, allowzero off, no negative entry *)
      destruct az2; [discriminate|]. cbn [andb] in Hd.
      destruct (existsb (fun d => d <? 0) new) eqn:En; [discriminate|].
      destruct (1 <? count 0 new)%nat eqn:Ec; [discriminate|]. inversion Hd; subst. clear Hd.
      apply Nat.ltb_ge in Ec.
      assert (Hc1 : count 0 new = 1%nat).
      { destruct (count 0 new) as [|[|k]] eqn:K; [|reflexivity|lia]. exfalso. unfold count in K.
        unfold has in Ez. apply existsb_exists in Ez as [y [Hy Ey]]. apply Z.eqb_eq in Ey. subst y.
        assert (In 0 (filter (Z.eqb 0) new)) by (apply filter_In; split; auto). destruct (filter (Z.eqb 0) new); [contradiction|discriminate]. }
      destruct (one_zero_split new Hc1 En) as [pre [post [-> [Hpre Hpost]]]].
      destruct (positive_no_zero pre Hpre) as [Zp _]. destruct (positive_no_zero post Hpost) as [Zq _].
      rewrite map_app. cbn [map]. cbn. rewrite (has_false_map pre Zp), (has_false_map post Zq).
      unfold resolve in H2. cbn [andb] in H2.
      destruct (Nat.lt_ge_cases (length pre) (length mid)) as [Hl|Hl].
      2:{ rewrite copy0_short in H2 by auto. discriminate. }
      rewrite copy0_app_pos in H2 by auto. set (v := nth (length pre) mid 0) in *.
      assert (Hv : 0 <= v). { unfold nonneg in Hnn. rewrite forallb_forall in Hnn. apply Z.leb_le. apply Hnn. unfold v. now apply nth_In. }
      assert (Hout : out = pre ++ v :: post).
      { unfold finish in H2. destruct (existsb (fun d => d <? -1) (pre ++ v :: post)); [discriminate|].
        destruct (positive_no_zero pre Hpre) as [_ [Cp _]]. destruct (positive_no_zero post Hpost) as [_ [Cq _]].
        assert (Hc : count (-1) (pre ++ v :: post) = O).
        { unfold count in *. rewrite filter_app, app_length. cbn [filter]. replace (-1 =? v) with false by (symmetry; apply Z.eqb_neq; lia). lia. }
        rewrite Hc in H2. destruct (prod (pre ++ v :: post) =? prod mid); inversion H2; reflexivity. }
      subst out. unfold resolve. cbn [andb].
      assert (Hz' : has 0 (pre ++ -1 :: post) = false).
      { unfold has in *. rewrite existsb_app. cbn [existsb]. rewrite Zp, Zq. reflexivity. }
      rewrite copy0_nozero by exact Hz'. rewrite <- Hp. apply finish_single; auto.
    + (* no 0 at all: the shape is used as it is *)
      cbn [andb] in Hd. destruct (1 <? count 0 new)%nat; [discriminate|]. inversion Hd; subst.
      rewrite (has_false_map new Ez). rewrite <- H2. apply resolve_nozero_prod; auto.
Qed.

(* output shape not annotated: `new` is the constant of the second Reshape itself *)
Corollary reshape_reshape_sound_unannotated : forall xs s1 az1 mid s2 az2 out s' az',
  resolve az1 xs s1 = Some mid -> nonneg mid = true ->
  resolve az2 mid s2 = Some out ->
  rr_decide (rr_new None s2) az2 = Some (s', az') ->
  resolve az' xs s' = Some out.
Proof. intros. eapply reshape_reshape_sound; eauto. Qed.

Example rr_example :
  resolve false [2; 3; 4] [6; 4] = Some [6; 4] /\ resolve false [6; 4] [0; 2; 2] = Some [6; 2; 2]
  /\ rr_decide [0; 2; 2] false = Some ([-1; 2; 2], false) /\ resolve false [2; 3; 4] [-1; 2; 2] = Some [6; 2; 2]
  /\ rr_decide [0; -1] false = None /\ rr_decide [0; 0] false = None /\ rr_decide [0; 3] true = Some ([0; 3], true).
Proof. repeat split; reflexivity. Qed.

(* ---------------------------------------------------------------- annotations *)
Definition agree (o : option Z) (v : Z) : Prop := match o with Some d => v = d | None => True end.

Lemma truthful_Forall2 : forall od out, truthful od out -> Forall2 agree od out.
Proof.
  induction od as [|o od IH]; intros out [Hl Hn].
  - destruct out; [constructor|discriminate].
  - destruct out as [|v out]; [discriminate|]. constructor.
    + destruct o as [d|]; cbn; [|exact I]. apply (Hn O d). reflexivity.
    + apply IH. split; [cbn in Hl; lia|]. intros i d Hi. apply (Hn (S i) d). exact Hi.
Qed.

Lemma Forall2_firstn : forall (A B : Type) (R : A -> B -> Prop) n l l', Forall2 R l l' -> Forall2 R (firstn n l) (firstn n l').
Proof. intros A B R n. induction n as [|n IH]; intros l l' H; [constructor|]. destruct H; cbn; constructor; auto. Qed.
Lemma Forall2_skipn : forall (A B : Type) (R : A -> B -> Prop) n l l', Forall2 R l l' -> Forall2 R (skipn n l) (skipn n l').
Proof. intros A B R n. induction n as [|n IH]; intros l l' H; [exact H|]. destruct H; cbn; [constructor|auto]. Qed.

Lemma static_prod_agree : forall od out p, Forall2 agree od out -> static_prod od = Some p -> prod out = p.
Proof.
  induction od as [|o od IH]; intros out p H Hs; inversion H; subst.
  - cbn in Hs. inversion Hs. reflexivity.
  - destruct o as [d|]; [|discriminate]. cbn in Hs. destruct (static_prod od) as [q|] eqn:E; [|discriminate].
    inversion Hs; subst. cbn in H2. subst y. change (prod (d :: l')) with (d * prod l'). now rewrite (IH l' q H4 eq_refl).
Qed.

Lemma finish_plain : forall n l, nonneg l = true -> prod l = n -> finish n l = Some l.
Proof.
  intros n l Hn Hp. unfold finish.
  assert (H1 : existsb (fun d => d <? -1) l = false).
  { destruct (existsb (fun d => d <? -1) l) eqn:E; [|reflexivity]. apply existsb_exists in E as [y [Hy Ey]].
    unfold nonneg in Hn. rewrite forallb_forall in Hn. specialize (Hn y Hy). apply Z.leb_le in Hn. apply Z.ltb_lt in Ey. lia. }
  assert (H2 : count (-1) l = O).
  { unfold count. destruct (filter (Z.eqb (-1)) l) as [|y t] eqn:E; [reflexivity|].
    assert (In y (filter (Z.eqb (-1)) l)) by (rewrite E; left; reflexivity). apply filter_In in H as [Hy Ey].
    unfold nonneg in Hn. rewrite forallb_forall in Hn. specialize (Hn y Hy). apply Z.leb_le in Hn. apply Z.eqb_eq in Ey. lia. }
  rewrite H1, H2. rewrite Hp, Z.eqb_refl. reflexivity.
Qed.

Lemma positive_nonneg : forall l, positive l = true -> nonneg l = true.
Proof.
  intros l H. unfold positive, nonneg in *. rewrite forallb_forall in *. intros x Hx. specialize (H x Hx).
  apply Z.ltb_lt in H. apply Z.leb_le. lia.
Qed.

(* ---------------------------------------------------------------- MaterializeReshapeShape *)
Definition dim_of (o : option Z) : Z := match o with Some v => v | None => -1 end.

Lemma mat_static : forall od out, Forall2 agree od out -> sym_count od = O -> map dim_of od = out.
Proof.
  induction od as [|o od IH]; intros out H Hc; inversion H; subst; [reflexivity|].
  unfold sym_count in Hc. cbn [filter] in Hc. destruct o as [d|]; [|cbn in Hc; lia].
  cbn in H2. subst y. cbn. f_equal. apply IH; auto.
Qed.

Lemma mat_one_sym : forall od out, Forall2 agree od out -> nonneg out = true -> sym_count od = 1%nat ->
  existsb (fun d => match d with Some 0 => true | _ => false end) od = false ->
  exists pre post v, map dim_of od = pre ++ -1 :: post /\ out = pre ++ v :: post /\ positive pre = true /\ positive post = true /\ 0 <= v.
Proof.
  induction od as [|o od IH]; intros out H Hn Hc Hz; inversion H; subst; [discriminate|].
  unfold nonneg in Hn. cbn [forallb] in Hn. apply andb_true_iff in Hn as [Hy Hn]. apply Z.leb_le in Hy.
  cbn [existsb] in Hz. apply orb_false_iff in Hz as [Hz0 Hz].
  unfold sym_count in Hc. cbn [filter] in Hc. destruct o as [d|].
  - cbn in H2. subst y. destruct (IH l' H4 Hn Hc Hz) as [pre [post [v [E1 [E2 [P1 [P2 Hv]]]]]]].
    exists (d :: pre), post, v. cbn [map dim_of]. rewrite E1, E2. repeat split; auto.
    unfold positive. cbn [forallb]. fold (positive pre). rewrite P1.
    assert (d <> 0) by (intro; subst d; discriminate). replace (0 <? d) with true by (symmetry; apply Z.ltb_lt; lia). reflexivity.
  - cbn [length] in Hc. assert (Hc0 : sym_count od = O) by (unfold sym_count; lia).
    exists [], l', y. cbn [map dim_of app]. rewrite (mat_static od l' H4 Hc0). repeat split; auto.
    (* the remaining dims are static, non-negative and not 0 *)
    clear -H4 Hn Hz Hc0. revert l' H4 Hn. induction od as [|o od IH]; intros l' H Hn; inversion H; subst; [reflexivity|].
    unfold nonneg in Hn. cbn [forallb] in Hn. apply andb_true_iff in Hn as [Hy Hn]. apply Z.leb_le in Hy.
    cbn [existsb] in Hz. apply orb_false_iff in Hz as [Hz0 Hz].
    unfold sym_count in Hc0. cbn [filter] in Hc0. destruct o as [d|]; [|cbn in Hc0; lia].
    cbn in H2. subst y. unfold positive. cbn [forallb]. fold (positive l'0). rewrite (IH Hz Hc0 l'0 H4 Hn).
    assert (d <> 0) by (intro; subst d; discriminate). replace (0 <? d) with true by (symmetry; apply Z.ltb_lt; lia). reflexivity.
Qed.

(* with the side condition of the proposed fix (no static 0 beside the symbolic dim) the materialised constant, used with
   allowzero = 1, reshapes to the annotated output shape -- whatever the original shape operand computed *)
Theorem materialize_sound : forall insh od out news,
  mat_check false (Some od) = Some news -> mat_ok od = true ->
  truthful od out -> nonneg out = true -> prod out = prod insh ->
  resolve true insh news = Some out.
Proof.
  intros insh od out news Hc Hok Ht Hn Hp. unfold mat_check in Hc.
  destruct (sym_count od <=? 1)%nat eqn:Es; [|discriminate]. inversion Hc; subst. clear Hc.
  fold dim_of. change (fun d => match d with Some v => v | None => -1 end) with dim_of.
  apply truthful_Forall2 in Ht. apply Nat.leb_le in Es.
  destruct (sym_count od) as [|[|k]] eqn:Ec; [| |lia].
  - rewrite (mat_static od out Ht Ec). unfold resolve.
    assert (H1 : has (-1) out = false).
    { unfold has. destruct (existsb (Z.eqb (-1)) out) eqn:E; [|reflexivity]. apply existsb_exists in E as [y [Hy Ey]].
      unfold nonneg in Hn. rewrite forallb_forall in Hn. specialize (Hn y Hy). apply Z.leb_le in Hn. apply Z.eqb_eq in Ey. lia. }
    rewrite H1, andb_false_r. rewrite copy0_true. apply finish_plain; auto.
  - unfold mat_ok in Hok. rewrite Ec in Hok. cbn [Nat.eqb orb] in Hok. apply negb_true_iff in Hok.
    destruct (mat_one_sym od out Ht Hn Ec Hok) as [pre [post [v [E1 [E2 [P1 [P2 Hv]]]]]]].
    rewrite E1. subst out. unfold resolve.
    assert (H0 : has 0 (pre ++ -1 :: post) = false).
    { unfold has. rewrite existsb_app. cbn [existsb]. destruct (positive_no_zero pre P1) as [A _]. destruct (positive_no_zero post P2) as [B _].
      unfold has in A, B. rewrite A, B. reflexivity. }
    rewrite H0. cbn [andb]. rewrite copy0_true. apply finish_single; auto.
    apply finish_plain; auto.
Qed.

(* the shipped check has no such side condition: [0, N] is materialised as [0, -1] with allowzero = 1, which ONNX forbids *)
Theorem materialize_refuted : exists insh od out news,
  mat_check false (Some od) = Some news /\ truthful od out /\ nonneg out = true /\ prod out = prod insh /\
  resolve true insh news = None.
Proof.
  exists [0; 3], [Some 0; None], [0; 3], [0; -1]. repeat split; try reflexivity.
  intros i d H. destruct i as [|[|i]]; cbn in *; try discriminate; [inversion H; reflexivity|destruct i; discriminate].
Qed.

(* ---------------------------------------------------------------- Flatten2Reshape *)
Definition real_axis (rank : nat) (axis : Z) : Z := if axis <? 0 then axis + Z.of_nat rank else axis.

Lemma has0_two : forall a b, a <> 0 -> b <> 0 -> has 0 [a; b] = false.
Proof.
  intros a b Ha Hb. unfold has. cbn [existsb].
  replace (0 =? a) with false by (symmetry; apply Z.eqb_neq; lia).
  replace (0 =? b) with false by (symmetry; apply Z.eqb_neq; lia). reflexivity.
Qed.

Lemma flatten_core : forall sh a a0 a1,
  positive sh = true -> (a <= length sh)%nat ->
  (a0 = -1 \/ a0 = prod (firstn a sh) \/ (a0 = 0 /\ a = 1%nat)) ->
  (a1 = -1 \/ a1 = prod (skipn a sh)) ->
  ~ (a0 = -1 /\ a1 = -1) ->
  resolve false sh [a0; a1] = Some (flatten a sh).
Proof.
  intros sh a a0 a1 Hpos Ha H0 H1 Hnot.
  pose proof (positive_prod _ (positive_firstn a sh Hpos)) as F0. pose proof (positive_prod _ (positive_skipn a sh Hpos)) as F1.
  pose proof (prod_firstn_skipn a sh) as Hprod. unfold flatten.
  set (f0 := prod (firstn a sh)) in *. set (f1 := prod (skipn a sh)) in *.
  assert (Hplain : finish (prod sh) [f0; f1] = Some [f0; f1]).
  { apply finish_plain; [|cbn; lia]. unfold nonneg. cbn. apply andb_true_iff. split; [|apply andb_true_iff; split; auto]; apply Z.leb_le; lia. }
  assert (P0 : positive [f0] = true) by (unfold positive; cbn; rewrite andb_true_r; apply Z.ltb_lt; lia).
  assert (P1 : positive [f1] = true) by (unfold positive; cbn; rewrite andb_true_r; apply Z.ltb_lt; lia).
  destruct H0 as [ -> | [ -> | [ -> -> ] ] ]; destruct H1 as [ -> | -> ].
  - exfalso. apply Hnot. auto.
  - unfold resolve. cbn [andb]. rewrite copy0_nozero.
    + apply (finish_single (prod sh) [] [f1] f0); auto; lia.
    + apply has0_two; lia.
  - unfold resolve. cbn [andb]. rewrite copy0_nozero.
    + apply (finish_single (prod sh) [f0] [] f1); auto; lia.
    + apply has0_two; lia.
  - unfold resolve. cbn [andb]. rewrite copy0_nozero; auto. apply has0_two; lia.
  - (* [0; -1], axis 1 *)
    destruct sh as [|d sh]; [cbn in Ha; lia|].
    assert (Ef : f0 = d) by (unfold f0; cbn; ring).
    assert (Hc : copy0 false (d :: sh) [0; -1] = Some [d; -1]) by reflexivity.
    unfold resolve. cbn [andb]. rewrite Hc. replace [d; -1] with ([f0] ++ [-1]) by (rewrite Ef; reflexivity).
    apply (finish_single (prod (d :: sh)) [f0] [] f1); auto; lia.
  - (* [0; f1], axis 1 *)
    destruct sh as [|d sh]; [cbn in Ha; lia|].
    assert (Ef : f0 = d) by (unfold f0; cbn; ring).
    assert (Hc : copy0 false (d :: sh) [0; f1] = Some [d; f1]).
    { cbn [copy0 tl]. replace (f1 =? 0) with false by (symmetry; apply Z.eqb_neq; lia). reflexivity. }
    unfold resolve. cbn [andb]. rewrite Hc. replace [d; f1] with [f0; f1] by (rewrite Ef; reflexivity). exact Hplain.
Qed.

Lemma override_cases : forall o v, (exists d, o = Some d /\ override o v = d) \/ (o = None /\ override o v = v).
Proof. intros [d|] v; [left; eauto|right; auto]. Qed.

(* Flatten2Reshape: for every rank, axis (negative included), partially symbolic input annotation and output annotation the
   emitted Reshape produces Flatten's shape on every input without a zero-size dim *)
Theorem flatten_sound : forall sh decl axis odecl ns a,
  positive sh = true ->
  real_axis (length sh) axis = Z.of_nat a -> (a <= length sh)%nat ->
  match decl with Some ds => truthful ds sh | None => True end ->
  match odecl with Some od => truthful od (flatten a sh) | None => True end ->
  fl_check decl axis odecl = Some ns ->
  resolve false sh ns = Some (flatten a sh).
Proof.
  intros sh decl axis odecl ns a Hpos Hax Ha Hd Ho Hc. unfold fl_check in Hc.
  set (axis' := match decl with Some ds => if axis <? 0 then axis + Z.of_nat (length ds) else axis | None => axis end) in *.
  (* facts about axis' *)
  assert (Hdecl_axis : forall ds, decl = Some ds -> axis' = Z.of_nat a /\ length ds = length sh).
  { intros ds E. subst decl. destruct Hd as [Hl _]. unfold axis'. unfold real_axis in Hax. rewrite Hl. auto. }
  assert (Hax0 : axis' = 0 -> a = 0%nat).
  { intro E. destruct decl as [ds|]; [destruct (Hdecl_axis ds eq_refl); lia|]. unfold axis' in E. subst axis. unfold real_axis in Hax. cbn in Hax. lia. }
  assert (Hax1 : axis' = 1 -> a = 1%nat).
  { intro E. destruct decl as [ds|]; [destruct (Hdecl_axis ds eq_refl); lia|]. unfold axis' in E. subst axis. unfold real_axis in Hax. cbn in Hax. lia. }
  set (f0 := prod (firstn a sh)). set (f1 := prod (skipn a sh)).
  set (D0 := fun v => v = -1 \/ v = f0 \/ (v = 0 /\ a = 1%nat)). set (D1 := fun v => v = -1 \/ v = f1).
  (* stage 1 *)
  set (i0 := if axis' =? 0 then 1 else if axis' =? 1 then 0 else -1) in *.
  set (i1 := if (axis' =? 0) || (axis' =? 1) then -1
             else match decl with Some ds => if axis' =? Z.of_nat (length ds) then 1 else -1 | None => -1 end) in *.
  assert (S0 : D0 i0).
  { unfold i0, D0. destruct (axis' =? 0) eqn:E0.
    - apply Z.eqb_eq in E0. right. left. unfold f0. rewrite (Hax0 E0). reflexivity.
    - destruct (axis' =? 1) eqn:E1; [|auto]. apply Z.eqb_eq in E1. right. right. auto. }
  assert (S1 : D1 i1).
  { unfold i1, D1. destruct ((axis' =? 0) || (axis' =? 1)); [auto|]. destruct decl as [ds|]; [|auto].
    destruct (axis' =? Z.of_nat (length ds)) eqn:E; [|auto]. apply Z.eqb_eq in E. destruct (Hdecl_axis ds eq_refl) as [E1 E2].
    right. unfold f1. assert (a = length sh) by lia. subst a. rewrite skipn_all. reflexivity. }
  (* stage 2: output annotation *)
  set (j0 := match odecl with Some od => override (nth 0 od None) i0 | None => i0 end) in *.
  set (j1 := match odecl with Some od => override (nth 1 od None) i1 | None => i1 end) in *.
  assert (T0 : D0 j0).
  { unfold j0. destruct odecl as [od|]; [|exact S0]. destruct (override_cases (nth 0 od None) i0) as [[d [E ->]]|[_ ->]]; [|exact S0].
    destruct Ho as [_ Hn]. right. left. symmetry. apply (Hn O d E). }
  assert (T1 : D1 j1).
  { unfold j1. destruct odecl as [od|]; [|exact S1]. destruct (override_cases (nth 1 od None) i1) as [[d [E ->]]|[_ ->]]; [|exact S1].
    destruct Ho as [_ Hn]. right. symmetry. apply (Hn 1%nat d E). }
  (* stage 3: static products of the input annotation *)
  set (k0 := match decl with Some ds => override (static_prod (firstn (Z.to_nat axis') ds)) j0 | None => j0 end) in *.
  set (k1 := match decl with Some ds => override (static_prod (skipn (Z.to_nat axis') ds)) j1 | None => j1 end) in *.
  assert (U0 : D0 k0).
  { unfold k0. destruct decl as [ds|]; [|exact T0]. destruct (Hdecl_axis ds eq_refl) as [E1 E2].
    destruct (override_cases (static_prod (firstn (Z.to_nat axis') ds)) j0) as [[d [E ->]]|[_ ->]]; [|exact T0].
    right. left. rewrite E1, Nat2Z.id in E. symmetry. eapply static_prod_agree; [|exact E].
    apply Forall2_firstn. apply truthful_Forall2. exact Hd. }
  assert (U1 : D1 k1).
  { unfold k1. destruct decl as [ds|]; [|exact T1]. destruct (Hdecl_axis ds eq_refl) as [E1 E2].
    destruct (override_cases (static_prod (skipn (Z.to_nat axis') ds)) j1) as [[d [E ->]]|[_ ->]]; [|exact T1].
    right. rewrite E1, Nat2Z.id in E. symmetry. eapply static_prod_agree; [|exact E].
    apply Forall2_skipn. apply truthful_Forall2. exact Hd. }
  destruct ((k0 =? -1) && (k1 =? -1)) eqn:Eb; [discriminate|]. inversion Hc; subst ns.
  apply flatten_core; auto.
  intros [A B]. rewrite A, B in Eb. discriminate.
Qed.

(* without the "no zero-size dim" hypothesis the shipped rule is wrong: Flatten([2,0,3], axis=2) -> Reshape(x, [0, 3]),
   where 0 means "copy input dim 0" = 2 *)
Theorem flatten_zero_refuted : exists sh decl axis a ns,
  real_axis (length sh) axis = Z.of_nat a /\ (a <= length sh)%nat /\ truthful decl sh /\
  fl_check (Some decl) axis None = Some ns /\ resolve false sh ns <> Some (flatten a sh).
Proof.
  exists [2; 0; 3], [Some 2; Some 0; Some 3], 2, 2%nat, [0; 3]. repeat split; try reflexivity.
  - cbn. lia.
  - intros i d H. destruct i as [|[|[|i]]]; cbn in *; try (inversion H; reflexivity); destruct i; discriminate.
  - vm_compute. discriminate.
Qed.

Example flatten_example :
  fl_check (Some [None; Some 3; Some 4]) 1 None = Some [0; 12] /\ fl_check (Some [None; Some 3; Some 4]) (-1) None = Some [-1; 4]
  /\ fl_check (Some [None; None; None]) 2 None = None /\ fl_check None 1 None = Some [0; -1] /\ fl_check None (-1) None = None
  /\ resolve false [5; 3; 4] [0; 12] = Some (flatten 1 [5; 3; 4]).
Proof. repeat split; reflexivity. Qed.

Example mat_example :
  mat_check false (Some [Some 2; None; Some 3]) = Some [2; -1; 3] /\ mat_ok [Some 2; None; Some 3] = true
  /\ resolve true [4; 6] [2; -1; 3] = Some [2; 4; 3] /\ mat_check false (Some [None; None]) = None
  /\ mat_check true (Some [Some 2]) = None /\ mat_ok [Some 0; None] = false /\ mat_ok [Some 0; Some 3] = true.
Proof. repeat split; reflexivity. Qed.
