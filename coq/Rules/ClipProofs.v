From Coq Require Import ZArith List Bool Lia.
Require Import OV.Rules.Clip.
Open Scope Z_scope.

Ltac crush := unfold lhs_clipclip, lhs_cliprelu, lhs_reluclip, lhs_relurelu, rhs, clip, relu, omin, omax,
  clipclip_bounds, cliprelu_bounds, reluclip_bounds, combine in *; cbn [fst snd] in *.

Lemma relurelu_sound : forall x, lhs_relurelu x = relu x.
Proof. intro x; crush; lia. Qed.

Lemma clipclip_sound : forall l1 h1 l2 h2 x,
  rhs (clipclip_bounds l1 h1 l2 h2) x = lhs_clipclip l1 h1 l2 h2 x.
Proof. intros [l1|] [h1|] [l2|] [h2|] x; crush; lia. Qed.

Lemma cliprelu_sound : forall lo hi x, rhs (cliprelu_bounds lo hi) x = lhs_cliprelu lo hi x.
Proof. intros [lo|] [hi|] x; crush; lia. Qed.

Lemma reluclip_sound : forall lo hi x, rhs (reluclip_bounds lo hi) x = lhs_reluclip lo hi x.
Proof. intros [lo|] [hi|] x; crush; lia. Qed.

(* The bounds used before the fix are wrong: witnesses (replayed on the implementation by the harness). *)
Lemma clipclip_old_refuted : exists l1 h1 l2 h2 x,
  rhs (clipclip_bounds_old l1 h1 l2 h2) x <> lhs_clipclip l1 h1 l2 h2 x.
Proof. exists (Some 0), (Some 1), (Some 2), (Some 3), 5. vm_compute. discriminate. Qed.

Lemma reluclip_old_refuted : exists lo hi x,
  rhs (reluclip_bounds_old lo hi) x <> lhs_reluclip lo hi x.
Proof. exists (Some (-5)), (Some (-1)), 3. vm_compute. discriminate. Qed.

(* the old bounds are right exactly under these side conditions (what the fix had to add) *)
Lemma clipclip_old_ok_iff : forall l1 h1 l2 h2,
  (forall x, rhs (clipclip_bounds_old (Some l1) (Some h1) (Some l2) (Some h2)) x
             = lhs_clipclip (Some l1) (Some h1) (Some l2) (Some h2) x)
  <-> (l2 <= h1 \/ h2 <= h1).
Proof.
  intros l1 h1 l2 h2; split.
  - intro H. specialize (H (Z.max (Z.max l1 l2) (Z.max h1 h2) + 1)).
    unfold clipclip_bounds_old in H. crush. lia.
  - intros H x. unfold clipclip_bounds_old. crush. lia.
Qed.

(* Non-vacuity: a concrete instance where all four bounds matter. *)
Example clipclip_example : lhs_clipclip (Some 0) (Some 1) (Some 2) (Some 3) 5 = 2
  /\ rhs (clipclip_bounds (Some 0) (Some 1) (Some 2) (Some 3)) 5 = 2.
Proof. split; reflexivity. Qed.

(* The same identities over any total order with max/min (covers non-NaN floats with infinities). *)
Section Order.
  Variable T : Type.
  Variable le : T -> T -> Prop.
  Variable mx mn : T -> T -> T.
  Hypothesis le_refl : forall a, le a a.
  Hypothesis le_trans : forall a b c, le a b -> le b c -> le a c.
  Hypothesis le_antisym : forall a b, le a b -> le b a -> a = b.
  Hypothesis le_total : forall a b, le a b \/ le b a.
  Hypothesis mx_spec : forall a b, (le a b -> mx a b = b) /\ (le b a -> mx a b = a).
  Hypothesis mn_spec : forall a b, (le a b -> mn a b = a) /\ (le b a -> mn a b = b).

  Ltac cases a b := destruct (le_total a b); 
     [ try rewrite (proj1 (mx_spec a b)) by assumption; try rewrite (proj1 (mn_spec a b)) by assumption
     | try rewrite (proj2 (mx_spec a b)) by assumption; try rewrite (proj2 (mn_spec a b)) by assumption ].

  Lemma mx_le_l a b : le a (mx a b).
  Proof. destruct (le_total a b) as [H|H]; [rewrite (proj1 (mx_spec a b) H)|rewrite (proj2 (mx_spec a b) H)]; auto. Qed.
  Lemma mx_le_r a b : le b (mx a b).
  Proof. destruct (le_total a b) as [H|H]; [rewrite (proj1 (mx_spec a b) H)|rewrite (proj2 (mx_spec a b) H)]; auto. Qed.
  Lemma mx_lub a b c : le a c -> le b c -> le (mx a b) c.
  Proof. intros; destruct (le_total a b) as [H1|H1]; [rewrite (proj1 (mx_spec a b) H1)|rewrite (proj2 (mx_spec a b) H1)]; auto. Qed.
  Lemma mn_le_l a b : le (mn a b) a.
  Proof. destruct (le_total a b) as [H|H]; [rewrite (proj1 (mn_spec a b) H)|rewrite (proj2 (mn_spec a b) H)]; auto. Qed.
  Lemma mn_le_r a b : le (mn a b) b.
  Proof. destruct (le_total a b) as [H|H]; [rewrite (proj1 (mn_spec a b) H)|rewrite (proj2 (mn_spec a b) H)]; auto. Qed.
  Lemma mn_glb a b c : le c a -> le c b -> le c (mn a b).
  Proof. intros; destruct (le_total a b) as [H1|H1]; [rewrite (proj1 (mn_spec a b) H1)|rewrite (proj2 (mn_spec a b) H1)]; auto. Qed.

  (* distributivity of a chain (every total order is a distributive lattice) *)
  Lemma mx_mn_distr a b c : mx (mn a b) c = mn (mx a c) (mx b c).
  Proof.
    apply le_antisym.
    - apply mx_lub.
      + apply mn_glb. eapply le_trans; [apply mn_le_l|apply mx_le_l]. eapply le_trans; [apply mn_le_r|apply mx_le_l].
      + apply mn_glb; apply mx_le_r.
    - destruct (le_total a b) as [H|H].
      + rewrite (proj1 (mn_spec a b) H). apply mn_le_l.
      + rewrite (proj2 (mn_spec a b) H). apply mn_le_r.
  Qed.
  Lemma mx_assoc a b c : mx (mx a b) c = mx a (mx b c).
  Proof.
    apply le_antisym; repeat apply mx_lub;
      eauto using mx_le_l, mx_le_r, le_trans.
  Qed.
  Lemma mn_assoc a b c : mn (mn a b) c = mn a (mn b c).
  Proof.
    apply le_antisym; repeat apply mn_glb;
      eauto using mn_le_l, mn_le_r, le_trans.
  Qed.

  Definition gclip x lo hi := mn (mx x lo) hi.

  (* Clip(Clip(x,l1,h1),l2,h2) = Clip(x, max l1 l2, min (max h1 l2) h2) in every total order *)
  Theorem clipclip_order : forall x l1 h1 l2 h2,
    gclip (gclip x l1 h1) l2 h2 = gclip x (mx l1 l2) (mn (mx h1 l2) h2).
  Proof.
    intros. unfold gclip. rewrite mx_mn_distr. rewrite mx_assoc. rewrite mn_assoc. reflexivity.
  Qed.

  (* Relu(Clip(x,lo,hi)) = Clip(x, max 0 lo, max 0 hi) with any element z in the role of 0 *)
  Theorem reluclip_order : forall z x lo hi,
    mx (gclip x lo hi) z = gclip x (mx lo z) (mx hi z).
  Proof. intros. unfold gclip. rewrite mx_mn_distr. rewrite mx_assoc. reflexivity. Qed.
End Order.
