(* Model of onnxscript/rewriter/rules/common/_fuse_batchnorm.py (C05):
   BatchNormalization folded into a preceding Conv / ConvTranspose / Gemm whose weights are initializers.
   The arithmetic is written once over an arbitrary carrier (Section variables; the field laws appear only in
   BatchNormProofs.v) and instantiated at Q for the correspondence check.  No proofs in this file. *)
From Coq Require Import ZArith QArith List Bool.
Import ListNotations.
Local Open Scope Z_scope.

Section Generic.
  Variable F : Type.
  Variables (zero one : F) (add mul sub : F -> F -> F) (div : F -> F -> F).

  (* a Conv/ConvTranspose/Gemm output element for one output channel is a dot product of that channel's weights with a
     list of input elements chosen by position, kernel, stride, dilation, padding, group -- but not by the weights *)
  Fixpoint dot (ws xs : list F) : F :=
    match ws, xs with
    | w :: ws', x :: xs' => add (mul w x) (dot ws' xs')
    | _, _ => zero
    end.
  Definition lin (ws : list F) (b : F) (xs : list F) : F := add (dot ws xs) b.
  (* Gemm: alpha * A'B' + beta * C *)
  Definition gemm (alpha betag : F) (ws : list F) (c : F) (xs : list F) : F :=
    add (mul alpha (dot ws xs)) (mul betag c).

  (* BatchNormalization (inference): (v - mean) / sqrt(var + eps) * scale + B; sigma stands for sqrt(var + eps) *)
  Definition bn (gamma beta mean sigma v : F) : F := add (mul (div (sub v mean) sigma) gamma) beta.
  (* training_mode = 1: the statistics are those of the current batch, not the stored ones *)
  Definition bn_mode (training : bool) (gamma beta mean sigma bmean bsigma v : F) : F :=
    if training then bn gamma beta bmean bsigma v else bn gamma beta mean sigma v.

  (* rewrite(): scale_factor = gamma / sqrt(var + eps); W * scale_factor; (B - mean) * scale_factor + beta *)
  Definition scale_factor (gamma sigma : F) : F := div gamma sigma.
  Definition fused_w (ws : list F) (s : F) : list F := map (fun w => mul w s) ws.
  Definition fused_b (b mean s beta : F) : F := add (mul (sub b mean) s) beta.
End Generic.

(* ---------------------------------------------------------------- which scale factor multiplies which weight element *)

Fixpoint prod (l : list Z) : Z := match l with [] => 1 | x :: t => x * prod t end.

(* numpy: weights * reshape(scale, [1,..,-1 at axis,..,1]) -- element with flat index f gets scale[index of f along axis] *)
Definition axis_index (shape : list Z) (axis : nat) (f : Z) : Z :=
  (f / prod (skipn (S axis) shape)) mod (nth axis shape 1).

(* FuseBatchNormIntoConv.get_filters_axis = 0; Gemm: 0 if transB else 1 *)
Definition gemm_axis (transB : bool) : nat := if transB then 0%nat else 1%nat.

(* FuseBatchNormIntoConvTranspose._scale_weights: w.reshape(group, cin/group, ocpg, *k) * s.reshape(group, ocpg, 1..)[:, None]
   flat index f of W[cin, ocpg, K] -> index into scale_factor *)
Definition convt_scale_index (group cin ocpg K f : Z) : Z :=
  let g := f / ((cin / group) * ocpg * K) in
  let j := (f / K) mod ocpg in
  g * ocpg + j.
(* ONNX ConvTranspose: W[c, j, ...] feeds output channel (c / (cin/group)) * ocpg + j *)
Definition convt_out_channel (group cin ocpg c j : Z) : Z := (c / (cin / group)) * ocpg + j.

(* ---------------------------------------------------------------- the rule on concrete rational tensors *)

Inductive bkind := KConv | KConvT | KGemm.

Record bn_params := {
  bk : bkind;
  w_shape : list Z;
  w : list Q;                       (* flattened weights *)
  bias : option (list Q);           (* flattened bias (numpy-broadcast against [channels] by the harness) *)
  gamma : list Q; beta : list Q; mean : list Q; sigma : list Q;     (* sigma = sqrt(var + epsilon), exact *)
  group : Z;
  transB : bool;
  gemm_beta_one : bool;             (* Gemm.beta absent or 1.0 *)
  training : bool;                  (* BatchNormalization.training_mode = 1 *)
  all_initializers : bool;          (* W, B, scale, bias, mean, var are initializers ... *)
  none_graph_input : bool;          (* ... none of them a graph input *)
  w_b_private : bool                (* W and B have no consumer outside the matched pair *)
}.

Definition qnth (l : list Q) (i : Z) : Q := nth (Z.to_nat i) l 0%Q.
Definition sfac (p : bn_params) (i : Z) : Q := Qdiv (qnth (gamma p) i) (qnth (sigma p) i).

Definition scale_index (p : bn_params) (f : Z) : Z :=
  match bk p with
  | KConv => axis_index (w_shape p) 0 f
  | KGemm => axis_index (w_shape p) (gemm_axis (transB p)) f
  | KConvT => convt_scale_index (group p) (nth 0 (w_shape p) 1) (nth 1 (w_shape p) 1) (prod (skipn 2 (w_shape p))) f
  end.

Fixpoint mapi {A B} (f : Z -> A -> B) (i : Z) (l : list A) : list B :=
  match l with [] => [] | x :: t => f i x :: mapi f (i + 1) t end.

Definition nchan (p : bn_params) : Z := Z.of_nat (length (gamma p)).

Definition fused_weights (p : bn_params) : list Q :=
  mapi (fun f x => Qmult x (sfac p (scale_index p f))) 0 (w p).

Definition fused_bias (p : bn_params) : list Q :=
  let b := match bias p with Some b => b | None => map (fun _ => 0%Q) (mean p) end in
  mapi (fun i x => let c := i mod nchan p in
          fused_b Q Qplus Qmult Qminus x (qnth (mean p) c) (sfac p c) (qnth (beta p) c)) 0 b.

Definition bn_check (fixed : bool) (p : bn_params) : bool :=
  all_initializers p && none_graph_input p && w_b_private p &&
  (match bk p with KConvT => (nth 0 (w_shape p) 1) mod (group p) =? 0 | _ => true end) &&
  (if fixed then negb (training p) && (match bk p with KGemm => gemm_beta_one p | _ => true end) else true).

Definition bn_rule (fixed : bool) (p : bn_params) : option (list Q * list Q) :=
  if bn_check fixed p then Some (fused_weights p, fused_bias p) else None.

(* ---------------------------------------------------------------- correspondence helpers *)
Fixpoint ql_eqb (a b : list Q) : bool :=
  match a, b with
  | [], [] => true
  | x :: a', y :: b' => Qeq_bool x y && ql_eqb a' b'
  | _, _ => false
  end.
Definition obs_eqb (a b : option (list Q * list Q)) : bool :=
  match a, b with
  | Some (w1, b1), Some (w2, b2) => ql_eqb w1 w2 && ql_eqb b1 b2
  | None, None => true
  | _, _ => false
  end.
Fixpoint idx_false {A} (f : A -> bool) (i : nat) (l : list A) : list nat :=
  match l with [] => [] | c :: t => (if f c then [] else [i]) ++ idx_false f (S i) t end.
Definition bn_case := (bn_params * option (list Q * list Q))%type.
Definition bn_dis (fixed : bool) (cs : list bn_case) : list nat :=
  idx_false (fun '(p, obs) => obs_eqb (bn_rule fixed p) obs) 0 cs.
