"""C08 helper: the third group of modelled torch_lib functions (coq/Torch/Aten3.v, checked by coq/Torch/Check3.v):
all / any (+ .dim, .dims), argmax / argmin, prod / prod.dim_int, logsumexp, var / std family, scatter family,
convolution attribute lists.  Same conventions as c08_fams; every family carries `finding(args, kwargs, want, desc)`,
the specific class of a failing input (part of the finding key)."""
from __future__ import annotations

import warnings
from fractions import Fraction

import numpy as np

from harness import c08_gen3 as G3
from harness.c08_fams import Fam, arr, b, flat_ints, llz, lz, numel, olz, oz, z

CODE = {"float32": 1, "uint8": 2, "int8": 3, "int16": 5, "int32": 6, "int64": 7, "bool": 9, "float16": 10, "float64": 11}


def r3shape(a):
    return f"(R3Shape {lz(np.asarray(a).shape)})"


def r3sd(a):
    a = np.asarray(a)
    return f"(R3ShapeData {lz(a.shape)} {lz([int(bool(v)) for v in a.reshape(-1).tolist()])})"


def r3st(a):
    a = np.asarray(a)
    return f"(R3ShapeT {lz(a.shape)} {CODE.get(str(a.dtype), 0)})"


def q(fr):
    fr = Fraction(fr)
    return f"(Qmake {z(fr.numerator)} {fr.denominator}%positive)"


def fobs(v):
    v = float(v)
    if v != v:
        return "ONaN"
    if v in (float("inf"), float("-inf")):
        return f"(OInf {b(v < 0)})"
    return f"(OFin {q(Fraction(v))})"


def r3floats(a):
    a = np.asarray(a)
    return f"(R3Floats {lz(a.shape)} [" + "; ".join(fobs(v) for v in a.reshape(-1).tolist()) + "])"


def wrap(d, r):
    return d + r if d < 0 else d


def sh(t):
    return list(t["shape"])


def build(torch):
    A = torch.ops.aten
    F = []
    t_of = {1: torch.float32, 7: torch.int64, 11: torch.float64}

    # ------------------------------------------------------------------ all / any
    def fibers(a):
        x = arr(a[0])
        if x.ndim == 0:
            return "None"
        d = wrap(a[1], x.ndim)
        m = np.moveaxis(x, d, -1)
        cnt = numel([e for i, e in enumerate(x.shape) if i != d])
        rows = m.reshape(cnt, x.shape[d]) if x.shape[d] else [[] for _ in range(cnt)]
        return "(Some " + llz([[int(bool(v)) if isinstance(v, (bool, np.bool_)) else int(v) for v in np.asarray(row).tolist()] for row in rows]) + ")"

    def empty_reduced(a, dims):
        s = sh(a[0])
        if dims is None:
            return 0 in s
        return any(s[d] == 0 for d in dims) if s else False

    for any_, nm in ((False, "all"), (True, "any")):
        tfn = torch.any if any_ else torch.all
        top = A.any if any_ else A.all

        def find_dim(a, k, want, desc, any_=any_):
            if any_ and sh(a[0]) and sh(a[0])[a[1]] == 0:
                return "empty-reduced-dim"
            return None

        def find_dims(a, k, want, desc, any_=any_):
            s = sh(a[0])
            if a[1] == [] and s:
                return "empty-dim-list"
            if not s and a[1] and not a[2]:
                return "rank-0-with-dim"
            if any_ and empty_reduced(a, a[1]):
                return "empty-reduced-dim"
            return None

        F.append(Fam(f"{nm}_dim", f"aten_{nm}_dim", (lambda f: lambda x, d, kd_: f(x, d, kd_))(tfn), G3.gen_allany_dim,
                     (lambda any__: lambda a, k: f"(CAllAnyDim {{F1}} {b(any__)} {lz(sh(a[0]))} {z(a[1])} {b(a[2])} {fibers(a)})")(any_),
                     lambda a, k, out: r3sd(out),
                     lambda a, k: (len(sh(a[0])), a[1] < 0, a[2], bool(sh(a[0])) and sh(a[0])[a[1]] == 0, a[0]["t"]),
                     chk=3, quick=45, thorough=450,
                     floors={"negative dim": (lambda a, k: a[1] < 0, 6), "keepdim": (lambda a, k: a[2], 8)} | ({} if any_ else {"reduction over nothing": (lambda a, k: bool(sh(a[0])) and sh(a[0])[a[1]] == 0, 2)})))
        F[-1].finding = find_dim
        F[-1].flags = lambda a, k, ops, sk=None: ("Greater" in ops, False)
        F.append(Fam(f"{nm}_dims", f"aten_{nm}_dims", (lambda f: lambda x, d, kd_: f.dims(x, d, kd_))(top), G3.gen_allany_dims,
                     (lambda any__: lambda a, k: f"(CAllAnyDims {{F1}} {{F2}} {b(any__)} {lz(sh(a[0]))} {olz(a[1])} {b(a[2])})")(any_),
                     lambda a, k, out: r3shape(out),
                     lambda a, k: (len(sh(a[0])), None if a[1] is None else len(a[1]), a[2], any(d < 0 for d in a[1] or [])),
                     chk=3, quick=45, thorough=450,
                     floors={"two or more dims": (lambda a, k: a[1] is not None and len(a[1]) >= 2, 2),
                             "dim omitted": (lambda a, k: a[1] is None, 2), "keepdim false, dims": (lambda a, k: bool(a[1]) and not a[2], 4)}))
        F[-1].finding = find_dims
        F[-1].flags = lambda a, k, ops, sk=None: ("Greater" in ops, ops == ["Cast"] and a[1] is not None and (a[1] == [] or not sh(a[0])))
        F.append(Fam(nm, f"aten_{nm}", (lambda f: lambda x: f(x))(tfn), G3.gen_allany,
                     (lambda any__: lambda a, k: f"(CAllAny {{F1}} {b(any__)} {lz(sh(a[0]))})")(any_),
                     lambda a, k, out: r3shape(out), lambda a, k: (len(sh(a[0])), 0 in sh(a[0]), a[0]["t"]),
                     chk=3, quick=20, thorough=200))
        F[-1].finding = (lambda any__: lambda a, k, want, desc: "empty-reduced-dim" if any__ and 0 in sh(a[0]) else None)(any_)
        F[-1].flags = lambda a, k, ops, sk=None: ("Greater" in ops, False)

    # ------------------------------------------------------------------ argmax / argmin
    for mn, nm in ((False, "argmax"), (True, "argmin")):
        tfn = torch.argmin if mn else torch.argmax
        F.append(Fam(nm, f"aten_{nm}", (lambda f: lambda x, d, kd_: f(x, d, kd_))(tfn), G3.gen_arg,
                     (lambda mn_: lambda a, k: f"(CArg {{F1}} {b(mn_)} {lz(sh(a[0]))} {oz(a[1])} {b(a[2])})")(mn),
                     lambda a, k, out: r3shape(out),
                     lambda a, k: (len(sh(a[0])), a[1] is None, a[1] is not None and a[1] < 0, a[2]),
                     chk=3, quick=50, thorough=500,
                     floors={"dim omitted": (lambda a, k: a[1] is None, 5), "negative dim": (lambda a, k: a[1] is not None and a[1] < 0, 8),
                             "rank 0": (lambda a, k: not sh(a[0]), 2), "keepdim with dim": (lambda a, k: a[2] and a[1] is not None, 6)}))
        F[-1].finding = lambda a, k, want, desc: "dim-none-keepdim" if a[1] is None and a[2] and len(sh(a[0])) >= 2 and desc.startswith("shape") else None
        F[-1].flags = lambda a, k, ops, sk=None: (bool(ops) and ops[-1] == "Reshape" and len(ops) > 1, False)

    # ------------------------------------------------------------------ prod
    def dt_lit(k):
        return oz(k.get("dtype"))

    def prod_find(a, k, want, desc):
        if a[0]["t"] == "bool" and k.get("dtype") is None:
            return "bool-input"
        if len(a) > 1 and not sh(a[0]):
            return "rank-0"
        if desc.startswith("dtype") and k.get("dtype") is None and a[0]["t"] in ("int32", "uint8", "int8", "int16"):
            return "integer-input-not-promoted"
        return None

    F.append(Fam("prod", "aten_prod", lambda x, dtype=None: torch.prod(x, dtype=t_of.get(dtype)), G3.gen_prod,
                 lambda a, k: f"(CProd {{F1}} {lz(sh(a[0]))} {CODE[a[0]['t']]} {dt_lit(k)})", lambda a, k, out: r3st(out),
                 lambda a, k: (len(sh(a[0])), a[0]["t"], k.get("dtype")), chk=3, quick=30, thorough=300,
                 floors={"int32 promoted": (lambda a, k: a[0]["t"] == "int32" and not k, 1), "dtype given": (lambda a, k: bool(k), 3)}))
    F[-1].finding = prod_find
    F[-1].flags = lambda a, k, ops, sk=None: (a[0]["t"] == "bool" and "Cast" in ops and k.get("dtype") is None, False)
    F.append(Fam("prod_dim_int", "aten_prod_dim_int", lambda x, d, kd_, dtype=None: torch.prod(x, d, kd_, dtype=t_of.get(dtype)), G3.gen_prod_dim,
                 lambda a, k: f"(CProdDim {{F1}} {{F2}} {lz(sh(a[0]))} {CODE[a[0]['t']]} {z(a[1])} {b(a[2])} {dt_lit(k)})", lambda a, k, out: r3st(out),
                 lambda a, k: (len(sh(a[0])), a[0]["t"], a[1] < 0, a[2], k.get("dtype")), chk=3, quick=50, thorough=500,
                 floors={"negative dim": (lambda a, k: a[1] < 0 and bool(sh(a[0])), 5), "dtype given": (lambda a, k: bool(k), 4),
                         "keepdim": (lambda a, k: a[2], 4)}))
    F[-1].finding = prod_find
    F[-1].flags = lambda a, k, ops, sk=None: ("Cast" in ops and k.get("dtype") is None, "Identity" in ops)

    # ------------------------------------------------------------------ logsumexp
    F.append(Fam("logsumexp", "aten_logsumexp", lambda x, d, kd_: torch.logsumexp(x, d, kd_), G3.gen_logsumexp,
                 lambda a, k: f"(CLogSumExp {lz(sh(a[0]))} {lz(a[1])} {b(a[2])})", lambda a, k, out: r3shape(out),
                 lambda a, k: (len(sh(a[0])), len(a[1]), any(d < 0 for d in a[1]), a[2]), chk=3, quick=30, thorough=300,
                 floors={"rank 0": (lambda a, k: not sh(a[0]), 1), "two or more dims": (lambda a, k: len(a[1]) >= 2, 4)}))
    F[-1].finding = lambda a, k, want, desc: None

    # ------------------------------------------------------------------ var / std family
    def var_parts(a, k, dim_fn):
        """(dims as the code sees them: None | list, correction as Fraction, keepdim)"""
        if dim_fn:                                               # var.dim(self, dim, unbiased, keepdim)
            return list(a[1]), Fraction(1 if a[2] else 0), bool(a[3])
        dims = a[1] if len(a) > 1 else None
        if isinstance(dims, int):
            dims = [dims]
        c = k.get("correction")
        return dims, Fraction(1) if c is None else Fraction(c), bool(k.get("keepdim", False))

    def ssds(a, dims, keepdim):
        x = arr(a[0])
        fx = np.array([Fraction(int(v)) for v in x.reshape(-1).tolist()], dtype=object).reshape(x.shape)
        ax = tuple(range(x.ndim)) if not dims else tuple(wrap(d, x.ndim) for d in dims)
        if x.ndim == 0:
            return [Fraction(0)]
        cnt = numel([x.shape[i] for i in ax])
        if cnt == 0:
            out_n = numel([e for i, e in enumerate(x.shape) if i not in ax])
            return [Fraction(0)] * out_n
        mean = fx.sum(axis=ax, keepdims=True) / cnt
        dev = (fx - mean) ** 2
        out = np.asarray(dev.sum(axis=ax), dtype=object)
        return [Fraction(v) for v in out.reshape(-1).tolist()] if out.shape else [Fraction(out.item() if hasattr(out, "item") else out)]

    def var_call(with_mean, sqrt_, dim_fn):
        def f(a, k):
            dims, c, keepdim = var_parts(a, k, dim_fn)
            return (f"(CVar {b(with_mean)} {b(sqrt_)} {lz(sh(a[0]))} {olz(dims)} {q(c)} {b(keepdim)} "
                    "[" + "; ".join(q(v) for v in ssds(a, dims, keepdim)) + "])")
        return f

    def var_find(dim_fn):
        def f(a, k, want, desc):
            dims, c, keepdim = var_parts(a, k, dim_fn)
            s = sh(a[0])
            if not s and dims and c > 0:
                return "rank-0-with-dim"
            red = s if (not dims or not s) else [s[d] for d in dims]
            cnt = numel(red)
            if dims == [] and c > 0 and numel(s) != 1:
                return "empty-dim-list"
            if cnt == 0:
                return "reduced-extent-0"
            if c < 0:
                return "negative-correction"
            if c > cnt:
                return "correction-exceeds-count"
            return None
        return f

    def var_cls(dim_fn):
        def f(a, k):
            dims, c, keepdim = var_parts(a, k, dim_fn)
            s = sh(a[0])
            cnt = numel(s if not dims else [s[d] for d in dims]) if s else 1
            return (len(s), None if dims is None else len(dims), keepdim, int(np.sign(c - cnt)), c == 0, c.denominator != 1)
        return f

    def quiet(f):
        def g(*a, **k):
            with warnings.catch_warnings():
                warnings.simplefilter("ignore")
                return f(*a, **k)
        return g

    # prims::var is the registered variance (aten_var* / aten_std* of core.py carry no torch_op decorator: outside the property)
    def pv_cnt(a):
        s = sh(a[0])
        return numel(s if not a[1] else [s[d] for d in a[1]]) if s else 1

    def pv_find(a, k, want, desc):
        c = Fraction(a[2])
        if not a[1] and c != 0:
            return "empty-dims-with-correction"
        if pv_cnt(a) == 0:
            return "reduced-extent-0"
        if c > pv_cnt(a):
            return "correction-exceeds-count"
        return None

    from onnxscript.function_libs.torch_lib.ops import prims as _prims  # noqa: F401  (Fam.mod = "prims")
    F.append(Fam("prims_var", "prims_var", quiet(lambda x, d, c: torch.ops.prims.var(x, d, c)), G3.gen_prims_var,
                 lambda a, k: (f"(CPrimsVar {{F1}} {{F2}} {lz(sh(a[0]))} {lz(a[1])} {q(Fraction(a[2]))} "
                               "[" + "; ".join(q(v) for v in ssds(a, a[1], False)) + "])"),
                 lambda a, k, out: r3floats(out),
                 lambda a, k: (len(sh(a[0])), len(a[1]), int(np.sign(Fraction(a[2]) - pv_cnt(a))), int(np.sign(a[2])), Fraction(a[2]).denominator != 1),
                 chk=3, mod="prims", quick=90, thorough=900,
                 floors={"two or more dims": (lambda a, k: len(a[1]) >= 2, 8), "correction 0": (lambda a, k: a[2] == 0, 4),
                         "negative correction": (lambda a, k: a[2] < 0, 3), "correction = count (inf / nan)": (lambda a, k: Fraction(a[2]) == pv_cnt(a) and a[2] > 0, 3),
                         "every dimension listed": (lambda a, k: bool(a[1]) and len(a[1]) == len(sh(a[0])), 4)}))
    F[-1].finding = pv_find
    F[-1].flags = lambda a, k, ops, sk=None: (not a[1] and a[2] != 0 and bool(ops), "Max" in ops)

    # ------------------------------------------------------------------ scatter family
    def sc_find(kind):
        def f(a, k, want, desc):
            s, i = sh(a[0]), sh(a[2])
            if kind == "reduce" and a[4] == "mean":
                return "reduce-mean"
            if not s and kind != "reduce":
                return "rank-0-self"
            if kind in ("add", "reduce") and not i and s:
                return "rank-0-index"
            if kind != "value":
                r = sh(a[3])
                if len(r) == len(i) and any(x < y for x, y in zip(i, r)):
                    return "src-larger-than-index"
                if kind == "add" and len(r) != len(i):
                    return "rank-0-index"
            return None
        return f

    def sc_cls(a, k):
        s, i = sh(a[0]), sh(a[2])
        return (len(s), len(i), a[1] < 0, numel(i) == 0)

    F.append(Fam("scatter_src", "aten_scatter_src", lambda x, d, i, s: torch.scatter(x, d, i, s), G3.gen_scatter_src,
                 lambda a, k: f"(CScatterSrc {{F1}} {lz(sh(a[0]))} {z(a[1])} {lz(sh(a[2]))} {lz(sh(a[3]))})", lambda a, k, out: r3shape(out), sc_cls,
                 chk=3, quick=50, thorough=500, floors={"negative dim": (lambda a, k: a[1] < 0 and bool(sh(a[0])), 8),
                                                         "index smaller than self": (lambda a, k: bool(sh(a[0])) and sh(a[2]) != sh(a[0]), 8)}))
    F[-1].finding = sc_find("src")
    F[-1].flags = lambda a, k, ops, sk=None: ("Reshape" in ops, False)
    F.append(Fam("scatter_value", "aten_scatter_value", lambda x, d, i, v: torch.scatter(x, d, i, v), G3.gen_scatter_value,
                 lambda a, k: f"(CScatterValue {{F1}} {lz(sh(a[0]))} {z(a[1])} {lz(sh(a[2]))})", lambda a, k, out: r3shape(out), sc_cls,
                 chk=3, quick=40, thorough=400, floors={"negative dim": (lambda a, k: a[1] < 0 and bool(sh(a[0])), 3),
                                                         "0-d index": (lambda a, k: not sh(a[2]) and bool(sh(a[0])), 1)}))
    F[-1].finding = sc_find("value")
    F[-1].flags = lambda a, k, ops, sk=None: ("Reshape" in ops, False)
    F.append(Fam("scatter_add", "aten_scatter_add", lambda x, d, i, s: torch.scatter_add(x, d, i, s), G3.gen_scatter_add,
                 lambda a, k: f"(CScatterAdd {{F1}} {{F2}} {lz(sh(a[0]))} {z(a[1])} {lz(sh(a[2]))} {lz(sh(a[3]))})", lambda a, k, out: r3shape(out), sc_cls,
                 chk=3, quick=40, thorough=400, floors={"negative dim": (lambda a, k: a[1] < 0 and bool(sh(a[0])), 6)}))
    F[-1].finding = sc_find("add")
    F[-1].flags = lambda a, k, ops, sk=None: ("Unsqueeze" in ops or "Reshape" in ops, "Reshape" in ops)
    F.append(Fam("scatter_reduce", "aten_scatter_reduce",
                 lambda x, d, i, s, r, include_self=True: torch.scatter_reduce(x, d, i, s, r, include_self=include_self), G3.gen_scatter_reduce,
                 lambda a, k: f"(CScatterReduce {{F1}} {lz(sh(a[0]))} {z(a[1])} {lz(sh(a[2]))} {lz(sh(a[3]))} {b(k['include_self'])})",
                 lambda a, k, out: r3shape(out), lambda a, k: sc_cls(a, k) + (a[4], k["include_self"]),
                 chk=3, quick=50, thorough=500, floors={"include_self false": (lambda a, k: not k["include_self"], 8),
                                                         "rank 0": (lambda a, k: not sh(a[0]), 2)}))
    F[-1].finding = sc_find("reduce")
    F[-1].flags = lambda a, k, ops, sk=None: ("Unsqueeze" in ops, False)

    # ------------------------------------------------------------------ convolution
    def conv_find(a, k, want, desc):
        e = len(sh(a[1])) - 2
        if a[6] and e > 1 and len(a[7]) == 1:
            return "one-entry-output_padding-list"
        return None

    def convnd_find(e):
        def f(a, k, want, desc):
            if e > 1 and any(len(v) == 1 for v in a[3:6]):
                return "one-entry-list"
            if e == 3 and a[2] is None:
                return "bias-omitted"
            return None
        return f

    F.append(Fam("convolution", "aten_convolution", lambda *a: A.convolution(*a), G3.gen_convolution,
                 lambda a, k: (f"(CConvolution {{F1}} {lz(sh(a[0]))} {lz(sh(a[1]))} {b(a[2] is not None)} {lz(a[3])} {lz(a[4])} {lz(a[5])} "
                               f"{b(a[6])} {lz(a[7])} {z(a[8])})"),
                 lambda a, k, out: r3shape(out),
                 lambda a, k: (len(sh(a[1])) - 2, a[6], a[2] is None, len(a[3]), len(a[4]), len(a[5]), len(a[7]), a[8]),
                 chk=3, quick=56, thorough=700,
                 floors={"transposed": (lambda a, k: a[6], 10), "one-entry stride / padding list, 2-D or 3-D": (lambda a, k: len(sh(a[1])) > 3 and len(a[3]) == 1 and len(a[4]) == 1, 4),
                         "output_padding > 0": (lambda a, k: a[6] and any(a[7]), 3), "groups 2": (lambda a, k: a[8] == 2, 5)}))
    F[-1].finding = conv_find
    def conv_flags(a, k, ops, sk=None):
        e = len(sh(a[1])) - 2
        for o, ints in sk or []:
            if o == "ConvTranspose":
                return (e > 1 and len(a[7]) == 1 and len(ints[3]) == e, False)
        return (False, False)
    F[-1].flags = conv_flags
    for e in (1, 2, 3):
        F.append(Fam(f"conv{e}d", f"aten_conv{e}d", (lambda e_: lambda *a: getattr(A, f"conv{e_}d")(*a))(e), G3.gen_convnd(e),
                     (lambda e_: lambda a, k: (f"(CConvNd {{F1}} {{F2}} {e_} {lz(sh(a[0]))} {lz(sh(a[1]))} {b(a[2] is not None)} {lz(a[3])} {lz(a[4])} {lz(a[5])} {z(a[6])})"))(e),
                     lambda a, k, out: r3shape(out),
                     lambda a, k: (len(sh(a[0])) - len(sh(a[1])), a[2] is None, len(a[3]), a[6]),
                     chk=3, quick=30, thorough=300,
                     floors={"unbatched": (lambda a, k: len(sh(a[0])) != len(sh(a[1])), 2)} | ({"bias omitted": (lambda a, k: a[2] is None, 4)} if e < 3 else {})))
        F[-1].finding = convnd_find(e)

        def convnd_flags(a, k, ops, sk=None, e=e):
            lf = False
            for o, ints in sk or []:
                if o == "Conv":
                    lf = e > 1 and ((len(a[3]) == 1 and len(ints[4]) == e) or (len(a[4]) == 1 and len(ints[3]) == 2 * e)
                                    or (len(a[5]) == 1 and len(ints[0]) == e))
            return (lf, e == 3 and a[2] is None and "Concat" not in ops)
        F[-1].flags = convnd_flags
    # ------------------------------------------------------------------ upsample output extents (coq/Torch/Upsample.v)
    def oq(v):
        return "None" if v is None else f"(Some {q(Fraction(v))})"

    def up_find(a, k, want, desc):
        import math
        if desc.startswith("shape"):
            scs = [v for v in a[2:] if isinstance(v, float)]
            sp = sh(a[0])[2:]
            if a[1] is not None and len(scs) == len(sp) and any(o != math.floor(m * s) for o, m, s in zip(a[1], sp, scs)):
                return "output-size-ignored-when-scales-given"
            return "scale-factor-float32-rounding"
        return None

    def up_fam(name, fn_, kind, ref, gen, scales_of, size_of, quick):
        F.append(Fam(name, fn_, ref, gen,
                     lambda a, k: f"(CUpsample {kind} {lz(sh(a[0]))} {lz(size_of(a) or [])} [" + "; ".join(oq(v) for v in scales_of(a)) + "])",
                     lambda a, k, out: r3shape(out), lambda a, k: (len(sh(a[0])), size_of(a) is None, sum(v is not None for v in scales_of(a))),
                     chk=3, mod="nn", quick=quick, thorough=quick * 8))
        F[-1].finding = up_find
        F[-1].shape_only = True      # interpolated values depend on the kernels' float arithmetic: extents only

    up_fam("upsample_nearest1d", "aten_upsample_nearest1d", "UNearest", lambda x, o, s: A.upsample_nearest1d(x, o, s), G3.gen_upsample(1, False),
           lambda a: [a[2]], lambda a: a[1], 24)
    up_fam("upsample_nearest2d", "aten_upsample_nearest2d", "UNearest", lambda x, o, s1, s2: A.upsample_nearest2d(x, o, s1, s2), G3.gen_upsample(2, False),
           lambda a: [a[2], a[3]], lambda a: a[1], 24)
    up_fam("upsample_nearestnd_vec", "aten_upsample_nearestnd_vec", "UVec",
           lambda x, o, s: (A.upsample_nearest1d.vec if x.dim() == 3 else A.upsample_nearest2d.vec)(x, o, s), G3.gen_upsample(0, True),
           lambda a: a[2] or [], lambda a: a[1], 30)
    up_fam("upsample_bilinear2d", "aten_upsample_bilinear2d", "USizeOnly", lambda x, o, ac, s1, s2: A.upsample_bilinear2d(x, o, ac, s1, s2),
           G3.gen_upsample(2, False, align=True), lambda a: [a[3], a[4]], lambda a: a[1], 16)
    return F
