"""C06: node-level and value-level check callables (`_check=` on a node pattern, a callable given as an input, and
`Var(name, check=...)`): a pattern with checkers means "an instance whose bound node / value satisfies the checker"
(docs/tutorial/rewriter/node_value_checkers.md).  The checkers are outside the Coq model (arbitrary callables); here they
are tables (the set of host nodes / values for which the checker answers True), the structural part of the meaning is
evaluated by harness/c06_spec.py on the checker-free description, and the real Pattern.match is run with checkers that
read the table.  Expected: a match is reported iff some instance satisfies every checker; every checker is called only on
what its pattern was bound to.
"""
from __future__ import annotations

import itertools

from harness import c06_pat, c06_spec

VAR_CHECK_KEY = "C06:value-checker-on-named-variable:never-called:non-instance-reported"


def _families():
    """(name, description for the structural meaning, builder of the real pattern function given the checker callables,
    checked things: list of ("node", pattern node index) | ("var", variable name) in the order of the callables)"""
    X, Y = ["var", "x"], ["var", "y"]
    fams = []
    # a callable given as an input: an unnamed value pattern with a checker (bound by identity) -- "__c" in the description
    fams.append(("callable-input",
                 {"params": ["x"], "nodes": [{"op": "Add", "ins": [X, ["var", "__c"]]}], "ors": [], "outs": [["out", 0, 0]]},
                 lambda P, ck: (lambda op, x: op.Add(x, ck[0])), [("var", "__c")]))
    fams.append(("callable-input-below",
                 {"params": ["x"], "nodes": [{"op": "Relu", "ins": [["var", "__c"]]}, {"op": "Sub", "ins": [["out", 0, 0], X]}],
                  "ors": [], "outs": [["out", 1, 0]]},
                 lambda P, ck: (lambda op, x: op.Sub(op.Relu(ck[0]), x)), [("var", "__c")]))
    # Var(name, check=...): a NAMED variable with a checker
    fams.append(("named-var-check",
                 {"params": ["x"], "nodes": [{"op": "Add", "ins": [X, ["var", "w"]]}], "ors": [], "outs": [["out", 0, 0]]},
                 lambda P, ck: (lambda op, x: op.Add(x, P.Var("w", check=ck[0]))), [("var", "w")]))
    fams.append(("named-var-check-twice",
                 {"params": ["x"], "nodes": [{"op": "Relu", "ins": [["var", "w"]]}, {"op": "Sub", "ins": [["out", 0, 0], ["var", "w"]]}],
                  "ors": [], "outs": [["out", 1, 0]]},
                 lambda P, ck: (lambda op, x: op.Sub(op.Relu(P.Var("w", check=ck[0])), P.Var("w", check=ck[0]))), [("var", "w")]))
    # _check= on the root and on an interior node
    fams.append(("node-check-root",
                 {"params": ["x", "y"], "nodes": [{"op": "Add", "ins": [X, Y]}], "ors": [], "outs": [["out", 0, 0]]},
                 lambda P, ck: (lambda op, x, y: op.Add(x, y, _check=ck[0])), [("node", 0)]))
    fams.append(("node-check-interior",
                 {"params": ["x", "y"], "nodes": [{"op": "Relu", "ins": [X]}, {"op": "Sub", "ins": [["out", 0, 0], Y]}],
                  "ors": [], "outs": [["out", 1, 0]]},
                 lambda P, ck: (lambda op, x, y: op.Sub(op.Relu(x, _check=ck[0]), y, _check=ck[1])), [("node", 0), ("node", 1)]))
    # both kinds
    fams.append(("node-and-value-check",
                 {"params": ["x"], "nodes": [{"op": "Relu", "ins": [X]}, {"op": "Add", "ins": [["out", 0, 0], ["var", "__c"]]}],
                  "ors": [], "outs": [["out", 1, 0]]},
                 lambda P, ck: (lambda op, x: op.Add(op.Relu(x, _check=ck[0]), ck[1])), [("node", 0), ("var", "__c")]))
    return fams


def _hosts():
    hs = []
    for op in ("Add", "Sub"):
        hs.append({"nodes": [{"op": op, "dom": "", "attrs": [], "ins": [0, 1], "outs": [3]}], "inputs": [0, 1], "outs": [3], "consts": {}})
        hs.append({"nodes": [{"op": op, "dom": "", "attrs": [], "ins": [0, 2], "outs": [3]}], "inputs": [0], "outs": [3], "consts": {"2": 1.0}})
        hs.append({"nodes": [{"op": op, "dom": "", "attrs": [], "ins": [0, 0], "outs": [3]}], "inputs": [0], "outs": [3], "consts": {}})
        hs.append({"nodes": [{"op": "Relu", "dom": "", "attrs": [], "ins": [0], "outs": [3]},
                             {"op": op, "dom": "", "attrs": [], "ins": [3, 1], "outs": [4]}], "inputs": [0, 1], "outs": [4], "consts": {}})
        hs.append({"nodes": [{"op": "Relu", "dom": "", "attrs": [], "ins": [0], "outs": [3]},
                             {"op": op, "dom": "", "attrs": [], "ins": [3, 0], "outs": [4]}], "inputs": [0], "outs": [4], "consts": {}})
        hs.append({"nodes": [{"op": "Relu", "dom": "", "attrs": [], "ins": [0], "outs": [3]},
                             {"op": "Relu", "dom": "", "attrs": [], "ins": [1], "outs": [4]},
                             {"op": op, "dom": "", "attrs": [], "ins": [4, 2], "outs": [5]}], "inputs": [0, 1], "outs": [5, 3], "consts": {"2": 1.0}})
    return hs


def run(ctx):
    from onnxscript.rewriter import pattern as P
    stats = {"cases": 0, "matches": 0, "checker_calls": 0, "rejected_by_checker": 0, "named_var_checker_ignored": 0}
    for name, desc, mk, checked in _families():
        P_spec = c06_pat.abstract_of_desc(desc)
        roots = c06_spec.spec_roots(P_spec)
        for h in _hosts():
            model, graph, vals, nodes = c06_pat.build_host(h)
            H = c06_spec.Host(h)
            vid_of = {id(v): k for k, v in vals.items()}
            nid_of = {id(n): j for j, n in enumerate(nodes)}
            things = []
            for kind, _ in checked:
                things.append(list(range(len(nodes))) if kind == "node" else sorted(vals))
            # the checker tables: everything allowed, nothing allowed, each single thing allowed / forbidden
            tables = []
            for t in things:
                opts = [set(t), set()] + [{a} for a in t] + [set(t) - {a} for a in t]
                tables.append(opts)
            combos = list(itertools.product(*tables))
            if ctx.tier == "quick" and len(combos) > 12:
                combos = combos[:2] + ctx.rng.sample(combos[2:], 10)
            for allowed in combos:
                for root in range(len(nodes)):
                    calls = []

                    def mk_checker(k, kind):
                        def checker(context, obj):
                            ident = nid_of[id(obj)] if kind == "node" else vid_of[id(obj)]
                            calls.append((k, ident))
                            return ident in allowed[k]
                        return checker

                    cks = [mk_checker(k, kind) for k, (kind, _) in enumerate(checked)]
                    pat = P.Pattern(mk(P, cks))
                    try:
                        r = pat.match(model, graph, nodes[root], check_nodes_are_removable=False)
                        got = bool(r)
                    except Exception as e:                               # noqa: BLE001
                        ctx.violation(f"C06:check-callable:raises:{type(e).__name__}:{name}", "Pattern.match raises with a checker",
                                      {"family": name, "h": h, "root": root})
                        continue
                    insts = c06_spec.instances_search(P_spec, H, roots, root)

                    def satisfied(i):
                        for k, (kind, what) in enumerate(checked):
                            if kind == "node":
                                if i["nmap"].get(what) not in allowed[k]:
                                    return False
                            else:
                                b = i["bindings"].get(what)
                                if b is None or b[0] != "val" or b[1] not in allowed[k]:
                                    return False
                        return True

                    expected = any(satisfied(i) for i in insts)
                    stats["cases"] += 1
                    stats["matches"] += got
                    stats["checker_calls"] += len(calls)
                    stats["rejected_by_checker"] += bool(insts) and not expected
                    ctx.case(("checker", name, got, expected, bool(insts)))
                    replay = {"family": name, "p": desc, "checked": checked, "allowed": [sorted(a) for a in allowed], "h": h, "root": root,
                              "reported": got, "expected": expected, "checker_calls": calls}
                    if got != expected:
                        if name.startswith("named-var-check") and got and not calls:
                            stats["named_var_checker_ignored"] += 1
                            ctx.violation(VAR_CHECK_KEY, "a match is reported although the value bound to a variable does not satisfy the variable's "
                                          "checker: Pattern.match runs value-level checkers over MatchResult.value_bindings, which holds the "
                                          "UNNAMED value patterns only; Var(name, check=f) is bound by name, so f is never called", replay)
                        else:
                            ctx.violation(f"C06:check-callable:{'non-instance-reported' if got else 'instance-not-matched'}:{name}",
                                          "with node/value-level checkers the reported verdict differs from 'an instance satisfying every checker exists'",
                                          replay)
                    elif got:
                        # every checker was called, and only on what its pattern is bound to in the reported match
                        bound = {}
                        for k, (kind, what) in enumerate(checked):
                            if kind == "node":
                                bound[k] = {nid_of[id(n)] for pn, n in r.node_bindings.items()}
                            else:
                                bound[k] = {vid_of[id(v)] for v in list(r.value_bindings.values()) + list(r.bindings.values())
                                            if v is not None and id(v) in vid_of}
                        if any(ident not in bound[k] for k, ident in calls):
                            ctx.violation(f"C06:check-callable:called-on-unbound-object:{name}", "a checker was called on a node/value that is not "
                                          "part of the reported match", replay)
    ctx.cover(checkers=stats)
    ctx.obligation("checkers: Pattern.match with table-driven node/value checkers = 'some instance satisfies every checker' on every case "
                   "(deviations are reported as violations / known findings)", True, f"{stats['cases']} cases")
