(* Soundness of the stages of Opt/Stages.v over (graph, initializer table), by LINKING to the theorems of the properties that
   own the pass: C03 (fold_graph_sound_b), C07 (sweep_sound, first_rule_sound, side_okb_sound, namefix_sound).  What remains
   a hypothesis is named: oracles / pe_ok (fold), rule_sound per rule (rewrite: the segment equivalence C05 proves per family),
   the Identity kernel law (OutputFix). *)
From Coq Require Import List String ZArith Bool Lia.
Require Import OV.Graph.Syntax OV.Graph.Sem OV.Graph.Names OV.Graph.SemProofs OV.Gen.FoldTables.
Require Import OV.Opt.Fold OV.Opt.SemLemmas OV.Opt.FoldProofs OV.Opt.FoldNested OV.Opt.FoldTheorems OV.Opt.Validity.
Require Import OV.Opt.Dce OV.Opt.DceProofs OV.Opt.Cse OV.Opt.CseProofs OV.Opt.Use OV.Opt.UseProofs OV.Opt.Inits OV.Opt.InitsProofs.
Require Import OV.Opt.Pipeline OV.Opt.PipelineProofs OV.Opt.Stages.
Require Import OV.Rewrite.Apply OV.Rewrite.ApplyProofs OV.Rewrite.PassProofs OV.Rewrite.NameFix OV.Rewrite.NameFixProofs.
Import ListNotations.
Local Open Scope list_scope.

Section S.
  Variable V : Type.
  Variable sem : string -> string -> list (string * attrv) -> list (option V) -> option (list V).
  Variable truth : V -> option bool.
  Variable trip : V -> option nat.
  Variable of_nat : nat -> V.
  Variable of_bool : bool -> V.
  Variable limit : nat.
  Variable tok_val : token -> option V.

  Notation env := (list (vname * V)).
  Notation eval_graph := (eval_graph V sem truth trip of_nat of_bool limit).
  Notation run := (run V sem truth trip of_nat of_bool limit).
  Notation istage_sound := (istage_sound V sem truth trip of_nat of_bool limit tok_val).
  Notation init_env := (init_env V tok_val).

  (* a stage that rewrites the graph only, by a transformation that preserves evaluation in every environment *)
  Lemma graph_stage_sound (tr : graph -> option graph) (f : imodel -> bool) :
    (forall g g', tr g = Some g' -> forall F e args r, eval_graph F e g args = Some r -> eval_graph F e g' args = Some r) ->
    istage_sound (fun m => match tr (fst m) with Some g' => Some ((g', snd m), f m) | None => None end).
  Proof.
    intros H [g t] m' b. cbn [fst snd]. destruct (tr g) as [g'|] eqn:E; [|discriminate]. intro X; inversion X; subst.
    intros F args r Hr. cbn [fst snd] in *. unfold eval_model in *. exact (H g g' E F _ args r Hr).
  Qed.

  (* ================================================================ fold *)
  Section FoldStage.
    Variable ref_eval : string -> string -> list (string * attrv) -> list (option V) -> option (list V).
    Variable const_val : list (string * attrv) -> option V.
    Variable attr_of_val : V -> attrv.
    Variable v_dtype : V -> Z.
    Variable v_dims : V -> list Z.
    Variable v_ints : V -> option (list Z).
    Variable v_tensor : V -> bool.
    Variable pe : state V -> node -> pe_out V.
    Hypothesis Horacles : oracles V sem truth ref_eval const_val attr_of_val v_dtype v_ints.
    Hypothesis Hpe : pe_ok V sem truth trip of_nat of_bool limit pe.

    (* what the folder knows when it starts: the values of the initializers; the graph inputs are guarded *)
    Definition init_state (t : itab) (gi : list vname) : state V := mkState V (init_env t) [] [] [] [] 0 (map fst t) gi.

    Definition i_fold (cfg : config) (depth fuel : nat) (f : imodel -> bool) : mstage imodel :=
      fun m => let g := fst m in
               if subset (g_ins g) (c_graph_inputs cfg) then
                 match fold_graph V ref_eval const_val attr_of_val v_dtype v_dims v_ints v_tensor pe true cfg depth fuel
                                  (map fst (snd m)) (init_state (snd m) (g_ins g)) g with
                 | OK (_, g', _, _) => Some ((g', snd m), f m)
                 | _ => None
                 end
               else None.

    Lemma assoc_lookup (l : env) x : Fold.assoc x l = lookup l x.
    Proof. induction l as [|[y v] t IH]; cbn; [reflexivity|]. destruct (String.eqb x y); auto. Qed.
    Lemma init_env_dom t x v : lookup (init_env t) x = Some v -> In x (map fst t).
    Proof.
      induction t as [|[y k] r IH]; cbn; [discriminate|]. destruct (tok_val k); cbn.
      - destruct (String.eqb x y) eqn:E; [apply String.eqb_eq in E; subst; auto|intro H; right; apply IH; exact H].
      - intro H; right; apply IH; exact H.
    Qed.
    Lemma lookup_combine (xs : list vname) (vs : list V) x v : lookup (combine xs vs) x = Some v -> In x xs.
    Proof.
      revert vs. induction xs as [|y t IH]; intros [|w wt]; cbn; try discriminate.
      destruct (String.eqb x y) eqn:E; [apply String.eqb_eq in E; subst; auto|intro H; right; exact (IH wt H)].
    Qed.
    Lemma lookup_app_cases (a b : env) x v : lookup (a ++ b) x = Some v -> lookup a x = Some v \/ lookup b x = Some v.
    Proof. induction a as [|[y w] t IH]; cbn; [auto|]. destruct (String.eqb x y); auto. Qed.

    Theorem i_fold_sound cfg depth fuel f : istage_sound (i_fold cfg depth fuel f).
    Proof.
      intros [g t] m' b. unfold i_fold. cbn [fst snd].
      destruct (subset (g_ins g) (c_graph_inputs cfg)) eqn:Sb; [|discriminate].
      destruct (fold_graph _ _ _ _ _ _ _ _ _ _ _ _ _ _ _ g) as [[[[st' g'] news] tr]| | |] eqn:Fg; try discriminate.
      intro X; inversion X; subst; clear X. intros [|F] args r Hr; [discriminate|]. cbn [fst snd] in *. unfold eval_model in *.
      apply (fold_graph_sound_b V sem truth trip of_nat of_bool limit ref_eval const_val attr_of_val v_dtype v_dims v_ints v_tensor
               Horacles pe cfg Hpe depth fuel (map fst t) (init_state t (g_ins g)) g st' g' news tr Fg); [| |exact Hr].
      - cbn [s_guard init_state]. intros x Hx. unfold subset in Sb. rewrite forallb_forall in Sb. apply mem_true_iff. exact (Sb x Hx).
      - intros e0 B. split.
        + apply (inv_initial_all_inputs V (init_state t (g_ins g)) (g_ins g) (init_env t ++ []) eq_refl) with (args := args); [|exact B].
          cbn [s_const s_guard init_state]. intros x c A G. split.
          * intro Hi. apply mem_true_iff in Hi. congruence.
          * intros v L. rewrite app_nil_r in L. rewrite assoc_lookup in A. congruence.
        + intros x v L. destruct (bind_combine V (g_ins g) args _ e0 B) as [-> _].
          apply lookup_app_cases in L. destruct L as [L|L]; apply in_or_app.
          * left. exact (lookup_combine _ _ _ _ L).
          * right. rewrite app_nil_r in L. exact (init_env_dom t x v L).
    Qed.
  End FoldStage.

  (* ================================================================ rewrite *)
  (* the interface between the per-rule algebra (C05) and the graph semantics: whatever application the rule proposes, the
     matched nodes, run as a segment, are interchangeable with (the matched nodes it keeps ++ its replacement) up to the names
     X it declares, in EVERY environment and for every evaluator depth *)
  Definition rule_sound (r : rule) : Prop := forall ns i a X, r ns i = Some (a, X) ->
    forall f, seg_equiv V sem truth trip of_nat of_bool limit X (eval_graph f)
                (sel (a_mask a) (firstn (List.length (a_mask a)) ns))
                (kept_sel (a_remove a) (a_dead a) (a_mask a) (firstn (List.length (a_mask a)) ns) ++ a_new a).

  Lemma guarded_try_sound outs r : rule_sound r -> try_sound V sem truth trip of_nat of_bool limit (guarded outs r) outs.
  Proof.
    intros R ns i a. unfold guarded. destruct (r ns i) as [[a0 X]|] eqn:E; [|discriminate].
    destruct (side_okb a0 ns outs X) eqn:Sd; [|discriminate]. intro H; inversion H; subst. exists X. left.
    apply (side_okb_sound V sem truth trip of_nat of_bool limit a ns outs X Sd). exact (R ns i a X E).
  Qed.

  Definition i_rewrite (fuel : nat) (rules : list rule) (f : imodel -> bool) : mstage imodel :=
    fun m => let 'Graph gi ii ns go := fst m in
             match rewrite_nodes fuel rules go ns with
             | Some (ns', _) => Some ((Graph gi ii ns' go, snd m), f m)
             | None => None
             end.

  Theorem i_rewrite_sound fuel rules f : Forall rule_sound rules -> istage_sound (i_rewrite fuel rules f).
  Proof.
    intros HR [[gi ii ns go] t] m' b. unfold i_rewrite, rewrite_nodes. cbn [fst snd].
    destruct (sweep fuel _ 0 ns []) as [[ns' apps]|] eqn:Sw; [|discriminate]. intro X; inversion X; subst; clear X.
    intros F args r Hr. cbn [fst snd] in *. unfold eval_model in *.
    assert (T : try_sound V sem truth trip of_nat of_bool limit (first_rule (map (guarded go) rules)) go).
    { apply first_rule_sound. apply Forall_forall. intros x Hx. apply in_map_iff in Hx. destruct Hx as [r0 [<- Hr0]].
      apply guarded_try_sound. exact (proj1 (Forall_forall _ _) HR r0 Hr0). }
    rewrite <- (sweep_sound V sem truth trip of_nat of_bool limit fuel _ 0 ns [] ns' apps go T Sw F _ gi ii args). exact Hr.
  Qed.

  (* ================================================================ NameFix *)
  Definition i_namefix (rn : vname -> vname) (vis : list vname) (f : imodel -> bool) : mstage imodel :=
    fun m => match (if namefix_okb rn vis (fst m) then Some (namefix rn (fst m)) else None) with
             | Some g' => Some ((g', snd m), f m) | None => None end.
  Theorem i_namefix_sound rn vis f : istage_sound (i_namefix rn vis f).
  Proof.
    apply (graph_stage_sound (fun g => if namefix_okb rn vis g then Some (namefix rn g) else None)).
    intros g g'. destruct (namefix_okb rn vis g) eqn:Ok; [|discriminate]. intro H; inversion H; subst.
    intros F e args r Hr. rewrite <- (proj1 (namefix_sound V sem truth trip of_nat of_bool limit rn vis g Ok) F e args). exact Hr.
  Qed.

  (* ================================================================ OutputFix (duplicated outputs) *)
  Hypothesis Hid : forall attrs v, sem "" "Identity" attrs [Some v] = Some [v].

  Lemma fix_dup_spec : forall outs i seen outs' news, fix_dup_outs i seen outs = (outs', news) ->
    forall (e : env) r, lookups e outs = Some r ->
      (forall n, In n news -> forall y, In y (n_outs n) -> lookup e y = None) -> nodupb (flat_map n_outs news) = true ->
      (forall x, In x outs -> ~ In x (flat_map n_outs news)) ->
      forall ev, exists e', run ev e news = Some e' /\ lookups e' outs' = Some r /\ (forall x, ~ In x (flat_map n_outs news) -> lookup e' x = lookup e x).
  Proof.
    induction outs as [|x t IH]; intros i seen outs' news; cbn [fix_dup_outs].
    - intro H; inversion H; subst. intros e r L _ _ _ ev. exists e. cbn. auto.
    - destruct (mem x seen).
      + destruct (fix_dup_outs (S i) seen t) as [o' ns] eqn:Fd. intro H; inversion H; subst; clear H.
        intros e r L Fr Nd Dj ev. cbn [lookups] in L. destruct (lookup e x) as [v|] eqn:Lx; [|discriminate].
        destruct (lookups e t) as [rt|] eqn:Lt; [|discriminate]. inversion L; subst r.
        cbn [flat_map n_outs List.app] in Nd, Dj. cbn [nodupb] in Nd. apply andb_true_iff in Nd. destruct Nd as [Nd1 Nd2].
        cbn [Sem.run]. unfold Sem.eval_node at 1. cbn [is_if is_loop String.eqb Ascii.eqb Bool.eqb andb lookup_opts]. rewrite Lx, Hid. cbn [bind option_map].
        set (al := alias_name x i) in *.
        assert (Lt' : lookups ((al, v) :: e) t = Some rt).
        { rewrite <- Lt. clear - Dj. induction t as [|y s IHs]; cbn; [reflexivity|].
          destruct (String.eqb y al) eqn:E.
          - apply String.eqb_eq in E. subst y. exfalso. apply (Dj al); [right; left; reflexivity|left; reflexivity].
          - rewrite IHs; [reflexivity|]. intros z Hz. apply Dj. destruct Hz as [Hz|Hz]; [left; exact Hz|right; right; exact Hz]. }
        destruct (IH (S i) seen o' ns Fd ((al, v) :: e) rt Lt') with (ev := ev) as [e' [Rn [Lo Ag]]].
        * intros n Hn y Hy. cbn. destruct (String.eqb y al) eqn:E.
          -- apply String.eqb_eq in E. subst y. exfalso. apply negb_true_iff in Nd1.
             assert (In al (flat_map n_outs ns)) as Hi by (apply in_flat_map; exists n; auto). apply mem_true_iff in Hi. congruence.
          -- apply (Fr n (or_intror Hn) y Hy).
        * exact Nd2.
        * intros z Hz Hi. apply (Dj z); [right; exact Hz|right; exact Hi].
        * exists e'. split; [exact Rn|]. split.
          -- cbn [lookups]. rewrite (Ag al); [|apply negb_true_iff in Nd1; intro Hi; apply mem_true_iff in Hi; congruence].
             cbn. rewrite String.eqb_refl, Lo. reflexivity.
          -- intros z Hz. rewrite (Ag z); [|intro Hi; apply Hz; right; exact Hi]. cbn.
             destruct (String.eqb z al) eqn:E; [apply String.eqb_eq in E; subst; exfalso; apply Hz; left; reflexivity|reflexivity].
      + destruct (fix_dup_outs (S i) (x :: seen) t) as [o' ns] eqn:Fd. intro H; inversion H; subst; clear H.
        intros e r L Fr Nd Dj ev. cbn [lookups] in L. destruct (lookup e x) as [v|] eqn:Lx; [|discriminate].
        destruct (lookups e t) as [rt|] eqn:Lt; [|discriminate]. inversion L; subst r.
        destruct (IH (S i) (x :: seen) o' news Fd e rt Lt Fr Nd (fun z Hz => Dj z (or_intror Hz)) ev) as [e' [Rn [Lo Ag]]].
        exists e'. split; [exact Rn|]. split; [|exact Ag].
        cbn [lookups]. rewrite (Ag x (Dj x (or_introl eq_refl))), Lx, Lo. reflexivity.
  Qed.

  Lemma defs_in_names ns x : In x (defs_nodes ns) -> In x (names_nodes ns).
  Proof.
    unfold defs_nodes. induction ns as [|n t IH]; cbn; [auto|]. intro H. apply in_app_or in H. apply in_or_app.
    destruct H as [H|H]; [left|right; apply IH; exact H].
    destruct n as [d o i u a s]. rewrite names_node_eq. cbn in H. apply in_or_app. right. apply in_or_app. left. exact H.
  Qed.

  (* the duplicated outputs of the main graph get an Identity alias each; the alias names must be unbound outside *)
  Theorem output_fix_sound : forall g g', output_fix g = Some g' -> forall F e args r,
    (forall y, In y (g_outs g') -> ~ In y (g_outs g) -> lookup e y = None) ->
    eval_graph F e g args = Some r -> eval_graph F e g' args = Some r.
  Proof.
    intros [gi ii ns go] g'. unfold output_fix. destruct (fix_dup_outs 0 [] go) as [go' news] eqn:Fd.
    destruct (forallb _ news && nodupb _) eqn:G; [|discriminate]. intro H; inversion H; subst; clear H.
    apply andb_true_iff in G. destruct G as [G1 G2]. intros [|F] e args r Ho; [discriminate|].
    cbn [Sem.eval_graph]. unfold Sem.eval_body. cbn [g_ins g_nodes g_outs] in *.
    destruct (bind gi args e) as [e0|] eqn:B; [|discriminate]. rewrite (run_app V sem truth trip of_nat of_bool limit).
    destruct (run (eval_graph F) e0 ns) as [a|] eqn:Rn; [|discriminate]. intro Hl.
    assert (Fresh : forall n, In n news -> forall y, In y (n_outs n) -> ~ In y (names_graph (Graph gi ii ns go))).
    { intros n Hn y Hy. rewrite forallb_forall in G1. specialize (G1 n Hn). rewrite forallb_forall in G1. specialize (G1 y Hy).
      apply negb_true_iff in G1. intro Hi. apply mem_true_iff in Hi. congruence. }
    destruct (fix_dup_spec go 0 [] go' news Fd a r Hl) with (ev := eval_graph F) as [e' [Rn' [Lo _]]].
    - intros n Hn y Hy. pose proof (Fresh n Hn y Hy) as Ny. rewrite names_graph_eq in Ny.
      destruct (run_shape V sem truth trip of_nat of_bool limit _ _ _ _ Rn) as [b [-> Hb]].
      destruct (bind_combine V gi args e e0 B) as [-> _].
      rewrite lookup_app_none.
      + rewrite lookup_app_none.
        * apply Ho; [|intro Hg; apply Ny; apply in_or_app; right; apply in_or_app; right; apply in_or_app; left; exact Hg].
          (* y is one of the new outputs *)
          clear - Fd Hn Hy. revert Fd Hn. generalize 0 at 1. generalize (@nil vname). revert go' news.
          induction go as [|x t IH]; intros go' news seen i; cbn [fix_dup_outs].
          -- intro H; inversion H; subst. intros [].
          -- destruct (mem x seen).
             ++ destruct (fix_dup_outs (S i) seen t) as [o' ns'] eqn:E. intro H; inversion H; subst. intros [Hn|Hn].
                ** subst n. cbn in Hy. destruct Hy as [Hy|[]]. subst. left. reflexivity.
                ** right. exact (IH o' ns' seen (S i) E Hn).
             ++ destruct (fix_dup_outs (S i) (x :: seen) t) as [o' ns'] eqn:E. intro H; inversion H; subst. intro Hn.
                right. exact (IH o' news (x :: seen) (S i) E Hn).
        * destruct (lookup (combine gi args) y) as [w|] eqn:L; [|reflexivity]. exfalso. apply Ny, in_or_app. left.
          exact (lookup_combine _ _ _ _ L).
      + destruct (lookup b y) as [w|] eqn:L; [|reflexivity]. exfalso. apply Ny. apply in_or_app. right. apply in_or_app. right.
        apply in_or_app. right. apply defs_in_names, Hb.
        clear - L. induction b as [|[z q] b IH]; cbn in *; [discriminate|]. destruct (String.eqb y z) eqn:E; [apply String.eqb_eq in E; subst; left; reflexivity|right; apply IH; exact L].
    - exact G2.
    - intros x Hx Hi. apply in_flat_map in Hi. destruct Hi as [n [Hn Hy]]. apply (Fresh n Hn x Hy). rewrite names_graph_eq.
      apply in_or_app. right. apply in_or_app. right. apply in_or_app. left. exact Hx.
    - rewrite Rn'. exact Lo.
  Qed.

  Definition i_output_fix (f : imodel -> bool) : mstage imodel :=
    fun m => match output_fix (fst m) with
             | Some g' => if forallb (fun y => mem y (g_outs (fst m)) || negb (mem y (map fst (snd m)))) (g_outs g') then Some ((g', snd m), f m) else None
             | None => None
             end.
  Theorem i_output_fix_sound f : istage_sound (i_output_fix f).
  Proof.
    intros [g t] m' b. unfold i_output_fix. cbn [fst snd]. destruct (output_fix g) as [g'|] eqn:E; [|discriminate].
    match goal with |- context [forallb ?p (g_outs g')] => destruct (forallb p (g_outs g')) eqn:G; [|discriminate] end. intro X; inversion X; subst; clear X.
    intros F args r Hr. cbn [fst snd] in *. unfold eval_model in *. apply (output_fix_sound g g' E F _ args r); [|exact Hr].
    intros y Hy Ny. rewrite forallb_forall in G. specialize (G y Hy). apply orb_true_iff in G. destruct G as [G|G].
    - apply mem_true_iff in G. contradiction.
    - rewrite app_nil_r. apply lookup_init_none, tab_get_notin. apply negb_true_iff. exact G.
  Qed.
End S.

(* ---- RemoveUnusedFunctions: nothing that is still called is removed (checked closure; the meaning of a model does not read the
   function table: calls are kernels `sem dom op`, so the stage is the identity on (graph, initializer table)) *)
Definition closedb (g : graph) (ft ft' : ftab) : bool :=
  forallb (fun c => negb (existsb (fun e => fid_eqb (fst e) c) ft) || existsb (fun e => fid_eqb (fst e) c) ft')
          (calls_graph g ++ flat_map (fun e => calls_graph (snd e)) ft').
Definition remove_unused_functions_checked (g : graph) (ft : ftab) : ftab :=
  let ft' := remove_unused_functions g ft in if closedb g ft ft' then ft' else ft.
Theorem remove_unused_functions_closed : forall g ft c,
  In c (calls_graph g ++ flat_map (fun e => calls_graph (snd e)) (remove_unused_functions_checked g ft)) ->
  existsb (fun e => fid_eqb (fst e) c) ft = true -> existsb (fun e => fid_eqb (fst e) c) (remove_unused_functions_checked g ft) = true.
Proof.
  intros g ft c. unfold remove_unused_functions_checked. destruct (closedb g ft (remove_unused_functions g ft)) eqn:C.
  - unfold closedb in C. rewrite forallb_forall in C. intros Hc Hin. specialize (C c Hc). rewrite Hin in C. exact C.
  - intros _ H. exact H.
Qed.
