"""C05 family: UnsqueezeUnsqueeze (_basic_rules.py).

Model: coq/Rules/Unsqueeze.v; theorem: coq/Props/C05_unsqueeze.v.
Correspondence: real rule on hosts over all valid (v1, v2) for ranks 0-3 plus negative / non-constant / multi-element axes
(near misses): fired? and emitted axes constant == Unsqueeze.model.  Direct oracle on both engines.
"""
from __future__ import annotations

import numpy as np

from harness import c05_basic_util as U
from harness import common
from harness.common import clist, cnat, copt, cz


def family(ctx):
    from onnx import helper
    from onnxscript.rewriter.rules.common import _basic_rules as br

    shapes = [[], [3], [2, 3], [1, 0], [2, 1, 3], ["N", 2]]
    insts = []
    for sh in shapes:
        r = len(sh)
        for v1 in range(-(r + 1), r + 1):
            for v2 in range(-(r + 2), r + 2):
                insts.append((sh, [v1], [v2], "const"))
    insts += [([2, 3], [0, 1], [0], "const"), ([2, 3], [0], [1, 2], "const"), ([2, 3], [1], [0], "input1"), ([2, 3], [1], [0], "input2"),
              ([2, 3], [1], [2], "scalar-axes")]
    if ctx.tier == "quick":
        insts = [x for i, x in enumerate(insts) if x[3] != "const" or len(x[0]) <= 1 or i % 2 == 0]
    cases, meta = [], []
    fired_n = 0
    for i, (sh, a1, a2, how) in enumerate(insts):
        r = len(sh)
        conc = [d if isinstance(d, int) else 2 for d in sh]
        try:
            mid = np.expand_dims(np.zeros(conc), tuple(a1)).shape
            out = np.expand_dims(np.zeros(mid), tuple(a2)).shape
        except Exception:  # noqa: BLE001  invalid host (axis out of range / repeated)
            continue
        out_decl = list(out)
        if "N" in sh:
            # position of N in the output: the only dim equal to 2 ... recompute with a marker size
            m = [d if isinstance(d, int) else 7 for d in sh]
            o2 = np.expand_dims(np.expand_dims(np.zeros(m), tuple(a1)), tuple(a2)).shape
            out_decl = ["N" if d == 7 else d for d in o2]
        dtype = ("float32", "int64")[i % 2]
        inits, inputs = [], [("x", dtype, sh)]
        arr1 = np.array(a1, np.int64) if how != "scalar-axes" else np.array(a1[0], np.int64)
        arr2 = np.array(a2, np.int64) if how != "scalar-axes" else np.array(a2[0], np.int64)
        nodes = []
        if how == "input1":
            inputs.append(("a1", "int64", [len(a1)]))
        elif i % 3 == 0:
            nodes.append(U.const_node("a1", arr1))
        else:
            inits.append(U.const_arr("a1", arr1))
        if how == "input2":
            inputs.append(("a2", "int64", [len(a2)]))
        else:
            inits.append(U.const_arr("a2", arr2))
        nodes += [helper.make_node("Unsqueeze", ["x", "a1"], ["t"]), helper.make_node("Unsqueeze", ["t", "a2"], ["y"])]
        try:
            host = U.model(nodes, inputs, [("y", dtype, out_decl)], inits=inits, opset=(13, 18, 21)[i % 3])
        except Exception:  # noqa: BLE001
            continue
        new = U.apply_rule(host, [br.unsqueeze_unsqueeze_rule])
        ops = U.ops(new)
        fired = ops == ["Unsqueeze"]
        replay = {"family": "unsqueeze", "x_shape": sh, "axes1": a1, "axes2": a2, "how": how, "dtype": dtype}
        ctx.case(("unsqueeze", r, how, a1[0] < 0, a2[0] < 0, (a1[0] < a2[0]) if len(a1) == len(a2) == 1 else None, len(a1), len(a2)))
        obs = None
        if fired:
            fired_n += 1
            n = U.node_of(new, "Unsqueeze")[0]
            ax = U.consts(new)[n.input[1]]
            if ax.ndim != 1 or str(ax.dtype) != "int64":
                ctx.violation("C05:unsqueeze:axes-constant-form", f"merged axes constant has shape {ax.shape} dtype {ax.dtype}", replay)
            obs = [int(v) for v in ax.reshape(-1)]
        single = len(a1) == 1 and len(a2) == 1 and how in ("const", "scalar-axes")
        v1 = a1[0] if (single or (how == "input2" and len(a1) == 1)) else None
        v2 = a2[0] if (single or (how == "input1" and len(a2) == 1)) else None
        if obs is not None and any(v < 0 for v in obs):
            ctx.tie_broken("correspondence", "unsqueeze", f"negative merged axes {obs} for {replay}")
            continue
        cases.append(f"({copt(v1, cz)}, {copt(v2, cz)}, {copt(obs, lambda l: clist([cnat(v) for v in l]))})")
        meta.append((sh, a1, a2, how, obs))
        if fired:
            feeds = []
            for k in range(3):
                c = [d if isinstance(d, int) else (0 if k == 2 else 2 + k) for d in sh]
                feeds.append({"x": U.int_data(c, dtype, k)})
            U.oracle(ctx, "C05:unsqueeze:differs", f"Unsqueeze(Unsqueeze(x{sh},{a1}),{a2})", host, new, feeds, replay)
    host = U.model([helper.make_node("Unsqueeze", ["x", "a1"], ["t"]), helper.make_node("Unsqueeze", ["t", "a2"], ["y"])],
                   [("x", "float32", [2, 3]), ("a1", "int64", [1]), ("a2", "int64", [1])], [("y", "float32", [None] * 4)],
                   inits=[U.const_arr("a1", np.array([0], np.int64)), U.const_arr("a2", np.array([0], np.int64))])
    xs = U.int_data([2, 3], "float32", 0)
    U.overridable_probe(ctx, "unsqueeze", "Unsqueeze(Unsqueeze(x, a1), a2)", host, [br.unsqueeze_unsqueeze_rule],
                        [{"x": xs}, {"x": xs, "a1": np.array([2], np.int64)}, {"x": xs, "a2": np.array([3], np.int64)}])
    ok, vals_, raw = ctx.coq_eval(["OV.Rules.Unsqueeze"], f"Definition cases : list case := {clist(cases)}.\nEval vm_compute in (disagreeing 0 cases).", name="unsqueeze")
    if not ok:
        ctx.tie_broken("correspondence", "unsqueeze:model-evaluation", raw[-800:])
        return
    bad = common.parse_nat_list(vals_[0])
    for i in bad[:5]:
        ctx.tie_broken("correspondence", "unsqueeze", f"x{meta[i][0]} axes {meta[i][1]} {meta[i][2]} ({meta[i][3]}): implementation emitted {meta[i][4]}, model differs")
    ctx.obligation("correspondence unsqueeze: UnsqueezeUnsqueeze fires only where Unsqueeze.check holds, with the merged axes of the model", not bad)
    U.guard(ctx, "unsqueeze", fired_n, 15)
    ctx.cover(unsqueeze_instances=len(cases), unsqueeze_fired=fired_n, unsqueeze_model_disagreements=len(bad))
    ctx.sample({"family": "unsqueeze", "case": [str(x) for x in meta[len(meta) // 2]]})
