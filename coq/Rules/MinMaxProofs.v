From Coq Require Import ZArith List Bool Lia.
Require Import OV.Rules.BShape OV.Rules.BShapeProofs OV.Rules.MinMax.
Import ListNotations.
Local Open Scope Z_scope.

Lemma min_fold : forall l a b, Z.min a (fold_left Z.min l b) = fold_left Z.min l (Z.min a b).
Proof. induction l as [|c l IH]; intros a b; cbn; [reflexivity|]. rewrite IH. f_equal. lia. Qed.

Lemma max_fold : forall l a b, Z.max a (fold_left Z.max l b) = fold_left Z.max l (Z.max a b).
Proof. induction l as [|c l IH]; intros a b; cbn; [reflexivity|]. rewrite IH. f_equal. lia. Qed.

Lemma minl_red : forall l v x, red Z.min l = Some v -> minl x l = Z.min x v.
Proof. intros [|c t] v x H; [discriminate|]. inversion H; subst. unfold minl. cbn. now rewrite min_fold. Qed.

Lemma maxl_red : forall l v x, red Z.max l = Some v -> maxl x l = Z.max x v.
Proof. intros [|c t] v x H; [discriminate|]. inversion H; subst. unfold maxl. cbn. now rewrite max_fold. Qed.

(* Whenever the rule fires, the replacement computes the same element as the pattern, for every x and all constants. *)
Theorem minmax_sound_gen : forall stack k cs ds x,
  fired (rule_gen stack k cs ds) = true -> rhs (rule_gen stack k cs ds) x = Some (lhs k cs ds x).
Proof.
  intros stack k cs ds x. destruct k; unfold rule_gen, lhs.
  - destruct (red Z.min (vals cs ++ vals ds)) eqn:E; [|discriminate]. intros _. cbn.
    unfold minl at 1 2. rewrite <- fold_left_app. fold (minl x (vals cs ++ vals ds)). now rewrite (minl_red _ _ _ E).
  - destruct (red Z.max (vals cs ++ vals ds)) eqn:E; [|discriminate]. intros _. cbn.
    unfold maxl at 1 2. rewrite <- fold_left_app. fold (maxl x (vals cs ++ vals ds)). now rewrite (maxl_red _ _ _ E).
  - destruct (scalars (cs ++ ds)); [|discriminate]. destruct (negb stack || (homog cs && homog ds)); [|discriminate].
    destruct (red Z.max (vals cs)) eqn:E1; [|discriminate]. destruct (red Z.min (vals ds)) eqn:E2; [|discriminate].
    intros _. cbn. rewrite (maxl_red _ _ _ E1), (minl_red _ _ _ E2). reflexivity.
  - destruct (scalars (cs ++ ds)); [|discriminate]. destruct (negb stack || (homog cs && homog ds)); [|discriminate].
    destruct (red Z.min (vals cs)) eqn:E1; [|discriminate]. destruct (red Z.max (vals ds)) eqn:E2; [|discriminate].
    destruct (z0 <=? z) eqn:L; [|discriminate]. intros _. cbn.
    rewrite (minl_red _ _ _ E1), (maxl_red _ _ _ E2). unfold clip. f_equal. lia.
Qed.

Theorem minmax_sound : forall k cs ds x,
  fired (rule k cs ds) = true -> rhs (rule k cs ds) x = Some (lhs k cs ds x).
Proof. intros. now apply minmax_sound_gen. Qed.

(* the bound-ordering test of FuseMinMaxToClip is necessary *)
Theorem minmax_unchecked_refuted : exists cs ds x,
  rhs (rule_minmax_unchecked cs ds) x <> Some (lhs MinMaxClip cs ds x).
Proof. exists [([], 1)], [([], 3)], 0. vm_compute. discriminate. Qed.

(* ... and sufficient-and-necessary: without it the fused Clip is right exactly when lb <= ub *)
Theorem minmax_unchecked_iff : forall ub lb,
  (forall x, rhs (rule_minmax_unchecked [([], ub)] [([], lb)]) x = Some (lhs MinMaxClip [([], ub)] [([], lb)] x)) <-> lb <= ub.
Proof.
  intros ub lb. split.
  - intro H. specialize (H (Z.min ub lb - 1)). cbn in H. unfold clip, maxl, minl in H. cbn in H. inversion H. lia.
  - intros H x. cbn. unfold clip, maxl, minl. cbn. f_equal. lia.
Qed.

(* shapes: Clip keeps x's shape; the pattern broadcasts.  Sound when every bound's rank fits into x ... *)
Lemma scalars_fit_forall : forall xs l, scalars_fit xs l = true ->
  Forall (fun c => all_ones c = true /\ (length c <= length xs)%nat) (shapes l).
Proof.
  intros xs l H. unfold scalars_fit in H. rewrite forallb_forall in H. apply Forall_forall. intros c Hc.
  unfold shapes in Hc. apply in_map_iff in Hc as [[s v] [<- Hin]]. specialize (H _ Hin). cbn in *.
  apply andb_true_iff in H as [H1 H2]. split; auto. now apply Nat.leb_le.
Qed.

Theorem clip_shape_sound : forall xs cs ds,
  scalars_fit xs (cs ++ ds) = true -> lhs_shape xs cs ds = clip_shape xs.
Proof.
  intros xs cs ds H. unfold lhs_shape, clip_shape. apply bcast_all_ones.
  unfold shapes. rewrite <- map_app. apply (scalars_fit_forall xs (cs ++ ds) H).
Qed.

(* ... but np.size(v) == 1, which is all that `check` asks, is not enough (finding: [1,1] bounds on a rank-1 x) *)
Theorem clip_shape_refuted : exists xs cs ds,
  scalars (cs ++ ds) = true /\ fired (rule MaxMinClip cs ds) = true /\ lhs_shape xs cs ds <> clip_shape xs.
Proof. exists [5], [([1; 1], 1)], [([1; 1], 4)]. repeat split; vm_compute; discriminate. Qed.

(* the rules never produce a result when either node has no constant operand: numpy raises (finding) *)
Theorem no_constants_raises : forall k, rule k [] [] = Raises.
Proof. destruct k; reflexivity. Qed.

(* two bounds of different shapes on one node ([] and [1]) make np.max([..]) raise (finding) *)
Theorem mixed_shape_bounds_raise : rule MaxMinClip [([], 1); ([1], 2)] [([], 5)] = Raises.
Proof. reflexivity. Qed.

Example minmax_example :
  rule MinMaxClip [([1], 6); ([1], 9)] [([], 0); ([], -2)] = FireClip 0 6 /\ lhs MinMaxClip [([1], 6); ([1], 9)] [([], 0); ([], -2)] 7 = 6.
Proof. split; reflexivity. Qed.
