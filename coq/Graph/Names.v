(* All value names occurring in a node / graph, nested subgraphs included (uses and definitions),
   and names defined by a node list.  No proofs in this file. *)
From Coq Require Import List String Bool.
Require Import OV.Graph.Syntax.
Import ListNotations.

Fixpoint names_node (n : node) : list vname :=
  let 'Node _ _ ins outs _ subs := n in
  (present ins ++ outs ++
  (fix go (l : list (string * graph)) : list vname :=
     match l with [] => [] | (_, g) :: t => (names_graph g ++ go t)%list end) subs)%list
with names_graph (g : graph) : list vname :=
  let 'Graph ins inits nodes outs := g in
  (ins ++ inits ++ outs ++
  (fix go (l : list node) : list vname :=
     match l with [] => [] | n :: t => (names_node n ++ go t)%list end) nodes)%list.

Fixpoint names_subs (l : list (string * graph)) : list vname :=
  match l with [] => [] | (_, g) :: t => (names_graph g ++ names_subs t)%list end.
Fixpoint names_nodes (l : list node) : list vname :=
  match l with [] => [] | n :: t => (names_node n ++ names_nodes t)%list end.

Definition defs_nodes (l : list node) : list vname := flat_map n_outs l.

Definition disjoint (a b : list vname) : Prop := forall x, In x a -> ~ In x b.
