(* C20 property theorems: statements only, each closed by `exact`, Print Assumptions beneath.
   Model: ExtData/Save.v (run_save = torch_2_5.save_model_with_external_data -> onnx_ir.save, with the k-th
   file-system call failing); Gen/C20Guard.v is regenerated from torch_2_5.py on every run.
   Not modelled: bytes of the protobuf encoding (the model file is kept structured), symlinks/hard links,
   external source files that are too short, sharded saves (never requested by the function). *)
From Coq Require Import ZArith List Bool String.
Require Import OV.ExtData.Save OV.ExtData.SaveProofs OV.Gen.C20Guard.
Import ListNotations.
Open Scope Z_scope.

(* the in-memory model after the call is the model before the call -- same slots holding the same tensor
   objects (tensor identity `tid` included) -- for every model, file system and fault point (None = no fault) *)
Theorem C20_save_restores : forall ag M mp fs k, r_mem (run_save ag M mp fs k) = M.
Proof. exact save_restores. Qed.
Print Assumptions C20_save_restores.

(* an initializer without a value inside the guard's scope: ValueError, no file-system call, nothing written.
   ag = true is the full statement of the property (every graph), ag = false the main graph only *)
Theorem C20_guard_before_io : forall ag M mp fs k, uninit_in_scope ag M ->
  run_save ag M mp fs k = {| r_out := ErrValue; r_mem := M; r_fs := fs; r_inv := []; r_steps := O |}.
Proof. exact guard_before_io. Qed.
Print Assumptions C20_guard_before_io.

(* ... instantiated with the scope the source has now (Gen/C20Guard.v) *)
Theorem C20_guard_before_io_current_source : forall M mp fs k, uninit_in_scope guard_all_graphs M ->
  run_save guard_all_graphs M mp fs k = {| r_out := ErrValue; r_mem := M; r_fs := fs; r_inv := []; r_steps := O |}.
Proof. exact (guard_before_io guard_all_graphs). Qed.
Print Assumptions C20_guard_before_io_current_source.

(* with the main-graph-only guard the full statement is false: a subgraph initializer without a value is let
   through, both files are written, and the loaded model lacks that initializer (replayed on the real code) *)
Theorem C20_guard_main_graph_only_refuted : exists M mp fs,
  uninit_in_scope true M /\
  r_out (run_save false M mp fs None) = OK /\
  r_fs (run_save false M mp fs None) mp <> fs mp /\
  r_fs (run_save false M mp fs None) (data_path mp) <> fs (data_path mp) /\
  load (r_fs (run_save false M mp fs None)) mp = Some [("w"%string, true, repeat 1 257)].
Proof. exact guard_subgraph_refuted. Qed.
Print Assumptions C20_guard_main_graph_only_refuted.

(* no fault, guard passed, every external source readable: success, and loading the written files gives every
   initialised initializer back with exactly the bytes it had (zero-size, scalar, <= / > threshold, aligned,
   already-external incl. those stored in the destination file) *)
Theorem C20_save_load_roundtrip : forall ag M mp fs,
  guard_fails ag M = false -> all_readable fs M ->
  r_out (run_save ag M mp fs None) = OK /\
  load (r_fs (run_save ag M mp fs None)) mp = Some (expected fs M).
Proof. exact save_load_roundtrip. Qed.
Print Assumptions C20_save_load_roundtrip.

(* whatever fails, no file other than the model file and its sibling data file changes: tensors stored in
   other files are still backed by their original data *)
Theorem C20_only_destination_files_touched : forall ag M mp fs k q,
  q <> mp -> q <> data_path mp -> r_fs (run_save ag M mp fs k) q = fs q.
Proof. exact only_destination_files_touched. Qed.
Print Assumptions C20_only_destination_files_touched.

(* a failing file-system call always surfaces as OSError *)
Theorem C20_fault_is_error : forall ag M mp fs k, guard_fails ag M = false ->
  (k < List.length (ops_unload M mp fs) + 3)%nat -> r_out (run_save ag M mp fs (Some k)) = ErrOS.
Proof. exact fault_is_error. Qed.
Print Assumptions C20_fault_is_error.

(* the documented exception of ir.save, exactly: the tensors invalidated by a save are among -- and on success
   are precisely -- the external tensors over the threshold whose backing file is the data file being written *)
Theorem C20_external_source_overwrite : forall ag M mp fs k,
  incl (r_inv (run_save ag M mp fs k)) (overwritten_sources M mp fs) /\
  (r_out (run_save ag M mp fs k) = OK -> r_inv (run_save ag M mp fs k) = overwritten_sources M mp fs).
Proof. exact external_source_overwrite. Qed.
Print Assumptions C20_external_source_overwrite.

Theorem C20_overwritten_sources_char : forall M mp fs i, In i (overwritten_sources M mp fs) ->
  exists s src off len, In s M /\ s_val s = Some (Ext i src off len) /\ src = data_path mp /\
                        size_threshold < len /\ fs (data_path mp) <> None.
Proof. exact overwritten_sources_char. Qed.
Print Assumptions C20_overwritten_sources_char.

(* non-vacuity of the round-trip hypotheses and a faulted run, on a concrete model *)
Theorem C20_example_hypotheses_satisfiable : guard_fails true ex_M = false /\ all_readable ex_fs ex_M.
Proof. exact ex_hypotheses. Qed.
Print Assumptions C20_example_hypotheses_satisfiable.
