(* C08 -- ONNX operator semantics used by the torch_lib models, transcribed from the operator
   documents (opset 18) on shapes (list Z) and on tensors viewed along one axis (a list of slabs,
   element type arbitrary).  `None` = the operator document calls the node invalid / the runtime
   refuses it.  No proofs in this file. *)
From Coq Require Import ZArith List Bool.
Import ListNotations.
Local Open Scope Z_scope.

Definition zlen {A} (l : list A) : Z := Z.of_nat (length l).
Definition prodZ (l : list Z) : Z := fold_right Z.mul 1 l.
Definition take {A} (n : Z) (l : list A) : list A := firstn (Z.to_nat n) l.
Definition drop {A} (n : Z) (l : list A) : list A := skipn (Z.to_nat n) l.
Definition nthZ {A} (l : list A) (i : Z) : option A :=
  if i <? 0 then None else nth_error l (Z.to_nat i).
Definition INT64_MAX : Z := 9223372036854775807.
Definition INT64_MIN : Z := -9223372036854775808.

Definition obind {A B} (o : option A) (f : A -> option B) : option B :=
  match o with Some a => f a | None => None end.

Fixpoint omap_all {A B} (f : A -> option B) (l : list A) : option (list B) :=
  match l with
  | [] => Some []
  | a :: t => match f a, omap_all f t with Some b, Some r => Some (b :: r) | _, _ => None end
  end.

Fixpoint nodupZ (l : list Z) : bool :=
  match l with [] => true | a :: t => negb (existsb (Z.eqb a) t) && nodupZ t end.

(* axis attribute / input: accepted range [-r, r-1], negative counts from the back *)
Definition norm_axis (r a : Z) : option Z :=
  if (- r <=? a) && (a <? r) then Some (if a <? 0 then a + r else a) else None.

(* ------------------------------------------------------------------ Slice-13, one axis *)
Definition clampZ (lo hi v : Z) : Z := if v <? lo then lo else if hi <? v then hi else v.
Definition ceil_div (a b : Z) : Z := - ((- a) / b).

(* "starts[i] is clamped into [0, dims] for positive stepping and [0, dims-1] for negative stepping;
    ends[i] is clamped into [0, dims] for positive stepping and [-1, dims-1] for negative stepping;
    a negative value counts from the end".  Returns (first index, number of elements).
    An axis of extent 0 yields no element. *)
Definition slice_bounds (n start end_ step : Z) : Z * Z :=
  let s0 := if start <? 0 then start + n else start in
  let e0 := if end_ <? 0 then end_ + n else end_ in
  if 0 <? step then
    let s := clampZ 0 n s0 in
    let e := clampZ 0 n e0 in
    (s, Z.max 0 (ceil_div (e - s) step))
  else
    let s := clampZ 0 (n - 1) s0 in
    let e := clampZ (-1) (n - 1) e0 in
    (s, if n =? 0 then 0 else Z.max 0 (ceil_div (e - s) step)).

Fixpoint strided {A} (xs : list A) (i step : Z) (count : nat) : list A :=
  match count with
  | O => []
  | S c => match nthZ xs i with
           | Some x => x :: strided xs (i + step) step c
           | None => strided xs (i + step) step c
           end
  end.

Definition slice_axis {A} (xs : list A) (start end_ step : Z) : option (list A) :=
  if step =? 0 then None
  else let '(s, c) := slice_bounds (zlen xs) start end_ step in Some (strided xs s step (Z.to_nat c)).

(* ------------------------------------------------------------------ Gather (indices in [-n, n-1]) *)
Definition gather1 {A} (xs : list A) (i : Z) : option A :=
  let n := zlen xs in
  if (- n <=? i) && (i <? n) then nthZ xs (if i <? 0 then i + n else i) else None.
Definition gather_axis {A} (xs : list A) (idx : list Z) : option (list A) := omap_all (gather1 xs) idx.

(* ------------------------------------------------------------------ Reshape-14 *)
(* allowzero = 0: "a dimension could also be 0, in which case the actual dimension value is unchanged
   (i.e. taken from the input tensor)" -- the input dimension at the SAME position. *)
Fixpoint resolve_zeros (ins tgt : list Z) : option (list Z) :=
  match tgt with
  | [] => Some []
  | t :: tgt' =>
    let d := if t =? 0 then match ins with d :: _ => Some d | [] => None end else Some t in
    match d, resolve_zeros (tl ins) tgt' with
    | Some d, Some r => Some (d :: r)
    | _, _ => None
    end
  end.

Definition has (v : Z) (l : list Z) : bool := existsb (Z.eqb v) l.
Definition count_of (v : Z) (l : list Z) : nat := length (filter (Z.eqb v) l).

Definition reshape_shape (ins tgt : list Z) (allowzero : bool) : option (list Z) :=
  if existsb (fun t => t <? -1) tgt then None
  else if (1 <? count_of (-1) tgt)%nat then None
  else if allowzero && has 0 tgt && has (-1) tgt then None
  else
    match (if allowzero then Some tgt else resolve_zeros ins tgt) with
    | None => None
    | Some t1 =>
      let total := prodZ ins in
      if has (-1) t1 then
        let others := prodZ (filter (fun t => negb (t =? -1)) t1) in
        if (others =? 0) || negb (total mod others =? 0) then None
        else Some (map (fun t => if t =? -1 then total / others else t) t1)
      else if prodZ t1 =? total then Some t1 else None
    end.

(* ------------------------------------------------------------------ Flatten-13: axis in [-r, r] *)
Definition flatten_axis (s : list Z) (axis : Z) : option (list Z) :=
  let r := zlen s in
  if (- r <=? axis) && (axis <=? r) then
    let a := if axis <? 0 then axis + r else axis in
    Some [prodZ (take a s); prodZ (drop a s)]
  else None.

(* ------------------------------------------------------------------ Squeeze-13 / Unsqueeze-13 *)
Fixpoint remove_at (s : list Z) (i : Z) (axes : list Z) : list Z :=
  match s with
  | [] => []
  | d :: t => if has i axes then remove_at t (i + 1) axes else d :: remove_at t (i + 1) axes
  end.
(* with axes: every selected dimension must have extent 1 *)
Definition squeeze_axes (s axes : list Z) : option (list Z) :=
  obind (omap_all (norm_axis (zlen s)) axes) (fun ax =>
    if forallb (fun a => match nthZ s a with Some 1 => true | _ => false end) ax
    then Some (remove_at s 0 ax) else None).
(* without axes: all dimensions of extent 1 are removed *)
Definition squeeze_all (s : list Z) : list Z := filter (fun d => negb (d =? 1)) s.

Fixpoint insert_ones (s : list Z) (i : Z) (axes : list Z) (fuel : nat) : list Z :=
  match fuel with
  | O => []
  | S f => if has i axes then 1 :: insert_ones s (i + 1) axes f
           else match s with d :: t => d :: insert_ones t (i + 1) axes f | [] => [] end
  end.
(* axes refer to the OUTPUT rank r + |axes|; no duplicates *)
Definition unsqueeze_axes (s axes : list Z) : option (list Z) :=
  let r' := zlen s + zlen axes in
  obind (omap_all (norm_axis r') axes) (fun ax =>
    if nodupZ ax then Some (insert_ones s 0 ax (Z.to_nat r')) else None).

(* ------------------------------------------------------------------ Transpose-13 *)
Definition iota (n : Z) : list Z := map Z.of_nat (seq 0 (Z.to_nat n)).
Definition is_perm (r : Z) (p : list Z) : bool :=
  (zlen p =? r) && forallb (fun i => has i p) (iota r).
(* perm attribute: a permutation of 0..r-1 (no negative entries); absent = reversed *)
Definition transpose_shape (s : list Z) (perm : option (list Z)) : option (list Z) :=
  match perm with
  | None => Some (rev s)
  | Some p => if is_perm (zlen s) p then omap_all (nthZ s) p else None
  end.

(* ------------------------------------------------------------------ Expand-13 (bidirectional broadcast) *)
Definition bdim (a b : Z) : option Z :=
  if a =? b then Some a else if a =? 1 then Some b else if b =? 1 then Some a else None.
Fixpoint bcast_rev (a b : list Z) : option (list Z) :=   (* on reversed shapes *)
  match a, b with
  | [], _ => Some b
  | _, [] => Some a
  | x :: a', y :: b' => match bdim x y, bcast_rev a' b' with Some d, Some r => Some (d :: r) | _, _ => None end
  end.
Definition expand_shape (s target : list Z) : option (list Z) :=
  if existsb (fun t => t <? 0) target then None
  else option_map (@rev Z) (bcast_rev (rev s) (rev target)).

(* ------------------------------------------------------------------ Tile-13: |repeats| = rank *)
Fixpoint zip_mul (a b : list Z) : list Z :=
  match a, b with x :: a', y :: b' => x * y :: zip_mul a' b' | _, _ => [] end.
Definition tile_shape (s reps : list Z) : option (list Z) :=
  if (zlen reps =? zlen s) && forallb (fun t => 0 <=? t) reps then Some (zip_mul s reps) else None.

(* ------------------------------------------------------------------ Concat-13 *)
Definition replace_at (s : list Z) (a v : Z) : list Z := take a s ++ v :: drop (a + 1) s.
Definition same_except (a : Z) (s1 s2 : list Z) : bool :=
  (zlen s1 =? zlen s2) && forallb (fun i => (i =? a) || match nthZ s1 i, nthZ s2 i with Some x, Some y => x =? y | _, _ => false end) (iota (zlen s1)).
Definition concat_shapes (ss : list (list Z)) (axis : Z) : option (list Z) :=
  match ss with
  | [] => None
  | s0 :: _ =>
    obind (norm_axis (zlen s0) axis) (fun a =>
      if forallb (same_except a s0) ss
      then Some (replace_at s0 a (fold_right Z.add 0 (map (fun s => match nthZ s a with Some d => d | None => 0 end) ss)))
      else None)
  end.

(* ------------------------------------------------------------------ Reduce*-18 (axes as input) *)
Fixpoint reduce_dims (s : list Z) (i : Z) (axes : list Z) (keepdims : bool) : list Z :=
  match s with
  | [] => []
  | d :: t => if has i axes then (if keepdims then 1 :: reduce_dims t (i + 1) axes keepdims else reduce_dims t (i + 1) axes keepdims)
              else d :: reduce_dims t (i + 1) axes keepdims
  end.
(* axes absent or empty with noop_with_empty_axes = 0: all axes are reduced *)
Definition reduce_shape (s : list Z) (axes : option (list Z)) (keepdims : bool) : option (list Z) :=
  let r := zlen s in
  match axes with
  | None | Some [] => Some (reduce_dims s 0 (iota r) keepdims)
  | Some ax => obind (omap_all (norm_axis r) ax) (fun ax' => Some (reduce_dims s 0 ax' keepdims))
  end.

(* ------------------------------------------------------------------ Split-18 / SplitToSequence-11: sizes *)
(* num_outputs = k: "split into equally sized parts; if not evenly divisible the last chunk is smaller";
   onnxruntime additionally requires every output to be non-empty. *)
Definition split_num_outputs (n k : Z) : option (list Z) :=
  if (k <=? 0) || (n <? k) then None
  else let c := ceil_div n k in
       let last := n - c * (k - 1) in
       if last <=? 0 then None else Some (repeat c (Z.to_nat (k - 1)) ++ [last]).
(* SplitToSequence with a scalar `split`: chunks of that length, the last one possibly smaller *)
Definition split_scalar (n c : Z) : option (list Z) :=
  if c <=? 0 then None
  else Some (repeat c (Z.to_nat (n / c)) ++ (if n mod c =? 0 then [] else [n mod c])).
(* with a 1-D `split`: the lengths must add up to the extent *)
Definition split_sizes (n : Z) (sizes : list Z) : option (list Z) :=
  if forallb (fun t => 0 <=? t) sizes && (fold_right Z.add 0 sizes =? n) then Some sizes else None.
Fixpoint cut {A} (xs : list A) (sizes : list Z) : list (list A) :=
  match sizes with [] => [] | c :: t => take c xs :: cut (drop c xs) t end.

(* ------------------------------------------------------------------ arithmetic on integers *)
Definition onnx_div_int (a b : Z) : Z := Z.quot a b.          (* Div on integer tensors truncates *)
Definition onnx_mod (a b : Z) : Z := Z.modulo a b.            (* Mod, fmod = 0: sign of the divisor *)
Definition onnx_fmod (a b : Z) : Z := Z.rem a b.              (* Mod, fmod = 1: C fmod, sign of the dividend *)
(* Clip-13: absent bound = no clamping; "when min > max all values are set to max" *)
Definition onnx_clip (x : Z) (lo hi : option Z) : Z :=
  let y := match lo with Some l => Z.max x l | None => x end in
  match hi with Some h => Z.min y h | None => y end.
(* Range-11: number_of_elements = max(ceil((limit - start) / delta), 0) *)
Definition range_count (start limit delta : Z) : Z := Z.max (ceil_div (limit - start) delta) 0.
Definition onnx_range (start limit delta : Z) : option (list Z) :=
  if delta =? 0 then None
  else Some (map (fun i => start + Z.of_nat i * delta) (seq 0 (Z.to_nat (range_count start limit delta)))).
(* Trilu-14: upper = 1 keeps j >= i + k, upper = 0 keeps j <= i + k *)
Definition trilu_keep (upper : bool) (k i j : Z) : bool := if upper then i + k <=? j else j <=? i + k.
(* CumSum-14 (exclusive = reverse = 0) along an axis, slabs added pointwise *)
Fixpoint zip_add (a b : list Z) : list Z :=
  match a, b with x :: a', y :: b' => x + y :: zip_add a' b' | _, _ => [] end.
Fixpoint cumsum_from (acc : list Z) (xs : list (list Z)) : list (list Z) :=
  match xs with [] => [] | x :: t => let a := zip_add acc x in a :: cumsum_from a t end.
Definition cumsum_axis (xs : list (list Z)) : list (list Z) :=
  match xs with [] => [] | x :: t => x :: cumsum_from x t end.
