(* C02, session 6 round 3: opset imports of a whole ModelProto, the bodies of its model-local functions included.
   model_imports_ok imports main funs (Graph/ModelImports.v) is what the harness evaluates on the real ModelProto of every
   accepted program: funs = [(opset_import of the FunctionProto, its body)] for every entry of model.functions.
   Statements only, each closed by `exact`. *)
From Coq Require Import List String Bool.
Require Import OV.Graph.Syntax OV.Graph.Wf OV.Graph.WfCompleteProofs OV.Graph.ModelImports OV.Graph.ModelImportsProofs.
Import ListNotations.

(* true <-> the model imports no domain twice; every domain used by a node (any nesting depth) of the main graph OR of the
   body of any function of the model is imported by the model; every function imports no domain twice and imports every
   domain its own body uses *)
Theorem C02_model_imports_declarative : forall imports main funs,
  model_imports_ok imports main funs = true <->
  (NoDup imports /\
   (forall d, (graph_uses main d \/ exists f, In f funs /\ graph_uses (snd f) d) -> In d imports) /\
   (forall f, In f funs -> NoDup (fst f) /\ forall d, graph_uses (snd f) d -> In d (fst f))).
Proof. exact model_imports_ok_declarative. Qed.
Print Assumptions C02_model_imports_declarative.

(* a `false` verdict names what is wrong and where *)
Theorem C02_model_imports_false : forall imports main funs,
  model_imports_ok imports main funs = false ->
  ~ NoDup imports
  \/ (exists d, graph_uses main d /\ ~ In d imports)
  \/ (exists f, In f funs /\ (~ NoDup (fst f) \/ exists d, graph_uses (snd f) d /\ (~ In d (fst f) \/ ~ In d imports))).
Proof. exact model_imports_ok_false. Qed.
Print Assumptions C02_model_imports_false.

(* the per-container verdicts (main graph against the model's imports, each function against its own) do not imply it *)
Theorem C02_per_container_imports_not_enough :
  exists imports main funs, imports_ok imports main = true /\ forallb (fun f => imports_ok (fst f) (snd f)) funs = true
                            /\ model_imports_ok imports main funs = false.
Proof. exact main_graph_verdict_not_enough. Qed.
Print Assumptions C02_per_container_imports_not_enough.

Theorem C02_model_domains_are_the_used_ones : forall main funs d,
  In d (model_domains main funs) <-> (graph_uses main d \/ exists f, In f funs /\ graph_uses (snd f) d).
Proof. exact model_domains_uses. Qed.
Print Assumptions C02_model_domains_are_the_used_ones.
