"""C10 -- models whose nodes carry explicit `version` stamps BELOW the opset the model imports.

This is what exporters produce: torch.onnx.export(dynamo=True) builds an ir.Model that imports opset 18 (or newer)
and stamps every node with the version in which its schema was introduced (Relu 14, Neg 13, If 16, Gemm 13, ...),
then calls onnxscript._framework_apis.torch_2_9.convert_version(model, target) (= version_converter.convert_version
with fallback=True).  /repo a75b415 refused every such model ("node.version < 18"); 78f42e9 repaired it
(finding C10:native:node-version-below-min-in-supported-model:refused).  This family would have caught it:

  * oracle: templates (plain / dft / gs / gn / if / func / mix: subgraphs and functions included) at import s in 18..24,
    every default-domain node stamped below the import (since-version of its schema at s; for operators without an
    adapter also any older since-version of the operator: 1, 6, 7, 11, 13, 14, ...), converted
      - natively (_version_converter.convert_version on the ir.Model, functions kept),
      - through version_converter.convert_version(ir.Model, t, fallback=False / True),
      - through onnxscript._framework_apis.torch_2_9.convert_version(model, t) (the property's anchor torch_2_9.py);
    must not raise, declare t (model, functions, nodes), be checker-valid at t, keep the signature and compute the same
    outputs on onnxruntime;
  * correspondence: the native runs (and models importing an opset below 18 with stamps above / below / absent, nodes of
    other domains holding default-domain nodes in subgraphs) against Model2.convert_native2 in the probed variant -- the
    stamps separate the a75b415 variant (MinNode) from the 78f42e9 one (MinDecl) in both directions;
  * torch_2_9.convert_version on unsupported requests (target below the source / above the supported maximum): never
    raises; the model is converted by the C API or left as it was, declared opset matching its nodes either way;
  * one real torch.onnx.export(dynamo=True) of a Linear module in a subprocess (when torch is importable).
"""
from __future__ import annotations

import json
import os
import subprocess
import sys

K_STAMPED = "C10:native:node-version-below-min-in-supported-model:refused"
WHAT_STAMPED = ("a model that imports a supported opset (18..25) whose nodes carry explicit version stamps below 18 (what "
                "torch.onnx.export(dynamo=True) produces: the since-version of each schema) is refused by the native converter "
                "(VersionConverterError 'opsets below 18 are not supported') although source and target are in the supported range")

NO_ADAPTER_OPS = {"Relu", "Neg", "Add", "Abs", "Identity", "Mul", "ReduceMax", "ReduceSum", "If", "Constant", "LeakyRelu"}
_HIST = {}


def history(op, s):
    """since-versions of the default-domain operator `op` that are <= s (ascending)"""
    import onnx.defs
    if op not in _HIST:
        _HIST[op] = sorted({x.since_version for x in onnx.defs.get_all_schemas_with_history() if x.name == op and x.domain == ""})
    return [v for v in _HIST[op] if v <= s]


def stamp_model(im, s_of, mode, rng):
    """write node.version on every default-domain node (graph, subgraphs, functions); returns the multiset of stamps"""
    import onnx_ir as ir
    stamps = []

    def one(n, s):
        if n.domain != "":
            return
        h = history(n.op_type, s)
        if not h:
            return
        if mode == "since" or n.op_type not in NO_ADAPTER_OPS:
            v = h[-1]
        elif mode == "older":
            v = rng.choice(h)
        else:           # mixed: some nodes keep version None
            v = rng.choice([None, h[-1], rng.choice(h)])
        n.version = v
        stamps.append(v)

    for n in ir.traversal.RecursiveGraphIterator(im.graph):
        one(n, s_of(None))
    for f in im.functions.values():
        for n in ir.traversal.RecursiveGraphIterator(f):
            one(n, s_of(f))
    return stamps


def _versions(im):
    import onnx_ir as ir
    out = [(n.op_type, n.version) for n in ir.traversal.RecursiveGraphIterator(im.graph) if n.domain == ""]
    for f in im.functions.values():
        out += [(n.op_type, n.version) for n in ir.traversal.RecursiveGraphIterator(f) if n.domain == ""]
    return out


def _convert(path, im, t):
    from onnxscript import version_converter
    from onnxscript._framework_apis import torch_2_9
    from onnxscript.version_converter import _version_converter as vc
    if path == "native":
        vc.convert_version(im, t)
        return im
    if path == "public0":
        version_converter.convert_version(im, t, fallback=False)
        return im
    if path == "public1":
        version_converter.convert_version(im, t, fallback=True)
        return im
    return torch_2_9.convert_version(im, t)


def oracle_case(ctx, H, st, fx, tn, prm, s, t, path, mode, seed, stats):
    """one stamped model through one entry; the request is supported (lo <= s <= t <= hi): it must convert"""
    import onnx_ir as ir
    cm = H.cm
    proto, spec = cm.TEMPLATES[tn][0](s, prm)
    feeds = cm.make_feeds(spec, seed)
    im = ir.from_proto(proto)
    import random
    stamps = stamp_model(im, lambda f: s, mode, random.Random(seed))      # from the case's own seed: ./check C10 --replay re-creates the same stamps
    below = sum(1 for v in stamps if v is not None and v < s)
    stats["stamped_nodes"] += len(stamps)
    stats["stamped_below_import"] += below
    stats["stamped_below_min"] += sum(1 for v in stamps if v is not None and v < st["lo"])
    before = H.x_model(im)
    h = H._quiet_logging()
    h.skips = 0
    base = {"family": "stamped", "template": tn, "params": prm, "s": s, "t": t, "path": path, "mode": mode, "seed": seed,
            "stamps": sorted({v for v in stamps if v is not None})}
    causes = H.known_causes(tn, prm, s, t, fx)
    err = None
    res = im
    try:
        res = _convert(path, im, t)
    except Exception as e:  # noqa: BLE001 -- the class is the observation
        err = e
    if path == "native":
        obs = ("raised", H.exc_class(err), H.x_model(im)) if err else ("done", H.x_model(im), h.skips)
        st["cases2"].append((f"({H.cbool(fx['own'])}, {H.cbool(fx['refuse'])}, {fx['minchk']}, {H.c_flags(fx)}, {H.c_model(before)}, {H.cz(t)}, "
                             f"{H.c_observed(obs)})", ("stamped", tn, s, t, mode)))
    ctx.case(("stamped", path, tn, mode, s == t, "err" if err else "ok", min([v for v in stamps if v is not None] or [s]) < st["lo"]))
    stats["oracle_cases"] += 1

    def flag(what, detail):
        rep = dict(base, what=what, detail=detail)
        if causes and what in ("outputs-differ", "fails-to-run-after", "checker", "node-versions"):
            for k in sorted(causes):
                ctx.violation(k, H.WHAT[k], rep)
        else:
            ctx.violation(f"C10:stamped:{path}:{tn}:{what}", f"stamped {tn} {s}->{t} via {path} (stamps {mode}): {detail}", rep)

    if err is not None:
        msg = f"{type(err).__name__}: {str(err)[:200]}"
        if H.exc_class(err) == "CVce" and "opsets below" in str(err) and below:
            ctx.violation(K_STAMPED, WHAT_STAMPED, dict(base, error=msg))
        else:
            flag("raises", msg)
        return
    if res is not im:
        flag("not-in-place", "the entry returned another model object")
    decl = im.opset_imports.get("")
    want = t
    if decl != want:
        flag("declared-opset", f"declares {decl}, expected {want}")
    fdecl = [f.opset_imports.get("") for f in im.functions.values()]
    if any(d != want for d in fdecl):
        flag("declared-opset", f"functions declare {fdecl}, expected {want}")
    # s == t: nothing to convert, the stamps (legitimately below the import) stay as they are
    bad = [(o, v) for o, v in _versions(im) if v not in (None, want)] if s < t else []
    if bad:
        flag("node-versions", f"default-domain nodes not at {want}: {bad[:4]}")
    after = ir.to_proto(im)
    sb, sa = H.signature(proto), H.signature(after)
    if sb[0] != sa[0] or sb[1] != sa[1]:
        flag("graph-signature", "graph inputs/outputs changed")
    lost = [k for k in sorted(sb[2]) if sa[2].get(k) != sb[2][k]]
    if lost:
        flag("initializers", f"initializer(s) {lost} lost or changed")
    ck_b, ck_a = H.checker(proto), H.checker(after)
    if ck_b is None and ck_a is not None:
        flag("checker", f"valid before, after: {ck_a}")
    rb, _ = H._try(H._ort, proto, feeds)
    if rb is None:
        stats["runtime_skipped"] += 1
        return
    ra, ea = H._try(H._ort, after, feeds)
    stats["executed"] += 1
    if ra is None:
        flag("fails-to-run-after", f"onnxruntime: ran before, after: {ea}")
    elif not H.same(rb, ra):
        flag("outputs-differ", "onnxruntime: outputs differ after conversion")


def _custom_holder(s, inner_stamp):
    """a node of another domain holding a default-domain node in a graph attribute (RecursiveGraphIterator enters it)"""
    import onnx_ir as ir
    from onnx import TensorProto as TP
    from onnx import helper
    body = helper.make_graph([helper.make_node("Relu", ["x"], ["b"])], "body", [], [helper.make_tensor_value_info("b", TP.FLOAT, [2])])
    g = helper.make_graph([helper.make_node("Holder", ["x"], ["y"], domain="osverif.custom", body=body)], "g",
                          [helper.make_tensor_value_info("x", TP.FLOAT, [2])], [helper.make_tensor_value_info("y", TP.FLOAT, [2])])
    m = helper.make_model(g, opset_imports=[helper.make_opsetid("", s), helper.make_opsetid("osverif.custom", 1)], ir_version=9)
    im = ir.from_proto(m)
    for n in ir.traversal.RecursiveGraphIterator(im.graph):
        if n.domain == "":
            n.version = inner_stamp
    return im


def _custom_only(s):
    import onnx_ir as ir
    from onnx import TensorProto as TP
    from onnx import helper
    g = helper.make_graph([helper.make_node("Thing", ["x"], ["y"], domain="osverif.custom")], "g",
                          [helper.make_tensor_value_info("x", TP.FLOAT, [2])], [helper.make_tensor_value_info("y", TP.FLOAT, [2])])
    return ir.from_proto(helper.make_model(g, opset_imports=[helper.make_opsetid("", s), helper.make_opsetid("osverif.custom", 1)], ir_version=9))


def variant_cases(ctx, H, st, fx, stats):
    """correspondence only: inputs on which the pre-check variants (none / node versions / import) differ"""
    import onnx_ir as ir

    def record(im, t, tag):
        before = H.x_model(im)
        obs, _ = H.run_native(im, t)
        st["cases2"].append((f"({H.cbool(fx['own'])}, {H.cbool(fx['refuse'])}, {fx['minchk']}, {H.c_flags(fx)}, {H.c_model(before)}, {H.cz(t)}, "
                             f"{H.c_observed(obs)})", ("stamped-variant",) + tag))
        ctx.case(("stamped-variant",) + tag[:2] + (obs[0],))
        stats["variant_cases"] += 1
        return obs

    lo = st["lo"]
    for s in (11, 13, 17, 18, 19):
        for stamp in (None, 1, 13, 17, 18, 20):
            for t in (18, 20, 25):
                # import s, every node stamped `stamp`
                im = ir.from_proto(H._low_model(s, "plain"))
                for n in im.graph:
                    n.version = stamp
                obs = record(im, t, ("uniform", s < lo, s, stamp, t))
                # the property on the repaired tree, directly: import below the minimum => refused, nothing modified
                if fx["minchk"] == "MinDecl" and s < lo and obs[0] != "raised":
                    ctx.violation("C10:stamped:import-below-min:not-refused", f"model importing {s} with nodes stamped {stamp}: native conversion to {t} "
                                  "returned normally", {"s": s, "stamp": stamp, "t": t})
    for s in (11, 17, 18):
        for stamp in (None, 13, 18):
            record(_custom_holder(s, stamp), 20, ("custom-holder", s < lo, s, stamp, 20))
        record(_custom_only(s), 20, ("custom-only", s < lo, s, None, 20))
    # a function importing an opset below the minimum inside a model importing a supported one, and the other way round
    from onnx import TensorProto as TP
    from onnx import helper
    for ms, fs in ((18, 11), (11, 18), (19, 17), (18, 18)):
        for stamp in (None, 13):
            fn = helper.make_function("local", "F", ["x"], ["y"], [helper.make_node("Relu", ["x"], ["y"])], opset_imports=[helper.make_opsetid("", fs)])
            g = helper.make_graph([helper.make_node("F", ["x"], ["y"], domain="local"), helper.make_node("Neg", ["y"], ["z"])], "g",
                                  [helper.make_tensor_value_info("x", TP.FLOAT, [2])], [helper.make_tensor_value_info("z", TP.FLOAT, [2])])
            im = ir.from_proto(helper.make_model(g, opset_imports=[helper.make_opsetid("", ms), helper.make_opsetid("local", 1)], functions=[fn], ir_version=9))
            for n in im.graph:
                if n.domain == "":
                    n.version = stamp
            for f in im.functions.values():
                for n in f:
                    n.version = stamp
            record(im, 20, ("function-import", ms < lo or fs < lo, (ms, fs), stamp, 20))


def torch_wrapper_unsupported(ctx, H, st, fx, stats):
    """torch_2_9.convert_version (fallback=True) on requests outside lo <= s <= t <= hi: never raises; converted by the C API (declares t,
    valid, same outputs) or left as it was (declares s, nodes as they were); declared opset matches the nodes either way"""
    import onnx_ir as ir
    from onnxscript._framework_apis import torch_2_9
    cm = H.cm
    rng = ctx.rng
    lo, hi = st["lo"], st["hi"]
    H._quiet_logging()
    reqs = [("plain", 20, 18), ("plain", 19, 17), ("plain", 18, 13), ("plain", 18, hi + 1), ("plain", 21, hi + 5), ("plain", 18, 0),
            ("if", 21, 19), ("func", 20, 18), ("dft", 20, 19), ("gs", 20, 19), ("gn", 21, 20), ("plain", 25, 24)]
    for tn, s, t in reqs:
        for mode in ("since", "none"):
            prm = cm.TEMPLATES[tn][1](rng, s)
            if tn == "gn":
                prm["shape"] = "static"
            if tn in ("if", "func"):
                prm["sub"] = "relu"
            proto, spec = cm.TEMPLATES[tn][0](s, prm)
            feeds = cm.make_feeds(spec, ctx.seed * 31 + s * 7 + t)
            im = ir.from_proto(proto)
            if mode == "since":
                stamp_model(im, lambda f: s, "since", rng)
            inl = H.inline_copy(proto)          # what the model looks like after the inlining that precedes the conversion
            if mode == "since":
                stamp_model(inl, lambda f: s, "since", rng)
            vers_inl = _versions(inl)
            base = {"family": "torch_2_9-unsupported", "template": tn, "params": prm, "s": s, "t": t, "stamps": mode}
            H._HANDLER.capi_fail = 0
            try:
                res = torch_2_9.convert_version(im, t)
            except Exception as e:  # noqa: BLE001
                ctx.violation(f"C10:torch_2_9:unsupported-request:raises", f"torch_2_9.convert_version({tn}@{s}, {t}) raised {type(e).__name__}: "
                              f"{str(e)[:160]} (the wrapper promises a C-API fallback that leaves the model as it was when it fails)", dict(base, error=str(e)[:300]))
                continue
            failed = H._HANDLER.capi_fail > 0
            decl = res.opset_imports.get("")
            vers = _versions(res)
            outcome = "unchanged" if failed else "converted"
            ctx.case(("torch_2_9-unsupported", tn, mode, t < s, t > hi, t < lo, outcome))
            stats["torch_unsupported"][outcome] = stats["torch_unsupported"].get(outcome, 0) + 1
            after = ir.to_proto(res)
            if res is not im:
                ctx.violation("C10:torch_2_9:unsupported-request:not-in-place", "torch_2_9.convert_version returned another object", base)
            if failed:
                # left as it was (modulo inlining / clean-up): declared s, node versions as they were
                if decl != s or sorted(map(repr, vers)) != sorted(map(repr, vers_inl)):
                    ctx.violation("C10:torch_2_9:unsupported-request:failed-but-modified", f"{tn} {s}->{t}: the C API failed but the model declares {decl} "
                                  f"with node versions {vers[:4]} (before: {vers_inl[:4]})", base)
                want = s
            else:
                if decl != t:
                    ctx.violation("C10:torch_2_9:unsupported-request:declared", f"{tn} {s}->{t}: converted by the C API but declares {decl}", base)
                want = t
            bad = [(o, v) for o, v in vers if v is not None and v != want and mode == "none"]
            if bad:
                ctx.violation("C10:torch_2_9:unsupported-request:node-versions", f"{tn} {s}->{t}: nodes {bad[:4]} under import {decl}", base)
            sb, sa = H.signature(proto), H.signature(after)
            if sb[0] != sa[0] or sb[1] != sa[1]:
                ctx.violation("C10:torch_2_9:unsupported-request:graph-signature", f"{tn} {s}->{t}: graph inputs/outputs changed ({outcome})", base)
            lost = [k for k in sorted(sb[2]) if sa[2].get(k) != sb[2][k]]
            if lost:
                ctx.violation("C10:torch_2_9:unsupported-request:initializers", f"{tn} {s}->{t}: initializer(s) {lost} lost or changed ({outcome})", base)
            ck_b, ck_a = H.checker(proto), H.checker(after)
            if ck_b is None and ck_a is not None:
                ctx.violation("C10:torch_2_9:unsupported-request:checker", f"{tn} {s}->{t} ({outcome}): valid before, after: {ck_a[:160]}", base)
            rb, _ = H._try(H._ort, proto, feeds)
            if rb is not None:
                ra, ea = H._try(H._ort, after, feeds)
                if ra is None:
                    if "NOT_IMPLEMENTED" in ea or "not implemented" in ea.lower() or "Unsupported model IR version" in ea or "opset" in ea.lower():
                        stats["runtime_skipped"] += 1
                    else:
                        ctx.violation("C10:torch_2_9:unsupported-request:fails-to-run-after", f"{tn} {s}->{t} ({outcome}): {ea[:160]}", base)
                elif not H.same(rb, ra):
                    ctx.violation("C10:torch_2_9:unsupported-request:outputs-differ", f"{tn} {s}->{t} ({outcome}): onnxruntime outputs differ", base)
                else:
                    stats["executed"] += 1


_EXPORT_SCRIPT = r"""
import json, sys, time, warnings
warnings.filterwarnings("ignore")
t0 = time.time()
out = {"torch": False}
try:
    import torch
    out["torch"] = True
except Exception as e:
    out["import_error"] = repr(e)[:200]
    print("OSVERIF " + json.dumps(out)); sys.exit(0)
import numpy as np
from onnxscript import version_converter
seen = []
_orig = version_converter.convert_version
def _spy(model, target_version, fallback=None):
    try:
        seen.append({"import": model.opset_imports.get(""), "target": target_version, "fallback": fallback,
                     "stamps": [[n.op_type, n.version] for n in model.graph if n.domain == ""]})
    except Exception as e:
        seen.append({"error": repr(e)})
    return _orig(model, target_version, fallback=fallback)
version_converter.convert_version = _spy
torch.manual_seed(0)
m = torch.nn.Linear(2, 2).eval()
x = torch.ones(1, 2)
try:
    ep = torch.onnx.export(m, (x,), dynamo=True, opset_version=TARGET, verbose=False)
    mp = ep.model_proto
    out["exported"] = True
    out["imports"] = [[o.domain, o.version] for o in mp.opset_import]
    out["ops"] = [n.op_type for n in mp.graph.node]
    import onnx
    try:
        onnx.checker.check_model(mp, full_check=True)
        out["checker"] = None
    except Exception as e:
        out["checker"] = str(e)[:200]
    import onnxruntime as ort
    so = ort.SessionOptions(); so.log_severity_level = 4
    s = ort.InferenceSession(mp.SerializeToString(), so, providers=["CPUExecutionProvider"])
    got = s.run(None, {mp.graph.input[0].name: x.numpy()})
    out["same"] = bool(np.allclose(got[0], m(x).detach().numpy(), atol=1e-5))
except Exception as e:
    out["exported"] = False
    out["error"] = (type(e).__name__ + ": " + str(e))[-600:]
out["seen"] = seen
out["seconds"] = round(time.time() - t0, 1)
print("OSVERIF " + json.dumps(out))
"""


def torch_export(ctx, H, st, stats):
    """one real torch.onnx.export(dynamo=True) of a tiny module, in a subprocess: the export must not raise, must declare the requested opset,
    pass the checker and compute what the module computes"""
    from harness import common
    target = 21
    env = dict(os.environ)
    env["PYTHONPATH"] = f"{common.REPO}:{env.get('PYTHONPATH', '')}"
    env["OMP_NUM_THREADS"] = "1"
    try:
        r = subprocess.run([sys.executable, "-c", _EXPORT_SCRIPT.replace("TARGET", str(target))], capture_output=True, text=True, timeout=240, env=env,
                           cwd=ctx.scratch if os.path.isdir(getattr(ctx, "scratch", "")) else "/tmp")
    except subprocess.TimeoutExpired:
        stats["torch_export"] = {"ran": False, "why": "timeout (240 s; machine load)"}
        return
    line = [ln for ln in r.stdout.splitlines() if ln.startswith("OSVERIF ")]
    if not line:
        ctx.tie_broken("harness", "torch-export", f"export subprocess gave no verdict: {r.stderr[-400:]}")
        return
    out = json.loads(line[-1][8:])
    if not out.get("torch"):
        stats["torch_export"] = {"ran": False, "why": "torch not importable: " + out.get("import_error", "")}
        return
    seen = out.get("seen", [])
    below = sum(1 for c in seen for _, v in c.get("stamps", []) if v is not None and c.get("import") is not None and v < c["import"])
    stats["torch_export"] = {"ran": True, "exported": out.get("exported"), "seconds": out.get("seconds"), "imports": out.get("imports"), "ops": out.get("ops"),
                             "convert_version_calls": seen, "nodes_stamped_below_import": below}
    ctx.case(("torch-export", out.get("exported"), below > 0))
    rep = {"family": "torch-export", "module": "Linear(2,2)", "opset_version": target, "result": out}
    if not out.get("exported"):
        err = out.get("error", "")
        if "opsets below" in err:
            ctx.violation(K_STAMPED, WHAT_STAMPED, rep)
        else:
            ctx.violation("C10:torch-export:raises", f"torch.onnx.export(Linear, dynamo=True, opset_version={target}) raised: {err[-200:]}", rep)
        return
    decl = [v for d, v in out.get("imports", []) if d == ""]
    if decl != [target]:
        ctx.violation("C10:torch-export:declared-opset", f"exported model declares {decl}, requested {target}", rep)
    if out.get("checker") is not None:
        ctx.violation("C10:torch-export:checker", f"exported model rejected by onnx.checker: {out['checker']}", rep)
    if out.get("same") is not True:
        ctx.violation("C10:torch-export:outputs-differ", "exported model does not compute what the module computes", rep)


def run(ctx, H, st, fx):
    rng = ctx.rng
    cm = H.cm
    lo, hi = st["lo"], st["hi"]
    stats = {"oracle_cases": 0, "variant_cases": 0, "stamped_nodes": 0, "stamped_below_import": 0, "stamped_below_min": 0, "executed": 0,
             "runtime_skipped": 0, "torch_unsupported": {}, "torch_export": None}
    paths = ["native", "public0", "public1", "torch29"]
    plan = []
    # every template x every entry at least once, sources 18..24
    for tn in cm.ORDER:
        for path in paths:
            s = rng.randint(lo, hi - 1)
            plan.append((tn, s, rng.randint(s + 1, hi), path, rng.choice(["since", "since", "older", "mixed"])))
    extra = 20 if ctx.tier == "quick" else 200
    for _ in range(extra):
        s = rng.randint(lo, hi - 1)
        plan.append((rng.choice(cm.ORDER), s, rng.randint(s, hi), rng.choice(paths), rng.choice(["since", "older", "mixed"])))
    # the smallest instance of the regression: import 18, target 20, since-version stamps, every entry
    for path in paths:
        plan.append(("plain", 18, 20, path, "since"))
    for i, (tn, s, t, path, mode) in enumerate(plan):
        prm = cm.TEMPLATES[tn][1](rng, s)
        if tn == "gn":
            prm["shape"] = "static"
        if tn == "func" and path == "native":
            prm["refattr"] = False           # reference attributes are refused by the native entry (the public entries inline first)
        oracle_case(ctx, H, st, fx, tn, prm, s, t, path, mode, ctx.seed * 9176 + i, stats)
    variant_cases(ctx, H, st, fx, stats)
    torch_wrapper_unsupported(ctx, H, st, fx, stats)
    torch_export(ctx, H, st, stats)
    ctx.cover(stamped_family=stats)
    ok = stats["stamped_below_min"] > 50 and stats["executed"] > 20
    ctx.obligation("oracle family `stamped`: models importing 18..24 whose nodes carry version stamps below the import (since-versions down to 1; "
                   "subgraphs and functions included) convert natively, through version_converter.convert_version(fallback off/on) and through "
                   "_framework_apis.torch_2_9.convert_version: no exception, declared opset = target (model, functions, nodes), checker, signature, "
                   "same onnxruntime outputs; torch_2_9.convert_version on unsupported requests never raises (converted by the C API or left as it was)",
                   ok, f"{stats['oracle_cases']} cases, {stats['stamped_below_min']} node stamps below {lo}, {stats['executed']} executions, "
                       f"unsupported: {stats['torch_unsupported']}")
    if not ok:
        ctx.tie_broken("harness", "stamped-family-degenerate", str({k: v for k, v in stats.items() if k != "torch_export"}))
    te = stats["torch_export"] or {}
    ctx.obligation("real torch.onnx.export(Linear, dynamo=True, opset_version=21) (subprocess): does not raise, declares 21, checker, same outputs as the module"
                   + ("" if te.get("ran") else " -- NOT RUN: " + str(te.get("why"))), (not te.get("ran")) or te.get("exported") is True,
                   f"{te.get('seconds')} s; nodes stamped below the import when convert_version was called: {te.get('nodes_stamped_below_import')}")
