"""C05 completeness obligation: every exported rewrite rule is mapped to a family with a theorem.

Regenerated on every run from the source that is being checked:
  * the names in onnxscript.rewriter.rules.common.__all__ (read from the package at run time AND from the AST of its
    __init__.py; the two must agree),
  * every module-level RewriteRule / RewriteRuleSet / list of rules of every non-test module of
    onnxscript.rewriter.rules.fusion,
  * every member of rewriter._DEFAULT_REWRITE_RULES (which is also what optimizer/_optimizer.py passes to RewritePass --
    checked on its AST), resolved to the rules.common module that defines it.
Each must appear in MAP below with the Props file and the theorem names that cover it, and every such theorem must exist
in that Props file (they are built and their assumptions printed by ctx.check_props()).  A new / renamed / removed rule,
a new module, or a theorem that disappeared is a broken translator tie, not silence.
"""
from __future__ import annotations

import ast
import importlib
import os
import pkgutil
import re

from harness import common

# export name (rules.common) or "fusion.<module>.<rule name>" -> (family, Props file, [theorems])
MAP = {
    "add_0_rule": ("noop", "C05_noop", ["C05_noop_exact_sound", "C05_noop_shape_sound"]),
    "sub_0_rule": ("noop", "C05_noop", ["C05_noop_exact_sound", "C05_noop_shape_sound"]),
    "mul_by_1_rule": ("noop", "C05_noop", ["C05_noop_exact_sound", "C05_noop_shape_sound"]),
    "div_by_1_rule": ("noop", "C05_noop", ["C05_noop_exact_sound", "C05_noop_shape_sound"]),
    "dropout_zero_rule": ("noop", "C05_noop", ["C05_noop_dropout_zero"]),
    "dropout_inference_rule": ("noop", "C05_noop", ["C05_noop_dropout_inference"]),
    "no_op_cast_rule": ("cast", "C05_noop", ["C05_noop_cast_identity", "C05_noop_cast_identity_unknown_dtype"]),
    "cast_cast_rule": ("cast", "C05_cast_scatter", ["C05_castcast_representable", "C05_castcast_double_rounding_refuted"]),
    "cast_constant_of_shape_rule": ("cast", "C05_cast_scatter", ["C05_cast_constant_of_shape", "C05_cast_constant_of_shape_int_value"]),
    "cast_constant_of_shape_without_value_rule": ("cast", "C05_cast_scatter", ["C05_cast_constant_of_shape"]),
    "no_op_static_scatter_nd_rule": ("scatter", "C05_cast_scatter", ["C05_scatter_all_static"]),
    "no_op_dynamic_scatter_nd_rule": ("scatter", "C05_cast_scatter", ["C05_scatter_all_dynamic"]),
    "collapse_slice_rule": ("slices", "C05_slices", ["C05_collapse_slice"]),
    "collapse_slice2_rule": ("slices", "C05_slices", ["C05_collapse_slice2", "C05_collapse_slice2_rule"]),
    "slice_split_rule": ("slices", "C05_slices", ["C05_slices_split_even"]),
    "no_op_expand_rule": ("expand", "C05_expand", ["C05_expand_identity"]),
    "expand_before_binary_op_rules": ("expand-binop (C09)", "C09", ["C09_expand_binop_s1_sound", "C09_expand_binop_s2_sound", "C09_expand_binop_s3_sound",
                                                                  "C09_expand_binop_shape_sound", "C09_expand_binop_values"]),
    "no_op_transpose_rule": ("transpose", "C05_transpose", ["C05_transpose_identity"]),
    "transpose_transpose_rule": ("transpose", "C05_transpose", ["C05_transpose_transpose", "C05_transpose_transpose_rewrite"]),
    "unsqueeze_unsqueeze_rule": ("unsqueeze", "C05_unsqueeze", ["C05_unsqueeze_unsqueeze"]),
    "reshape_reshape_rule": ("reshape", "C05_reshape", ["C05_reshape_reshape_partial", "C05_reshape_reshape_unannotated"]),
    "flatten_to_reshape_rule": ("reshape", "C05_reshape", ["C05_flatten_to_reshape_nonzero"]),
    "squeeze_reshape_1d_rule": ("reshape", "C05_reshape", ["C05_squeeze_reshape_1d"]),
    "materialize_reshape_shape_rule": ("reshape", "C05_reshape", ["C05_materialize_reshape_shape"]),
    "min_min_rule": ("minmax", "C05_minmax", ["C05_minmax_value_sound", "C05_minmax_clip_shape_sound"]),
    "max_max_rule": ("minmax", "C05_minmax", ["C05_minmax_value_sound", "C05_minmax_clip_shape_sound"]),
    "min_max_rule": ("minmax", "C05_minmax", ["C05_minmax_value_sound", "C05_minmax_clip_shape_sound"]),
    "max_min_rule": ("minmax", "C05_minmax", ["C05_minmax_value_sound", "C05_minmax_clip_shape_sound"]),
    "successive_relu_rule": ("clip", "C05", ["C05_successive_relu"]),
    "successive_clip_rule": ("clip", "C05", ["C05_successive_clip"]),
    "successive_clip_relu_rule": ("clip", "C05", ["C05_clip_relu"]),
    "successive_relu_clip_rule": ("clip", "C05", ["C05_relu_clip"]),
    "fuse_pad_into_conv_rule": ("padconv", "C05_padconv_nd", ["C05_padconv_nd_fuse_sound", "C05_padconv_nd_emitted_pads"]),
    "fuse_pad_into_conv_integer_rule": ("padconv", "C05_padconv_nd", ["C05_padconv_nd_convinteger_zero_point_0"]),
    "normalize_pad_format_conv_rule": ("padconv", "C05_padconv", ["C05_padconv_same_pads_output", "C05_padconv_compute_pads_fixed", "C05_padconv_same_pads_list"]),
    "normalize_pad_format_conv_integer_rule": ("padconv", "C05_padconv", ["C05_padconv_same_pads_output", "C05_padconv_compute_pads_fixed", "C05_padconv_same_pads_list"]),
    "fuse_batchnorm_into_conv_rule": ("batchnorm", "C05_batchnorm", ["C05_batchnorm_fold_inference", "C05_batchnorm_conv_axis"]),
    "fuse_batchnorm_into_conv_transpose_rule": ("batchnorm", "C05_batchnorm", ["C05_batchnorm_fold_inference", "C05_batchnorm_convtranspose_groups"]),
    "fuse_batchnorm_into_gemm_rule": ("batchnorm", "C05_batchnorm", ["C05_batchnorm_gemm_beta_one", "C05_batchnorm_gemm_axis_notrans", "C05_batchnorm_gemm_axis_trans"]),
    "affine_conv_fusion_rule": ("convaffine", "C05_convaffine", ["C05_convaffine_affine_then_conv"]),
    "conv_affine_fusion_rule": ("convaffine", "C05_convaffine", ["C05_convaffine_conv_then_affine", "C05_convaffine_fixed_rank_one"]),
    "fuse_hardswish_rules": ("hardswish", "C05_hardswish", ["C05_hardswish_identity", "C05_hardswish_hardsigmoid_identity", "C05_hardswish_from_hardsigmoid",
                                                           "C05_hardswish_fixed_check_sound"]),
    "gemm_to_matmul_add_rule": ("matmul", "C05_matmul", ["C05_matmul_gemm_is_add_matmul", "C05_matmul_gemm_to_matmul_add_c_sound", "C05_matmul_gemm_to_matmul_add_fixed_conditions"]),
    "matmul_add_to_gemm_rule": ("matmul", "C05_matmul", ["C05_matmul_add_to_gemm_fixed_sound", "C05_matmul_unidir_bcast"]),
    "transpose_a_matmul_add_to_gemm_rule": ("matmul", "C05_matmul", ["C05_matmul_add_to_gemm_fixed_sound", "C05_matmul_unidir_bcast"]),
    "transpose_b_matmul_add_to_gemm_rule": ("matmul", "C05_matmul", ["C05_matmul_add_to_gemm_fixed_sound", "C05_matmul_unidir_bcast"]),
    "transpose_ab_matmul_add_to_gemm_rule": ("matmul", "C05_matmul", ["C05_matmul_add_to_gemm_fixed_sound", "C05_matmul_unidir_bcast"]),
    # value equality of the reshape-matmul rules is REFUTED (known finding C05:matmul:reshape:operand-layout-changed); shapes proved
    "one_reshape_matmul_reshape_rule": ("matmul", "C05_matmul", ["C05_matmul_reshape_check_strict_total", "C05_matmul_reshape_values_refuted"]),
    "two_reshapes_matmul_reshape_rule": ("matmul", "C05_matmul", ["C05_matmul_reshape_check_strict_total", "C05_matmul_reshape_values_refuted"]),
    "remove_optional_bias_from_conv_rule": ("optbias", "C05_optbias", ["C05_optbias_conv_zero_bias", "C05_optbias_fixed_valid"]),
    "remove_optional_bias_from_conv_transpose_rule": ("optbias", "C05_optbias", ["C05_optbias_conv_zero_bias", "C05_optbias_fixed_valid"]),
    "remove_optional_bias_from_gemm_rule": ("optbias", "C05_optbias", ["C05_optbias_gemm_zero_c", "C05_optbias_fixed_valid"]),
    "remove_optional_bias_from_qlinear_conv_rule": ("optbias", "C05_optbias", ["C05_optbias_qlinearconv_zero_bias", "C05_optbias_fixed_valid"]),
    # ---- rules.fusion: module -> rule names (RewriteRule.name)
    "fusion._layer_norm.LayerNormFusion": ("fusion", "C05_fusion", ["C05_fusion_layer_norm", "C05_fusion_layer_norm_near_misses"]),
    "fusion._layer_norm.LayerNormBiasFusion": ("fusion", "C05_fusion", ["C05_fusion_layer_norm_bias"]),
    "fusion._rms_normalization.RmsNormFusion1": ("fusion", "C05_fusion", ["C05_fusion_rms_norm"]),
    "fusion._rms_normalization.RmsNormFusion2": ("fusion", "C05_fusion", ["C05_fusion_rms_norm"]),
    "fusion._rotary_embedding.RotaryEmbedding23": ("fusion", "C05_fusion", ["C05_fusion_rotary_embedding", "C05_fusion_rotary_near_misses"]),
    "fusion._rotary_embedding.PartialRotaryEmbedding23Fusion": ("fusion", "C05_fusion", ["C05_fusion_partial_rotary_embedding", "C05_fusion_rotary_near_misses"]),
    "fusion._gqa.ONNXGQA": ("fusion", "C05_fusion", ["C05_fusion_gqa_values_partial", "C05_fusion_gqa_values_total_partial", "C05_fusion_gqa_check_sufficient"]),
}


# export key -> the harness module whose host generator exercises it (a key missing here fails the obligation below)
GENERATOR = {"noop": "c05_fam_noop", "cast": "c05_fam_cast", "scatter": "c05_fam_scatter", "slices": "c05_fam_slices", "expand": "c05_fam_expand",
             "transpose": "c05_fam_transpose", "unsqueeze": "c05_fam_unsqueeze", "reshape": "c05_fam_reshape", "minmax": "c05_fam_minmax",
             "clip": "c05 (fam_clip)", "padconv": "c05_fam_padconv", "batchnorm": "c05_fam_batchnorm", "convaffine": "c05_fam_convaffine",
             "hardswish": "c05_fam_hardswish", "matmul": "c05_fam_matmul", "optbias": "c05_fam_optbias", "fusion": "c05_fam_fusion",
             "expand-binop (C09)": "c05_fam_expandbinop (oracle; theorems and the model correspondence are C09's)"}
# exercised by another property's harness (its own check counts them): not counted here
ELSEWHERE = {}
# floor of fired hosts per exported key and tier (a count of 0 is a rule whose theorem no firing host ties to the code)
FLOOR = {"quick": 1, "thorough": 1}


def _probe_dropout_inference():
    """`op.Dropout(x, training_mode=False)` asks for an ATTRIBUTE training_mode; no Dropout schema has one (it is an input since
    opset 12): the checker rejects every host the pattern could match, so no valid host fires the rule.  -> (ok, detail)"""
    import onnx
    from onnx import TensorProto, helper
    rejected = []
    for opset in (7, 10, 12, 13, 22):
        n = helper.make_node("Dropout", ["x"], ["y"], training_mode=0)
        g = helper.make_graph([n], "g", [helper.make_tensor_value_info("x", TensorProto.FLOAT, [3])], [helper.make_tensor_value_info("y", TensorProto.FLOAT, [3])])
        m = helper.make_model(g, opset_imports=[helper.make_opsetid("", opset)], ir_version=8)
        try:
            onnx.checker.check_model(m, full_check=True)
            rejected.append(False)
        except Exception:  # noqa: BLE001
            rejected.append(True)
    has_attr = any(a.name == "training_mode" for s_ in onnx.defs.get_all_schemas_with_history() if s_.name == "Dropout" and s_.domain == ""
                   for a in s_.attributes.values())
    return all(rejected) and not has_attr, f"checker rejects the attribute at opsets 7,10,12,13,22: {rejected}; a Dropout schema declares it: {has_attr}"


def _probe_slice_split():
    """The two-output pattern Slice(x,..), Slice(x,..) binds both pattern nodes to one graph node (observed by c05_fam_slices on every
    run); on the canonical valid host (x[2,4], two half Slices on the last axis, opset 18) the rule does not fire.  -> (ok, detail)"""
    import numpy as np
    from onnx import helper
    from harness import c05_basic_util as BU
    import onnxscript.rewriter.rules.common as rc
    d = 4
    inits = [BU.const_arr("b0", np.array([0], np.int64)), BU.const_arr("e0", np.array([d // 2], np.int64)),
             BU.const_arr("b1", np.array([d // 2], np.int64)), BU.const_arr("e1", np.array([d], np.int64)), BU.const_arr("ax", np.array([-1], np.int64))]
    nodes = [helper.make_node("Slice", ["x", "b0", "e0", "ax"], ["y0"]), helper.make_node("Slice", ["x", "b1", "e1", "ax"], ["y1"])]
    host = BU.model(nodes, [("x", "float32", [2, d])], [("y0", "float32", [2, 2]), ("y1", "float32", [2, 2])], inits=inits, opset=18)
    new = BU.apply_rule(host, [rc.slice_split_rule])
    return "Split" not in BU.ops(new), f"ops after applying slice_split_rule to the canonical host: {BU.ops(new)}"


# rules that no valid host can fire, with the probe that re-establishes the reason on every run; a rule listed here that DOES fire
# (count > 0) or whose probe fails is reported: the exemption is then stale
UNFIREABLE = {
    "dropout_inference_rule": ("pattern requires an attribute `training_mode`, which no Dropout schema has: every matching host is checker-invalid", _probe_dropout_inference),
    "slice_split_rule": ("two-output pattern binds both Slice pattern nodes to one graph node: the rule does not fire on two half Slices (dead rule, see C05:slicesplit:*)", _probe_slice_split),
}


def fired_counts(ctx, found):
    """Every exported rule is mapped to its host generator and must have FIRED in this run (all C05 families run before this
    one; counts come from the hook c05.install_fired_counter on RewriteRule.try_rewrite)."""
    from harness import c05 as base
    per_key, per_object, zero_objects, no_gen = {}, {}, [], []
    for k, rs in sorted(found.items()):
        fam = MAP[k][0] if k in MAP else None
        if fam in ELSEWHERE:
            per_key[k] = f"counted by {ELSEWHERE[fam]}"
            continue
        if fam not in GENERATOR:
            no_gen.append(k)
            continue
        tot = 0
        for r in rs:
            n = base.FIRED.get(base.rule_sig(r), 0)
            tot += n
            if len(rs) > 1:
                per_object[f"{k}[{r.name or '?'}:{abs(hash(base.rule_sig(r)[1])) % 10000}]"] = n
                if n == 0:
                    zero_objects.append(f"{k}[{r.name}]")
        per_key[k] = tot
    floor = FLOOR.get(ctx.tier, 1)
    exempt = {}
    for k, (why, probe) in UNFIREABLE.items():
        if k not in per_key or not isinstance(per_key[k], int):
            continue
        try:
            okp, detail = probe()
        except Exception as e:  # noqa: BLE001
            okp, detail = False, f"probe raised {e!r}"
        if per_key[k] > 0 or not okp:
            ctx.tie_broken("harness", "c05-rule-inventory", f"{k} is listed as unfireable ({why}) but fired {per_key[k]} time(s) / probe: {detail}")
        exempt[k] = {"fired": per_key[k], "reason": why, "probe": detail, "probe_ok": okp}
        per_key[k] = f"exempt ({per_key[k]} fired): {why}"
    ctx.obligation("inventory: every rule exempted from the fired-count floor is unfireable for the stated reason (probe re-run now) and did not fire",
                   all(v["probe_ok"] and v["fired"] == 0 for v in exempt.values()), json_short(exempt))
    low = sorted(k for k, v in per_key.items() if isinstance(v, int) and v < floor)
    ctx.cover(inventory_fired_per_rule=per_key, inventory_unfireable=exempt, inventory_fired_per_rule_object=per_object, inventory_rule_objects_never_fired=zero_objects,
              inventory_generator_of_family=GENERATOR)
    ctx.obligation("inventory: every exported rule is mapped to a host generator (family harness module)", not no_gen, "; ".join(no_gen))
    for k in no_gen:
        ctx.tie_broken("harness", "c05-rule-inventory", f"exported rule {k} has no host generator in GENERATOR")
    ok = not low
    ctx.obligation(f"generator not degenerate: every exported rule fired on at least {floor} generated host(s) in this run "
                   f"(per-rule counts in coverage.inventory_fired_per_rule)", ok,
                   ("never / too rarely fired: " + "; ".join(f"{k}={per_key[k]}" for k in low)) if low else
                   f"min {min(v for v in per_key.values() if isinstance(v, int))} over {sum(1 for v in per_key.values() if isinstance(v, int))} rules")
    for k in low:
        ctx.tie_broken("harness", "generator degenerate", f"rule {k} ({GENERATOR.get(MAP[k][0])}) fired {per_key[k]} time(s) in the {ctx.tier} tier, floor {floor}: "
                       "its theorem is not tied to the implementation by any firing host")


def json_short(o):
    import json
    return json.dumps(o, default=str)[:600]


def _rules_of(obj, rr):
    if isinstance(obj, rr.RewriteRule):
        return [obj]
    if isinstance(obj, rr.RewriteRuleSet):
        return list(obj.rules)
    if isinstance(obj, (list, tuple)) and obj and all(isinstance(x, rr.RewriteRule) for x in obj):
        return list(obj)
    return None


def _ast_all(path):
    tree = ast.parse(open(path).read())
    for node in tree.body:
        if isinstance(node, ast.Assign) and any(isinstance(t, ast.Name) and t.id == "__all__" for t in node.targets):
            return [ast.literal_eval(e) for e in node.value.elts]
    return None


def family(ctx):
    import onnxscript.rewriter as rewriter
    import onnxscript.rewriter.rules.common as rc
    import onnxscript.rewriter.rules.fusion as rf
    from onnxscript.rewriter import _rewrite_rule as rr

    broken = []
    found = {}            # key -> list of rule objects
    # ---- rules.common.__all__ : run time and AST must agree
    ast_all = _ast_all(os.path.join(os.path.dirname(rc.__file__), "__init__.py"))
    if ast_all is None or sorted(ast_all) != sorted(rc.__all__):
        broken.append(f"rules/common/__init__.py: __all__ read from the AST ({None if ast_all is None else len(ast_all)} names) differs from the run-time value ({len(rc.__all__)})")
    for name in rc.__all__:
        obj = getattr(rc, name, None)
        rs = _rules_of(obj, rr)
        if rs is None and callable(obj):
            try:
                rs = _rules_of(obj(), rr)
            except Exception as e:  # noqa: BLE001
                rs = None
        if rs is None:
            broken.append(f"rules.common.{name}: not a RewriteRule / RewriteRuleSet / rule list / factory of one ({type(obj).__name__})")
            continue
        found[name] = rs
    # ---- rules.fusion: every non-test module, every module-level rule object
    for m in sorted(pkgutil.iter_modules(rf.__path__), key=lambda m: m.name):
        if m.name.endswith("_test"):
            continue
        mod = importlib.import_module("onnxscript.rewriter.rules.fusion." + m.name)
        n_here = 0
        for k, v in sorted(vars(mod).items()):
            rs = _rules_of(v, rr)
            for r in rs or []:
                nm = getattr(r, "name", None) or k
                found.setdefault(f"fusion.{m.name}.{nm}", []).append(r)
                n_here += 1
        if n_here == 0:
            broken.append(f"rules/fusion/{m.name}.py exports no rule object this translator recognises")
    for name in getattr(rf, "__all__", []) or []:
        broken.append(f"rules.fusion.__all__ now lists {name}: the translator assumes an empty package __init__")
    # ---- default rule set and the optimizer
    by_id = {}
    for k, rs in found.items():
        for r in rs:
            by_id.setdefault(id(r), k)
    default_unmapped = []
    default_fams = {}
    for r in rewriter._DEFAULT_REWRITE_RULES:
        k = by_id.get(id(r))
        if k is None:
            # commuted copies / rule-set members that are not exported by name: resolve through the defining module
            modname = None
            for mk, mv in vars(rc).items():
                if mk.startswith("_") and hasattr(mv, "__name__") and hasattr(mv, "__dict__"):
                    for vv in vars(mv).values():
                        rs = _rules_of(vv, rr)
                        if rs and any(x is r for x in rs):
                            modname = mk
            fam = {"_no_op": "noop", "_basic_rules": None, "_min_max_to_clip": "minmax", "_fuse_relus_clips": "clip"}.get(modname)
            if fam is None:
                default_unmapped.append(f"{getattr(r, 'name', None)} ({type(r).__name__}, defined in {modname})")
                continue
            default_fams[fam] = default_fams.get(fam, 0) + 1
        else:
            default_fams[MAP[k][0] if k in MAP else "?"] = default_fams.get(MAP[k][0] if k in MAP else "?", 0) + 1
    for d in default_unmapped:
        broken.append(f"rewriter._DEFAULT_REWRITE_RULES member not exported by rules.common and not resolvable to a mapped family: {d}")
    opt_src = open(os.path.join(os.path.dirname(os.path.dirname(rewriter.__file__)), "optimizer", "_optimizer.py")).read()
    used = set()
    for node in ast.walk(ast.parse(opt_src)):
        if isinstance(node, ast.Call) and isinstance(node.func, ast.Attribute) and node.func.attr == "RewritePass":
            for a in node.args:
                used.add(ast.unparse(a))
    if used != {"rewriter._DEFAULT_REWRITE_RULES"}:
        broken.append(f"optimizer/_optimizer.py passes {sorted(used)} to RewritePass; expected exactly rewriter._DEFAULT_REWRITE_RULES")
    # ---- every found key mapped; every mapped key found; every theorem present
    for k in sorted(found):
        if k not in MAP:
            broken.append(f"exported rule {k} ({len(found[k])} rule object(s)) has no family/theorem in harness/c05_fam_zz_inventory.MAP")
    for k in sorted(MAP):
        if k not in found:
            broken.append(f"MAP lists {k} but the source no longer exports it (renamed or removed)")
    props_dir = os.path.join(common.COQ, "Props")
    thm_cache = {}
    n_thm = 0
    for k, (fam, pfile, thms) in sorted(MAP.items()):
        if pfile not in thm_cache:
            p = os.path.join(props_dir, pfile + ".v")
            thm_cache[pfile] = set(re.findall(r"^Theorem\s+([A-Za-z0-9_]+)", open(p).read(), re.M)) if os.path.exists(p) else None
        if thm_cache[pfile] is None:
            broken.append(f"{k}: Props/{pfile}.v does not exist")
            continue
        for t in thms:
            n_thm += 1
            if t not in thm_cache[pfile]:
                broken.append(f"{k}: theorem {t} not found in Props/{pfile}.v")
    for b in broken[:12]:
        ctx.tie_broken("translator", "c05-rule-inventory", b)
    n_rules = sum(len(v) for v in found.values())
    ctx.obligation(f"completeness: every rule exported by rules.common.__all__ ({len(rc.__all__)} names), rules.fusion ({sum(1 for k in found if k.startswith('fusion.'))} rules) "
                   f"and every member of rewriter._DEFAULT_REWRITE_RULES ({len(rewriter._DEFAULT_REWRITE_RULES)}, = the optimizer's rule set) is mapped to a family with existing theorems "
                   f"({n_rules} rule objects, {len(MAP)} keys, {n_thm} theorem references)", not broken, "; ".join(broken[:4]))
    ctx.cover(inventory_rule_objects=n_rules, inventory_keys=len(found), inventory_default_rules=len(rewriter._DEFAULT_REWRITE_RULES),
              inventory_default_by_family=default_fams)
    ctx.case(("inventory", len(found), n_rules))
    fired_counts(ctx, found)
    if "C09" in {v[1] for v in MAP.values()}:
        ctx.trust("expand_before_binary_op_rules (38 rules) are covered by the C09 theorems (Props/C09.v), built and checked by ./check C09")
