"""C13 -- ONNX -> Python (proto2python) -> ONNX round-trips to an equivalent model (DESIGN.md section 5, C13).

Proof side   coq/Export/Cleanup.v (+Proofs): the exporter's name clean-up and short-name mapper, for all strings;
             coq/Export/Unssa.v (+Proofs): the assignments emitted for an ONNX Loop compute the loop-carried values;
             coq/Export/Emit.v (+Proofs): the statements emitted for a straight-line graph, and `export_sound`:
             eval_script (export_graph g) = eval_graph g for every kernel semantics (Props/C13_emit.v);
             coq/Export/EmitCF.v (+Proofs): the statements emitted for NESTED graphs (If, Loop, un-SSA assignments, remapping scope,
             use_operators / inline_const / skip_initializers) and `export_cf_sound`: the same round trip for If and while-form Loop
             bodies nested to any depth (Props/C13_nested.v).
Tie          translator: keyword list / operator table of onnx_export.py -> coq/Gen/ExportTables.v (theorems re-proved
             against it); correspondence: real `_cleanup_variable_name` and `_make_short_name_mapper` vs the Gallina
             model on generated ASCII strings; verified checker `collision_freeb` evaluated in Coq on the real names
             of every generated model; the statements the real proto2python prints for straight-line models and
             functions (parsed back with `ast`) vs `export_graph` on the same graph, compared inside Coq (harness/c13_emit.py);
             the statement structure printed for models / functions with If and Loop (depth <= 2) under the structure-changing options
             vs `export_cf`, compared inside Coq on the AST (harness/c13_cf.py).
Direct oracle generated models / functions / script functions x export options: proto2python -> ast.parse -> exec ->
             to_model_proto -> same interface -> same outputs on onnxruntime (ORT_DISABLE_ALL) on >= 3 feeds.
"""
from __future__ import annotations

import itertools
import json
import keyword
import re
import string

import numpy as np

from harness import c13_gen as G
from harness import c13_rt as R
from harness import c13_streams as S
from harness import c13_tables as T
from harness import common
from harness.common import clist, cstr

PROPERTY = "C13"
LEVEL = "proof"

OPT_NAMES = ("rename", "use_operators", "inline_const", "skip_initializers")
ALL_OPTS = [dict(zip(OPT_NAMES, t)) for t in itertools.product([False, True], repeat=4)]


def opt_tag(o):
    return "+".join(k for k in OPT_NAMES if o.get(k)) or "default"


# ----------------------------------------------------------------------------------------------- translator

def regenerate(ctx):
    try:
        tab = T.extract()
    except (T.TranslatorError, SyntaxError, OSError) as e:
        ctx.tie_broken("translator", "onnxscript/backend/onnx_export.py", f"{type(e).__name__}: {e}")
        return None
    ctx.gen("ExportTables", T.coq_text(tab))
    return tab


# ----------------------------------------------------------------------------------------------- analysis of a proto
# (an independent reading of the model; deliberately not importing the exporter's helper predicates)

def _names_in_node(n, acc):
    acc.update(n.input)
    acc.update(n.output)
    for a in n.attribute:
        if a.HasField("g"):
            _names_in_graph(a.g, acc)
        for g in a.graphs:
            _names_in_graph(g, acc)


def _names_in_graph(g, acc):
    acc.update(x.name for x in g.input)
    acc.update(x.name for x in g.output)
    acc.update(x.name for x in g.initializer)
    for n in g.node:
        _names_in_node(n, acc)


def _tensor_inlinable(t):
    from onnx import TensorProto as TP
    if t.data_type not in (TP.FLOAT, TP.INT64):
        return False
    return len(t.dims) == 0 or (len(t.dims) == 1 and t.dims[0] < 5)


def _tensor_nonfinite(t):
    import onnx
    a = onnx.numpy_helper.to_array(t)
    return a.dtype.kind == "f" and not np.all(np.isfinite(a))


def analyze(proto):
    import onnx
    info = {"is_model": isinstance(proto, onnx.ModelProto), "pure_for": 0, "for_with_cond": 0, "no_stop": 0, "while": 0,
            "swap": 0, "ifs": 0, "nodes": 0, "depth": 0, "inlinable_nodes": set(), "inlinable_inits": set(),
            "nonfinite_inlinable": False, "nonfinite_any": False, "sources": set(), "large_inits": 0, "inits": 0,
            "optional_inputs": 0, "optional_outputs": 0, "attr_params": 0, "node_names": 0, "empty_inlinable": False,
            "neg_scalars": set(), "neg_pow_base": False}

    def _neg_scalar(t):
        import onnx
        if not _tensor_inlinable(t) or len(t.dims) != 0:
            return False
        a = onnx.numpy_helper.to_array(t)
        return bool(np.signbit(a)) if a.dtype.kind == "f" else bool(a < 0)

    def graph(g, depth):
        info["depth"] = max(info["depth"], depth)
        for init in getattr(g, "initializer", []):
            info["inits"] += 1
            size = 1
            for d in init.dims:
                size *= d
            if size > 4:
                info["large_inits"] += 1
            if _neg_scalar(init):
                info["neg_scalars"].add(init.name)
            if _tensor_inlinable(init):
                info["inlinable_inits"].add(init.name)
                info["empty_inlinable"] |= list(init.dims) == [0]
                if _tensor_nonfinite(init):
                    info["nonfinite_inlinable"] = True
            if _tensor_nonfinite(init):
                info["nonfinite_any"] = True
        nodes(g.node, depth)
        info["sources"].update(o.name for o in g.output)

    def nodes(ns, depth):
        for n in ns:
            info["nodes"] += 1
            info["node_names"] += bool(n.name)
            info["optional_inputs"] += "" in list(n.input)
            info["optional_outputs"] += "" in list(n.output)
            if n.op_type == "Constant" and len(n.attribute) == 1 and n.attribute[0].HasField("t"):
                t = n.attribute[0].t
                if _neg_scalar(t):
                    info["neg_scalars"].add(n.output[0])
                if _tensor_inlinable(t):
                    info["inlinable_nodes"].add(n.output[0])
                    info["empty_inlinable"] |= list(t.dims) == [0]
                    if _tensor_nonfinite(t):
                        info["nonfinite_inlinable"] = True
                if _tensor_nonfinite(t):
                    info["nonfinite_any"] = True
            if n.op_type == "Pow" and len(n.input) == 2 and n.input[0] in info["neg_scalars"]:
                info["neg_pow_base"] = True
            if n.op_type == "If":
                info["ifs"] += 1
            if n.op_type == "Loop":
                body = [a.g for a in n.attribute if a.name == "body"][0]
                has0 = len(n.input) > 0 and n.input[0] != ""
                has1 = len(n.input) > 1 and n.input[1] != ""
                used = set()
                for bn in body.node:
                    _names_in_node(bn, used)
                use_iter = has0 or body.input[0].name in used
                cin, cout = body.input[1].name, body.output[0].name
                cond_used = False
                for bn in body.node:
                    if bn.op_type == "Identity" and list(bn.input) == [cin] and list(bn.output) == [cout]:
                        continue
                    u = set()
                    _names_in_node(bn, u)
                    if cin in u or cout in u:
                        cond_used = True
                use_cond = has1 or cond_used
                if use_iter and not use_cond:
                    info["pure_for"] += 1
                elif use_iter and use_cond:
                    info["for_with_cond"] += 1
                elif use_cond:
                    info["while"] += 1
                else:
                    info["no_stop"] += 1
                formal_ins = [i.name for i in body.input[2:]]
                formal_outs = [o.name for o in body.output[1:1 + max(len(n.input) - 2, 0)]]
                # sequential `formal_in[k] = formal_out[k]`: hazard when a later right-hand side is an earlier target
                for j, fo in enumerate(formal_outs):
                    if fo in formal_ins[:j]:
                        info["swap"] += 1
                info["sources"].update(x for x in n.input if x)
            for a in n.attribute:
                if a.HasField("g"):
                    graph(a.g, depth + 1)

    if info["is_model"]:
        graph(proto.graph, 0)
    else:
        nodes(proto.node, 0)
        info["sources"].update(proto.output)
        info["attr_params"] = len(proto.attribute)
    info["const_sources"] = info["sources"] & (info["inlinable_nodes"] | info["inlinable_inits"])
    return info


# ----------------------------------------------------------------------------------------------- failure classes

KNOWN_CLASSES = {
    "C13:rename:model-signature-not-renamed":
        "rename=True on a ModelProto: the def line keeps the cleaned input names while the body uses v1, v2, ... (Unbound name)",
    "C13:rename:initializer-renamed-twice":
        "rename=True on a model with initializers (visible once the signature is renamed): the Constant emitted for an initializer is named by "
        "renaming the already renamed name, so it is defined as v<k+1> and referenced as v<k> (Unbound name)",
    "C13:skip_initializers:no-large-initializer:indented-source":
        "skip_initializers=True on a model without an initializer of more than 4 elements: the function is emitted indented at module level (IndentationError)",
    "C13:loop:counted-loop-in-model-graph:IndexError":
        "Loop with a trip count and no condition inside a ModelProto graph: _name_remappings is empty outside _translate_function (IndexError: list index out of range)",
    "C13:loop:trip-count-and-condition:not-reconvertible":
        "Loop using both the iteration count and a condition is printed as `for ..: if not cond: break` at the top of the body, which the converter rejects",
    "C13:loop:body-output-is-body-input:sequential-assignment":
        "Loop body returning one of its own inputs at a later position: `a = b; b = a` emitted sequentially, the second state variable silently gets the wrong value",
    "C13:inline_const:non-finite-literal":
        "inline_const=True prints a nan/inf constant as the bare name nan / inf (Unbound name)",
    "C13:inline_const:constant-used-as-assignment-source":
        "inline_const=True drops a Constant node whose output is later the right-hand side of an emitted assignment / return / range() (Unbound name)",
    "C13:inline_const:initializer-renamed":
        "inline_const=True records an inlined initializer under its translated name but looks it up under the ONNX name: references stay unbound when the two differ",
    "C13:inline_const:empty-list-literal":
        "inline_const=True prints a FLOAT/INT64 constant of shape [0] as the literal [], which the converter cannot type "
        "(dtype must be specified when value is an empty sequence)",
    "C13:use_operators:negative-literal-pow-base:precedence":
        "use_operators=True with inline_const=True prints Pow(c, x) with a negative scalar constant c as `y = -2.0 ** x`, which Python reads as "
        "-(2.0 ** x): the exported function computes something else",
    "C13:use_operators:operator-name-of-another-domain:printed-as-python-operator":
        "use_operators=True prints a node as a python operator whenever its op_type is in the table, whatever its domain: a model-local function or "
        "custom operator called Add / Sub / ... is printed as `a + b`, which the converter reads as the ONNX operator -- the regenerated model computes something else",
    "C13:use_operators:no-opset-call-left":
        "use_operators=True on a function all of whose nodes print as Python operators: no opset is mentioned and @script() has no default_opset",
    "C13:names:collision-after-cleanup:silently-merged":
        "two ONNX values whose names coincide after _cleanup_variable_name become one Python variable: the re-translated model computes something else or is invalid",
    "C13:names:collision-after-cleanup:error-only-at-exec":
        "two ONNX names coinciding after clean-up are not reported by proto2python; the generated source fails only when executed (e.g. duplicate argument)",
    "C13:names:missing-output-placeholder-collides":
        "an omitted node output is printed as the variable _<index>; a real value named _<index> is silently overwritten by it",
    "C13:names:non-ascii-alnum-not-identifier":
        "a non-ASCII character for which str.isalnum() holds but which cannot occur in an identifier (e.g. superscript two) is kept: SyntaxError",
    "C13:inline_const:name-reused-in-sibling-subgraph:stale-literal":
        "inline_const=True: _Exporter.constants is keyed by ONNX name and never scoped or reset: a constant `c` inlined in one subgraph (then-branch, "
        "a Loop body) is substituted for a different, non-inlinable value called `c` of a sibling subgraph (ONNX scopes names to the subgraph), and a "
        "function's inlined constant replaces a main-graph value of that name -- minimal input: If(b) then {c = Constant(3.0); t = x * c} else "
        "{c = Constant(float[1,3] 23.0); e = ReduceSum(x * c, [0])}, b = False, x = [1, 1, 1]: original 23.0, regenerated (`e0 = Mul(x, 3.0)`) 3.0",
    "C13:skip_initializers:name-of-skipped-initializer-bound-elsewhere:parameter-shadowed":
        "skip_initializers=True: an initializer of more than 4 elements becomes a parameter of make_model under its Python name while a value of the "
        "same ONNX name in a sibling subgraph (a small initializer, a node output) is still assigned inside the function: Python makes the name a local "
        "of the function, the branch that should read the parameter reads an unbound / other variable (converter: Unbound name) -- minimal input: "
        "If(b) then {w = float[1] initializer; t = x - w} else {w = float[2,3] initializer; e = x - w}; only two SKIPPED initializers of one name are refused",
    "C13:attributes:string-tensor-containing-nan-or-inf:text-rewritten":
        "_translate_attributes applies .replace('nan', 'np.nan').replace('inf', 'np.inf') to the printed element list of every tensor attribute, STRING "
        "tensors included: Constant(value = [\"banana\", \"info\"]) is regenerated as [\"banp.nana\", \"np.info\"]",
    "C13:skip_initializers:value-info-type-not-imported:NameError":
        "skip_initializers=True prints `value_infos = {name: TYPE[...]}` for graph.value_info but imports only the element types of graph inputs / outputs: "
        "a value_info of another element type (INT64 for a Shape result of a FLOAT model) gives NameError when the module is executed",
    "C13:comments:node-name-with-line-break:code-injected":
        "a node name is appended as `  # <name>`; a line break in the name ends the comment and the rest of the name becomes program text",
    "C13:docstring:quotes-or-trailing-backslash:SyntaxError":
        "graph.doc_string / function doc_string is pasted between triple quotes; a doc string containing three double quotes, or ending in a double quote "
        "or a backslash, gives source that is not valid Python",
}


def classify(case, info, collide, opts, out, cleanup):
    """-> class key of a failed round trip (a key of KNOWN_CLASSES when the symptom matches a catalogued defect
    class of this input, otherwise a key describing the unexpected failure)."""
    stage, exc, msg = out["stage"], out["exc"], out["msg"]
    is_model = info["is_model"]
    if stage == "syntax" and exc == "IndentationError" and opts["skip_initializers"] and is_model and info["large_inits"] == 0:
        return "C13:skip_initializers:no-large-initializer:indented-source"
    if stage == "export" and exc == "IndexError" and is_model and info["pure_for"]:
        return "C13:loop:counted-loop-in-model-graph:IndexError"
    if stage in ("mismatch", "to_proto") and opts["skip_initializers"] and case.get("dup_skipped"):
        return "C13:skip_initializers:same-name-initializers-of-different-graphs:one-make_model-parameter"
    if is_model and stage != "export":
        from harness import c13_subinit as SI
        feat = SI.reuse_features(case["proto"])
        if opts["skip_initializers"] and feat["skipped_assigned"] and (((("Unbound name" in msg) or ("has no value before the loop" in msg)) and stage in ("exec", "to_proto")) or stage in ("mismatch", "load", "run")):
            return "C13:skip_initializers:name-of-skipped-initializer-bound-elsewhere:parameter-shadowed"
        if opts["inline_const"] and feat["inline_stale"] and stage in ("mismatch", "load", "run", "to_proto", "exec"):
            return "C13:inline_const:name-reused-in-sibling-subgraph:stale-literal"
        if stage in ("mismatch", "exec", "to_proto", "load", "run", "syntax") and SI.string_tensor_with_nan_inf(case["proto"]):
            return "C13:attributes:string-tensor-containing-nan-or-inf:text-rewritten"
        if stage == "exec" and exc == "NameError" and opts["skip_initializers"] and SI.value_info_types_not_in_interface(case["proto"]):
            return "C13:skip_initializers:value-info-type-not-imported:NameError"
    unbound = re.search(r"Unbound name: (.*?)\. \|", msg) if (stage in ("exec", "to_proto") and exc == "ValueError") else None
    if unbound:
        name = unbound.group(1)
        if opts["rename"] and is_model and re.fullmatch(r"v\d+", name):
            m = re.search(r"@script\([^\n]*\)\n\s*def \w+\(([^)]*)\)", out["code"] or "")
            signature_renamed = bool(m) and re.match(r"\s*(v\d+\b|$)", m.group(1)) is not None
            if not signature_renamed:
                return "C13:rename:model-signature-not-renamed"
            if info["inits"]:
                return "C13:rename:initializer-renamed-twice"
        if opts["inline_const"]:
            if name in ("nan", "inf") and info["nonfinite_inlinable"]:
                return "C13:inline_const:non-finite-literal"
            py = (lambda n: cleanup(n)) if not opts["rename"] else None
            if py is not None:
                if any(py(n) == name and py(n) != n for n in info["inlinable_inits"]):
                    return "C13:inline_const:initializer-renamed"
                if any(py(n) == name for n in info["const_sources"]):
                    return "C13:inline_const:constant-used-as-assignment-source"
            else:
                if info["const_sources"]:
                    return "C13:inline_const:constant-used-as-assignment-source"
    if stage in ("exec", "to_proto") and opts["inline_const"] and info["nonfinite_inlinable"] and re.search(r"Unsupported expression type", msg):
        return "C13:inline_const:non-finite-literal"  # [1.0, nan] is not a constant expression either
    if stage in ("exec", "to_proto") and opts["inline_const"] and info["empty_inlinable"] and "empty sequence" in msg:
        return "C13:inline_const:empty-list-literal"
    if stage in ("exec", "to_proto") and exc == "TranslationError" and "Instruction break" in msg and info["for_with_cond"]:
        return "C13:loop:trip-count-and-condition:not-reconvertible"
    if stage in ("exec", "to_proto") and exc == "RuntimeError" and "default_opset must be specified" in msg and opts["use_operators"]:
        return "C13:use_operators:no-opset-call-left"
    if stage == "mismatch" and opts["use_operators"] and opts["inline_const"] and info["neg_pow_base"]:
        return "C13:use_operators:negative-literal-pow-base:precedence"
    if stage in ("mismatch", "load", "run", "interface") and info["optional_outputs"] and any(re.fullmatch(r"_\d+", n) for n in G.all_names(case["proto"])):
        return "C13:names:missing-output-placeholder-collides"
    if collide:
        if stage in ("mismatch", "load", "run", "interface"):
            return "C13:names:collision-after-cleanup:silently-merged"
        if stage in ("exec", "to_proto", "syntax"):
            return "C13:names:collision-after-cleanup:error-only-at-exec"
    if stage == "mismatch" and info["swap"]:
        return "C13:loop:body-output-is-body-input:sequential-assignment"
    if stage == "mismatch":
        norm = "outputs-differ"
    else:
        norm = re.sub(r"'[^']*'|\"[^\"]*\"|\d+", "#", msg or out["detail"])[:60]
    return f"C13:unexpected:{case['kind']}:{stage}:{exc}:{opt_tag(opts)}:{norm}"


# ----------------------------------------------------------------------------------------------- correspondence: names

_PRINTABLE = [c for c in string.printable if 32 <= ord(c) < 127]


def _name_samples(rng, n, kw):
    alnum = string.ascii_letters + string.digits + "_"
    out = list(kw) + [k + "_" for k in kw[:8]] + ["r_" + k for k in kw[:8]] + [k.upper() for k in kw[:6]] + [k + "1" for k in kw[:6]]
    out += ["_", "__", "a", "Z", "0", "9x", "a.b", "a_b", "1x", "__1x", "x.y/z:0", " ", ".", "a b", "_9", "layer.0.weight",
            "/model/layers.0/Add_output_0", "onnx::MatMul_123", "a" * 40, "@", "[", "`", "{", "~", "A[0]", "é".encode("ascii", "replace").decode()]
    while len(out) < n:
        k = rng.choice([1, 1, 2, 3, 4, 6, 9, 14])
        mode = rng.random()
        if mode < 0.35:
            s = "".join(rng.choice(_PRINTABLE) for _ in range(k))
        elif mode < 0.7:
            s = "".join(rng.choice(alnum + "./:- ") for _ in range(k))
        elif mode < 0.85:
            s = rng.choice(kw) + "".join(rng.choice("._ 1x") for _ in range(rng.randint(0, 2)))
            if rng.random() < 0.3:
                s = s[:-1] if len(s) > 1 else s
        else:
            s = rng.choice(string.digits + "._-/") + "".join(rng.choice(alnum) for _ in range(k))
        if s:
            out.append(s)
    return out


def corr_names(ctx, tab):
    from onnxscript.backend import onnx_export as E
    rng = ctx.rng
    n = 3000 if ctx.tier == "quick" else 12000
    names = _name_samples(rng, n, tab["kwlist"])
    observed = []
    for s in names:
        observed.append(E._cleanup_variable_name(s))
    bad_total = 0
    shards = [list(range(i, min(i + 1500, len(names)))) for i in range(0, len(names), 1500)]
    bodies = []
    for sh in shards:
        cases = clist([f"({cstr(names[i])}, {cstr(observed[i])})" for i in sh])
        bodies.append(f"Definition cases : list (string * string) := {cases}.\nEval vm_compute in (disagreeing kwlist 0 cases).")
    # (sequential on purpose: Ctx.coq_eval_shards rewrites '-' in the scratch directory name and cannot open its file)
    res = [ctx.coq_eval(["OV.Gen.ExportTables", "OV.Export.Cleanup"], b, name="cleanup") for b in bodies]
    for sh, (ok, vals, raw) in zip(shards, res):
        if not ok or not vals:
            ctx.tie_broken("correspondence", "cleanup:model-evaluation", raw[-800:])
            return
        for j in common.parse_nat_list(vals[0]):
            i = sh[j]
            bad_total += 1
            got = observed[i]
            # direct oracle on the disagreeing input: is the real result a usable, non-keyword identifier?
            if not (got.isidentifier() and not keyword.iskeyword(got)):
                ctx.violation("C13:names:cleanup-result-not-an-identifier",
                              f"_cleanup_variable_name({names[i]!r}) = {got!r} is not usable as a Python variable",
                              {"name": names[i], "result": got})
            else:
                ctx.tie_broken("correspondence", "cleanup", f"_cleanup_variable_name({names[i]!r}) = {got!r}, model differs")
    for s, got in zip(names, observed):
        ctx.case(("cleanup", s in tab["kwlist"], s[0].isalpha() or s[0] == "_", all(c.isalnum() or c == "_" for c in s)))
        if not (got.isidentifier() and not keyword.iskeyword(got)):
            ctx.violation("C13:names:cleanup-result-not-an-identifier",
                          f"_cleanup_variable_name({s!r}) = {got!r} is not usable as a Python variable", {"name": s, "result": got})
    ctx.obligation(f"correspondence: real _cleanup_variable_name = Export/Cleanup.v `cleanup kwlist` on {len(names)} printable-ASCII names", bad_total == 0)

    # the short-name mapper: one fresh mapper per sequence
    nseq = 150 if ctx.tier == "quick" else 600
    seqs, obs = [], []
    for _ in range(nseq):
        pool = [rng.choice(names) for _ in range(rng.randint(1, 8))]
        seq = [rng.choice(pool) for _ in range(rng.randint(1, 14))]
        ren = E._make_short_name_mapper()
        seqs.append(seq)
        obs.append([ren(s) for s in seq])
        ctx.case(("short-names", len(set(seq)) != len({E._cleanup_variable_name(s) for s in seq})))
    cases = clist([f"({clist(s, cstr)}, {clist(o, cstr)})" for s, o in zip(seqs, obs)])
    ok, vals, raw = ctx.coq_eval(["OV.Gen.ExportTables", "OV.Export.Cleanup"],
                                 f"Definition cases : list (list string * list string) := {cases}.\nEval vm_compute in (disagreeing_seq kwlist 0 cases).")
    if not ok or not vals:
        ctx.tie_broken("correspondence", "short-names:model-evaluation", raw[-800:])
        return
    bad = common.parse_nat_list(vals[0])
    for i in bad:
        ctx.tie_broken("correspondence", "short-names", f"_make_short_name_mapper on {seqs[i]!r} gave {obs[i]!r}, model differs")
    ctx.obligation(f"correspondence: real _make_short_name_mapper = Export/Cleanup.v `short_rename_all` on {nseq} name sequences", not bad)
    # the unique-name wrapper (repair C13_07), when the implementation has it: one fresh wrapper per sequence, around the
    # clean-up or around a fresh short-name mapper; pools with planted collisions and with names that already look suffixed
    nuniq = 0
    if hasattr(E, "_make_unique_name_mapper"):
        nuniq = 120 if ctx.tier == "quick" else 500
        rows = []
        for k in range(nuniq):
            pool = [rng.choice(names) for _ in range(rng.randint(1, 6))]
            for b in list(pool):
                if rng.random() < 0.6:
                    pool.append(rng.choice([b.replace("_", ".", 1), b.replace(".", "_"), b + "_0", b + "_1", b + ".0", "_" + b]))
            pool = [p for p in pool if p]
            seq = [rng.choice(pool) for _ in range(rng.randint(1, 12))]
            short = k % 3 == 0
            ren = E._make_unique_name_mapper(E._make_short_name_mapper() if short else E._cleanup_variable_name)
            obs_u = [ren(x) for x in seq]
            base = E._make_short_name_mapper() if short else E._cleanup_variable_name
            bases = [base(x) for x in seq]
            collided = len(set(bases)) != len(set(seq))
            ctx.case(("unique-names", short, collided, len(set(obs_u)) == len(set(seq))))
            if len(set(obs_u)) != len(set(seq)) or not all(o.isidentifier() and not keyword.iskeyword(o) for o in obs_u):
                ctx.violation("C13:names:unique-mapper:not-distinct-or-not-identifier", f"_make_unique_name_mapper on {seq!r} gave {obs_u!r}",
                              {"sequence": seq, "result": obs_u, "short_names": short})
            rows.append(f"({clist(seq, cstr)}, {clist(bases, cstr)}, {clist(obs_u, cstr)})")
        ok, vals, raw = ctx.coq_eval(["OV.Export.Cleanup", "OV.Export.Unique"],
                                     f"Definition cases : list (list string * list string * list string) := {clist(rows)}.\nEval vm_compute in (disagreeing_uniq 0 cases).", name="unique")
        if not ok or not vals:
            ctx.tie_broken("correspondence", "unique-names:model-evaluation", raw[-800:])
        else:
            badu = common.parse_nat_list(vals[0])
            for i in badu[:5]:
                ctx.tie_broken("correspondence", "unique-names", f"case {i}: real _make_unique_name_mapper and Export/Unique.v `uniq_names` differ: {rows[i][:300]}")
            ctx.obligation(f"correspondence: real _make_unique_name_mapper = Export/Unique.v `uniq_names` on {nuniq} name sequences with planted collisions "
                           "(the model's bounded search for a free suffix always succeeded)", not badu)
    ctx.cover(cleanup_strings=len(names), cleanup_disagreements=bad_total, short_name_sequences=nseq, unique_name_sequences=nuniq)


# ----------------------------------------------------------------------------------------------- correspondence: emission

def _first_difference(code, rename):
    return ("rename=True: " if rename else "") + " | ".join(l.strip() for l in (code or "").splitlines() if "=" in l or "return" in l)[:500]


def corr_emit(ctx, workdir, cleanup, stats):
    """the statements the REAL exporter prints for straight-line graphs = Export/Emit.v `export_graph` (the function the
    soundness theorem of Props/C13_emit.v is about).  A disagreement: the round-trip oracle is evaluated on that model
    first; a failure outside the catalogued classes is a violation with that input, anything else a broken tie.
    -> the template models (also handed to the round-trip oracle by the caller)"""
    from collections import Counter

    import onnx

    from harness import c13_emit as M
    quick = ctx.tier == "quick"
    cases, rejected = M.straight_cases(ctx.rng, 12 if quick else 60, 40 if quick else 240, 8 if quick else 30)
    skipped, items = Counter(), []
    for c in cases:
        if not M.is_straight(c["proto"]):
            skipped["not straight-line"] += 1
            continue
        for rename in (False, True):
            opts = dict(zip(OPT_NAMES, (rename, False, False, False)))
            try:
                obs = M.observe(c, rename)
            except M.OutOfScope as e:
                skipped[str(e)[:60]] += 1
                continue
            except M.ParseError as e:
                ctx.tie_broken("translator", "emit:generated-source", f"{c['id']} [{opt_tag(opts)}]: {e}")
                continue
            except Exception as e:  # noqa: BLE001 -- the exporter refused a model of the class: the oracle names the failure
                _emit_disagreement(ctx, c, opts, workdir, cleanup, f"exporter raised {type(e).__name__}: {str(e)[:200]}")
                continue
            items.append((c, rename, obs))
    bad_total, in_domain, compared = 0, 0, 0
    for lo in range(0, len(items), 50):
        shard = items[lo:lo + 50]
        ok, vals, raw = ctx.coq_eval(M.REQUIRES, M.coq_body(shard), name="emit")
        if not ok or len(vals) < 3:
            ctx.tie_broken("correspondence", "emit:model-evaluation", raw[-800:])
            bad_total += 1
            continue
        bad = set(common.parse_nat_list(vals[0]))
        hyp = re.findall(r"true|false", vals[1])
        inj = re.findall(r"true|false", vals[2])
        if len(hyp) != len(shard) or len(inj) != len(shard):
            ctx.tie_broken("correspondence", "emit:model-evaluation", f"{len(hyp)}/{len(inj)} verdicts for {len(shard)} cases")
            bad_total += 1
            continue
        for k, (c, rename, obs) in enumerate(shard):
            compared += 1
            in_domain += hyp[k] == "true"
            is_model = isinstance(c["proto"], onnx.ModelProto)
            ctx.case(("emit", c["kind"], c["profile"], rename, hyp[k], inj[k], tuple(sorted(set(c.get("templates", [])))), min(obs["statements"], 12)))
            # the names condition of the theorem, cross-checked with the real clean-up on the model's own names
            from harness import c13_variants
            if not rename and not (c13_variants.detect()["unique_names"] and M.names_collide(c["proto"])):
                names = G.all_names(c["proto"])
                real_free = len({cleanup(n) for n in names}) == len(set(names))
                if real_free and inj[k] == "false" and not any(re.fullmatch(r"_\d+", cleanup(n)) for n in names):
                    ctx.tie_broken("correspondence", "emit:rename_injb", f"{c['id']}: Coq says the renamer collides, the real clean-up is injective on {names!r}")
                if not real_free and inj[k] == "true":
                    ctx.tie_broken("correspondence", "emit:rename_injb", f"{c['id']}: Coq says collision-free, the real clean-up merges names of {names!r}")
            if k in bad:
                bad_total += 1
                opts = dict(zip(OPT_NAMES, (rename, False, False, False)))
                _emit_disagreement(ctx, c, opts, workdir, cleanup, "printed statements differ from export_graph: " + _first_difference(obs["code"], rename))
            elif compared % 37 == 1:
                ctx.sample({"case": c["id"], "options": "rename" if rename else "default", "outcome": "printed program = export_graph",
                            "statements": obs["statements"], "theorem_hypotheses_hold": hyp[k] == "true", "model": is_model})
    ctx.obligation(f"correspondence: the statements printed by the real proto2python = Export/Emit.v `export_graph` on {compared} "
                   f"(straight-line model or function, rename) pairs", bad_total == 0 and compared > 0, f"{bad_total} disagreements")
    ctx.obligation("emit tie health: at least a third of the compared programs satisfy every hypothesis of C13_export_straightline_sound_partial",
                   in_domain * 3 >= compared, f"{in_domain} of {compared}")
    ctx.cover(emit_programs_compared=compared, emit_in_theorem_domain=in_domain, emit_disagreements=bad_total,
              emit_skipped=dict(skipped), emit_generated_invalid=rejected)
    return [c for c in cases if c.get("origin") == "emit-templates" and c["kind"] == "model"]


def corr_cf(ctx, workdir, cleanup, stats, tab):
    """the statement STRUCTURE the real exporter prints for models / functions with If and Loop (depth <= 2), under the
    options that change it, = Export/EmitCF.v `export_cf` (the function the theorem of Props/C13_nested.v is about);
    compared inside Coq on the parsed AST.  The exporter raising <-> the model refusing.  A disagreement: the
    round-trip oracle is evaluated on that input first (see _emit_disagreement).
    -> the hand-made feature cases (also handed to the round-trip oracle by the caller)"""
    from collections import Counter

    from harness import c13_cf as C
    C.set_ops(tab["ops"])
    quick = ctx.tier == "quick"
    cases, rejected = C.nested_cases(ctx.rng, 26 if quick else 110, 8 if quick else 30)
    # initializers OWNED BY SUBGRAPHS (same name in sibling branches / two Loop bodies / like a main-graph initializer; sizes around
    # the inline and skip thresholds): Export/SubInits.v export_si; every option tuple; also handed to the round-trip oracle
    from harness import c13_subinit as SI
    sub_cases, rej_si = SI.subgraph_init_cases(ctx.rng, 8 if quick else 40)
    stats["subinit_cases"] = sub_cases
    cases = cases + sub_cases
    rejected += rej_si
    skipped, items, refused = Counter(), [], 0
    oplines = {}
    for c in cases:
        opt_list = list(ALL_OPTS)  # every option tuple on every case, in both tiers (session 6)
        for opts in opt_list:
            try:
                C.in_scope(c, opts)
                obs = C.observe(c, opts)
            except C.OutOfScope as e:
                skipped[str(e)[:60]] += 1
                continue
            except C.ParseError as e:
                ctx.tie_broken("translator", "cf:generated-source", f"{c['id']} [{opt_tag(opts)}]: {e}")
                continue
            if obs["func"] == "SYNTAX" and c.get("tie_only"):
                ctx.violation(f"C13:unexpected:{c['kind']}:syntax:SyntaxError:{opt_tag(opts)}:generated-source-not-python",
                              f"{c['id']} [{opt_tag(opts)}]: the generated source is not valid Python ({obs['raised']})", {"case": c["id"], "options": opts, "generated_source": obs["code"]})
                continue
            if obs["func"] == "SYNTAX":  # not valid Python: a failure of the property on this input; the oracle names its class
                names = G.all_names(c["proto"])
                fr = len({cleanup(n) for n in names}) == len(set(names))
                out = R.round_trip(c, opts, workdir, R.reference_outputs(c), cleanup, check_input_names=fr)
                if out["stage"] == "ok":
                    ctx.tie_broken("translator", "cf:generated-source", f"{c['id']} [{opt_tag(opts)}]: ast.parse failed ({obs['raised']}) but the round trip succeeds")
                else:
                    key = classify(c, analyze(c["proto"]), not fr, opts, out, cleanup)
                    ctx.violation(key, KNOWN_CLASSES.get(key) or f"{c['id']} [{opt_tag(opts)}]: {out['stage']} {out['exc'] or ''} {out['msg'] or out['detail']}"[:400],
                                  _replay(c, opts, out))
                continue
            refused += obs["func"] is None
            items.append((c, opts, obs))
            if opts["use_operators"] and obs["code"]:
                try:
                    for row in C.operator_lines(obs["code"]):
                        oplines.setdefault(row[1], (row[0], row[2], f"{c['id']} [{opt_tag(opts)}]"))
                except C.ParseError as e:
                    ctx.tie_broken("translator", "optext:generated-source", f"{c['id']} [{opt_tag(opts)}]: {e}")
    bad_total, in_domain, plain, compared = 0, 0, 0, 0
    rt = Counter()
    forms = Counter()
    shards = [items[lo:lo + 50] for lo in range(0, len(items), 50)]
    results = ctx.coq_eval_shards(C.REQUIRES, [C.coq_body(sh) for sh in shards], par=4)
    skip_only, skip_in_domain, ops_only, ops_in_domain = 0, 0, 0, 0
    for shard, (ok, vals, raw) in zip(shards, results):
        if not ok or len(vals) < 7:
            ctx.tie_broken("correspondence", "cf:model-evaluation", raw[-800:])
            bad_total += 1
            continue
        bad = set(common.parse_nat_list(vals[0]))
        hyp = re.findall(r"true|false", vals[1])
        some = re.findall(r"true|false", vals[2])
        hyp_nobrk = re.findall(r"true|false", vals[3])
        rts = re.findall(r"\((true|false), (true|false), (true|false)\)", vals[4])
        hyp_skip = re.findall(r"true|false", vals[5])
        hyp_ops = re.findall(r"true|false", vals[6])
        if len(hyp_skip) != len(shard) or len(hyp_ops) != len(shard):
            ctx.tie_broken("correspondence", "cf:model-evaluation", f"{len(hyp_skip)} skip verdicts for {len(shard)} cases")
            bad_total += 1
            continue
        if len(hyp) != len(shard) or len(some) != len(shard) or len(hyp_nobrk) != len(shard) or len(rts) != len(shard):
            ctx.tie_broken("correspondence", "cf:model-evaluation", f"{len(hyp)}/{len(some)} verdicts for {len(shard)} cases")
            bad_total += 1
            continue
        for k, (c, opts, obs) in enumerate(shard):
            compared += 1
            info = analyze(c["proto"])
            is_plain = not (opts["use_operators"] or opts["inline_const"] or opts["skip_initializers"])
            plain += is_plain
            in_domain += hyp[k] == "true"
            if opts["skip_initializers"] and not opts["inline_const"] and obs["func"] is not None:
                skip_only += 1
                skip_in_domain += hyp_skip[k] == "true"
            if opts["use_operators"] and not (opts["inline_const"] or opts["skip_initializers"]) and obs["func"] is not None:
                ops_only += 1
                ops_in_domain += hyp_ops[k] == "true"
            if is_plain:
                # the hypotheses of C13_roundtrip_sound_partial: our class, C01's class (pre_ok, with / without "every value is a
                # condition"), the converter model accepts the exported function
                rt["plain"] += 1
                rt["export_class"] += hyp[k] == "true"
                rt["export_class_without_break_form"] += hyp_nobrk[k] == "true"
                rt["converter_class"] += rts[k][1] == "true"
                rt["converter_class_without_while_break"] += rts[k][0] == "true"
                rt["converter_model_accepts"] += rts[k][2] == "true"
                rt["all_hypotheses"] += hyp[k] == "true" and rts[k][1] == "true" and rts[k][2] == "true"
                rt["all_hypotheses_without_truth_totality"] += hyp_nobrk[k] == "true" and rts[k][0] == "true" and rts[k][2] == "true"
            shape = (info["ifs"] > 0, info["while"] > 0, info["pure_for"] > 0, info["for_with_cond"] > 0, info["depth"])
            forms[shape] += 1
            ctx.case(("cf", c["kind"], c["profile"], opt_tag(opts), shape, hyp[k], hyp_skip[k], hyp_ops[k], some[k], obs["func"] is None, min(obs["statements"], 16)))
            if k in bad:
                bad_total += 1
                what = (f"the exporter raised ({obs['raised']}) where the model emits a program" if obs["func"] is None else
                        ("the model refuses a graph the exporter prints: " if some[k] == "false" else "printed statement structure differs from export_cf: ")
                        + _first_difference(obs["code"], opts["rename"]))
                _emit_disagreement(ctx, c, opts, workdir, cleanup, what)
            elif compared % 41 == 1:
                ctx.sample({"case": c["id"], "options": opt_tag(opts), "outcome": "exporter raised = model refuses" if obs["func"] is None else "printed program = export_cf",
                            "statements": obs["statements"], "ifs": info["ifs"], "loops": info["while"] + info["pure_for"] + info["for_with_cond"],
                            "depth": info["depth"], "theorem_hypotheses_hold": hyp[k] == "true"})
    ctx.obligation(f"correspondence: the statement structure printed by the real proto2python = Export/EmitCF.v `export_cf` on {compared} "
                   f"(model or function with If/Loop, option tuple) pairs, compared on the AST inside Coq", bad_total == 0 and compared > 0,
                   f"{bad_total} disagreements")
    ctx.obligation("nested tie health: at least a quarter of the programs compared with the structure-changing options off satisfy every "
                   "hypothesis of C13_export_nested_sound_partial", in_domain * 4 >= plain and plain > 0, f"{in_domain} of {plain}")
    ctx.obligation("use_operators tie health: at least a quarter of the programs printed with use_operators (inline_const / skip_initializers off) "
                   "satisfy every hypothesis of C13_export_nested_ops_sound_partial", ops_in_domain * 4 >= ops_only and ops_only > 0,
                   f"{ops_in_domain} of {ops_only}")
    ctx.cover(cf_ops_programs=ops_only, cf_ops_in_theorem_domain=ops_in_domain)
    ctx.obligation("skip_initializers tie health: at least a quarter of the programs printed with skip_initializers (inline_const off, use_operators on or off) "
                   "satisfy every hypothesis of C13_export_skip_sound_partial", skip_in_domain * 4 >= skip_only and skip_only > 0,
                   f"{skip_in_domain} of {skip_only}")
    ctx.cover(cf_skip_programs=skip_only, cf_skip_in_theorem_domain=skip_in_domain, cf_option_tuples="all 16 on every case")
    corr_optext(ctx, oplines)
    print(f"[C13] round-trip theorem (C13_roundtrip_sound_partial): {rt['all_hypotheses']} of {rt['plain']} exported nested programs (options off) "
          f"satisfy every hypothesis ({rt['all_hypotheses_without_truth_totality']} without the truth-totality premise); "
          f"export class {rt['export_class']}, converter class {rt['converter_class']}, converter model accepts {rt['converter_model_accepts']}")
    ctx.obligation("round-trip tie health: some exported nested programs satisfy every hypothesis of C13_roundtrip_sound_partial",
                   rt["all_hypotheses"] > 0, json.dumps(dict(rt)))
    ctx.cover(cf_roundtrip_hypotheses=dict(rt))
    ctx.cover(cf_programs_compared=compared, cf_in_theorem_domain=in_domain, cf_plain_option_programs=plain, cf_disagreements=bad_total,
              cf_exporter_refused_and_model_refused=refused, cf_skipped=dict(skipped), cf_generated_invalid=rejected,
              cf_shapes={str(k): v for k, v in sorted(forms.items(), key=lambda kv: -kv[1])[:12]})
    return [c for c in cases if c.get("origin") == "cf-features" and not c.get("tie_only")]


def corr_optext(ctx, oplines):
    """Export/OpText.v `parse_text` (the reader of the operator-text theorems of Props/C13_optsem.v) = Python's own parser:
    on every distinct operator line of the generated sources (use_operators on) and on generated expression texts.
    A disagreement on a generated line whose Python reading differs from the emission model has already been reported
    by the structure comparison; here the Coq grammar is what is checked."""
    from harness import c13_cf as C
    rows = [(text, toks, f"(Some {want})", where) for toks, (text, want, where) in sorted(oplines.items())]
    n_lines = len(rows)
    try:
        rows += [(t, k, w, "generated expression") for t, k, w in C.random_expressions(ctx.rng, 300 if ctx.tier == "quick" else 1500)]
    except C.ParseError as e:
        ctx.tie_broken("harness", "optext:expression-generator", str(e))
        return
    bad_total = 0
    for lo in range(0, len(rows), 400):
        shard = rows[lo:lo + 400]
        body = (f"Definition cases : list (list tok * option expr) := {clist([f'({k}, {w})' for _, k, w, _ in shard])}.\n"
                "Eval vm_compute in (disagreeing_parse 0 cases).")
        ok, vals, raw = ctx.coq_eval(["OV.Graph.Syntax", "OV.Script.Syntax", "OV.Export.EmitCF", "OV.Export.OpText"], body, name="optext")
        if not ok or not vals:
            ctx.tie_broken("correspondence", "optext:model-evaluation", raw[-800:])
            return
        for j in common.parse_nat_list(vals[0]):
            bad_total += 1
            text, _, want, where = shard[j]
            ctx.tie_broken("correspondence", "optext", f"{where}: `{text}` is read by ast.parse as {want[:200]}, Export/OpText.v parse_text differs")
    for text, _, want, where in rows:
        ctx.case(("optext", where == "generated expression", want == "None", min(len(text.split()), 9),
                  tuple(sorted({t for t in text.replace("(", " ").replace(")", " ").split() if not t[0].isalnum() and t[0] not in "[-"} | ({"neg"} if "-" in text else set())))[:4]))
    ctx.obligation(f"correspondence: Export/OpText.v parse_text = ast.parse on {n_lines} distinct operator lines of the generated sources and "
                   f"{len(rows) - n_lines} generated expression texts (precedence, associativity, unary minus, parentheses, comparison chains refused)",
                   bad_total == 0 and n_lines > 0, f"{bad_total} disagreements")
    ctx.cover(optext_generated_lines=n_lines, optext_generated_expressions=len(rows) - n_lines, optext_disagreements=bad_total)


def _emit_disagreement(ctx, c, opts, workdir, cleanup, detail):
    if c.get("tie_only"):  # a model that cannot be run (a Loop that never stops): no oracle verdict
        ctx.tie_broken("correspondence", "emit", f"{c['id']} [{opt_tag(opts)}]: {detail}; the model cannot be executed (no oracle)")
        return
    info = analyze(c["proto"])
    names = G.all_names(c["proto"])
    fr = len({cleanup(n) for n in names}) == len(set(names))
    try:
        out = R.round_trip(c, opts, workdir, R.reference_outputs(c), cleanup, check_input_names=fr)
    except Exception as e:  # noqa: BLE001 -- the original does not run: no verdict from the oracle
        ctx.tie_broken("correspondence", "emit", f"{c['id']} [{opt_tag(opts)}]: {detail}; oracle not applicable ({type(e).__name__})")
        return
    if out["stage"] != "ok":
        key = classify(c, info, not fr, opts, out, cleanup)
        if key not in KNOWN_CLASSES:
            ctx.violation(key, f"{c['id']} [{opt_tag(opts)}]: {out['stage']} {out['exc'] or ''} {out['msg'] or out['detail']} ({detail})"[:500],
                          _replay(c, opts, out))
            return
    ctx.tie_broken("correspondence", "emit", f"{c['id']} [{opt_tag(opts)}]: {detail}; round trip: {out['stage']}")


def corr_const_repr(ctx, workdir):
    """real `_get_const_repr` vs Export/ConstRepr.v `const_repr`, and the converter's reading of the printed literal vs
    `literal_dims` / `literal_dtype` (the two halves of C13_inlined_literal_reenters_unchanged)."""
    from onnxscript.backend import onnx_export as E
    from harness.common import cbool, cnat, cz
    samples = S.const_repr_samples(ctx.rng, 400 if ctx.tier == "quick" else 1500)
    env = {"nan": float("nan"), "inf": float("inf"), "__builtins__": {}}
    rows, texts = [], []

    def lit(value, tag):
        if isinstance(value, list):
            t = ("FLOAT" if any(isinstance(v, float) for v in value) else "INT64") if value else tag
            return f"(Some (LList {t} {clist([cz(S.f32_bits(v)) if t == 'FLOAT' else cz(v) for v in value])}))", t, [len(value)]
        t = "FLOAT" if isinstance(value, float) else "INT64"
        return f"(Some (LScalar {t} {cz(S.f32_bits(value)) if t == 'FLOAT' else cz(value)}))", t, []

    for node, tag, dims, payload in samples:
        text = E._get_const_repr(node)
        ctx.case(("const_repr", tag, len(dims), dims[0] if len(dims) == 1 else -1, text is None))
        if text is None:
            obs = "None"
        else:
            try:
                value = eval(text, dict(env))  # noqa: S307 -- the exporter's own literal text, evaluated without builtins
                if not isinstance(value, (int, float, list)) or isinstance(value, bool):
                    raise TypeError(type(value).__name__)
                obs, t, d = lit(value, tag)
                if not (isinstance(value, list) and not value):
                    texts.append((text, obs[6:-1], tuple(d), t))
            except Exception as e:  # noqa: BLE001
                ctx.violation("C13:inline_const:literal-text-not-a-python-literal", f"_get_const_repr printed {text!r} ({type(e).__name__})",
                              {"dtype": tag, "dims": dims, "payload": payload, "text": text})
                obs = "None"
        dt = "OTHER" if tag == "NOTENSOR" else tag
        rows.append(f"({cbool(tag != 'NOTENSOR')}, {dt}, {clist(dims, cnat)}, {clist(payload, cz)}, {obs})")
    from harness import c13_variants
    vr = c13_variants.detect()
    ok, vals, raw = ctx.coq_eval(["OV.Export.ConstRepr"], f"Definition cases : list rcase := {clist(rows)}.\n"
                                 f"Eval vm_compute in (disagreeing_repr_fx {cbool(vr['finite_only'])} {cbool(vr['nonempty_only'])} 0 cases).", name="constrepr")
    if not ok or not vals:
        ctx.tie_broken("correspondence", "const_repr:model-evaluation", raw[-800:])
        return
    bad = common.parse_nat_list(vals[0])
    for i in bad[:10]:
        node, tag, dims, payload = samples[i]
        ctx.tie_broken("correspondence", "const_repr", f"_get_const_repr on {tag}{dims} {payload[:5]} printed {E._get_const_repr(node)!r}, model differs")
    ctx.obligation(f"correspondence: real _get_const_repr = Export/ConstRepr.v `const_repr_fx` (variant finite_only={vr['finite_only']}, "
                   f"nonempty_only={vr['nonempty_only']}, decided by probe) on {len(samples)} Constant nodes", not bad)

    # re-entry: each distinct printed literal is compiled by the real converter; the Constant it builds has literal_dims / literal_dtype
    uniq = sorted({t for t in texts}, key=lambda t: (t[0], t[1]))[:60]
    src = "from onnxscript import script, FLOAT\nfrom onnxscript.onnx_opset import opset18 as op\n"
    for k, (text, _, _, _) in enumerate(uniq):
        src += f"\n@script()\ndef lit{k}(x: FLOAT[3]):\n    return op.Identity({text})\n"
    try:
        mod, modname = R.load_module(src, workdir)
    except Exception as e:  # noqa: BLE001
        ctx.tie_broken("correspondence", "literal-reentry", f"{type(e).__name__}: {str(e)[:300]}")
        return
    rows = []
    for k, (text, coq_lit, _, _) in enumerate(uniq):
        fp = getattr(mod, f"lit{k}").to_function_proto()
        ts = [n.attribute[0].t for n in fp.node if n.op_type == "Constant"]
        if len(ts) != 1:
            ctx.tie_broken("correspondence", "literal-reentry", f"literal {text!r}: {len(ts)} Constant nodes")
            continue
        dtn = {1: "FLOAT", 7: "INT64"}.get(ts[0].data_type, "OTHER")
        rows.append(f"({coq_lit}, {clist(list(ts[0].dims), cnat)}, {dtn})")
        ctx.case(("literal-reentry", dtn, len(ts[0].dims)))
    R.unload(modname)
    ok, vals, raw = ctx.coq_eval(["OV.Export.ConstRepr"], f"Definition cases : list ecase := {clist(rows)}.\nEval vm_compute in (disagreeing_reentry 0 cases).", name="reentry")
    if not ok or not vals:
        ctx.tie_broken("correspondence", "literal-reentry:model-evaluation", raw[-800:])
        return
    bad2 = common.parse_nat_list(vals[0])
    for i in bad2[:10]:
        ctx.tie_broken("correspondence", "literal-reentry", f"literal {uniq[i][0]!r} is read back with another shape/type than the model says")
    ctx.obligation(f"correspondence: the converter reads {len(rows)} printed literals back with the rank and type of Export/ConstRepr.v", not bad2)
    ctx.cover(const_repr_samples=len(samples), literal_reentry_cases=len(rows))


def measure_literal_text(ctx):
    """The two Section hypotheses of C13_literal_text_reads_back_partial, measured on the real _get_const_repr, and the
    integer printer / reader of Export/InlineText.v against Python's str / int.
      float_roundtrip      float32(float(text)) has the bits of the constant
      float_text_not_int   the text of a FLOAT constant is not the text of an integer
    on random finite float32 bit patterns (scalars and vectors of 1..4 elements) and the corner values."""
    import ast as pyast
    import struct

    from onnx import helper as h
    from onnx import numpy_helper as nh
    from onnxscript.backend import onnx_export as E
    rng = ctx.rng
    n = 400 if ctx.tier == "quick" else 4000
    corner = [0, 0x80000000, 1, 0x80000001, 0x007FFFFF, 0x00800000, 0x7F7FFFFF, 0xFF7FFFFF, 0x3F800000, 0x3DCCCCCD, 0x4B800000, 0x4B800001,
              0x5F000000, 0x3A83126F, 0x33D6BF95, 0x7F000000, 0x00000002, 0x3F7FFFFF, 0x3F800001, 0x501502F9]
    bits = corner + [rng.getrandbits(32) for _ in range(n)]
    bits = [b for b in bits if (b & 0x7F800000) != 0x7F800000]  # finite

    def f32(b):
        return np.frombuffer(struct.pack("<I", b), dtype=np.float32)[0]

    def back(x):
        return struct.unpack("<I", struct.pack("<f", x))[0]

    bad, measured, kinds = [], 0, set()
    k = 0
    while k < len(bits):
        size = rng.choice([0, 0, 1, 2, 3, 4])  # 0: a rank-0 constant
        chunk = bits[k:k + max(size, 1)]
        k += max(size, 1)
        arr = np.array([f32(b) for b in chunk], dtype=np.float32)
        arr = arr.reshape(()) if size == 0 else arr
        text = E._get_const_repr(h.make_node("Constant", [], ["c"], value=nh.from_array(arr, "c")))
        if text is None:
            bad.append((chunk, "not inlined"))
            continue
        tree = pyast.parse(text, mode="eval").body
        elts = tree.elts if isinstance(tree, pyast.List) else [tree]
        if len(elts) != len(chunk):
            bad.append((chunk, text))
            continue
        for b, e in zip(chunk, elts):
            seg = pyast.get_source_segment(text, e)
            measured += 1
            kinds.add((size == 0, "e" in seg, b >> 31, (b & 0x7F800000) == 0))
            ctx.case(("literal-text", size == 0, "e" in seg, b >> 31, (b & 0x7F800000) == 0, min(len(seg), 12)))
            if re.fullmatch(r"[+-]?\d+", seg) or back(float(seg)) != b:
                bad.append((b, seg))
    for b, seg in bad[:5]:
        ctx.violation("C13:inline_const:float-literal-text-does-not-read-back",
                      f"_get_const_repr prints the FLOAT constant with bits {b!r} as {seg!r}, which is not read back as that float32",
                      {"bits": b, "text": seg})
    ctx.obligation(f"hypotheses float_roundtrip / float_text_not_int of C13_literal_text_reads_back_partial measured on {measured} FLOAT elements "
                   f"printed by the real _get_const_repr (random finite bit patterns, subnormals, extremes, -0.0; scalars and vectors)", not bad and measured > 0,
                   f"{len(bad)} failures")
    ints = [0, 1, -1, 9, 10, -10, 2**63 - 1, -2**63, 10**18, -10**18, 123456789012345678] + [rng.randint(-2**63, 2**63 - 1) for _ in range(60)] + \
           [rng.randint(-1000, 1000) for _ in range(60)]
    observed = []
    for z in ints:
        text = E._get_const_repr(h.make_node("Constant", [], ["c"], value=nh.from_array(np.array(z, dtype=np.int64), "c")))
        observed.append(text)
        ctx.case(("literal-text-int", z < 0, min(len(str(z)), 20)))
        if text is None or int(text) != z:
            ctx.violation("C13:inline_const:int-literal-text-does-not-read-back", f"_get_const_repr prints INT64 {z} as {text!r}", {"value": z, "text": text})
    rows = clist([f"({common.cz(z)}, {cstr(t or '')})" for z, t in zip(ints, observed)])
    ok, vals, raw = ctx.coq_eval(["OV.Export.InlineText"], f"Definition cases : list (Z * string) := {rows}.\nEval vm_compute in (disagreeing_int_text 0 cases).", name="inttext")
    if not ok or not vals:
        ctx.tie_broken("correspondence", "int_text:model-evaluation", raw[-800:])
        return
    badi = common.parse_nat_list(vals[0])
    for i in badi[:5]:
        ctx.tie_broken("correspondence", "int_text", f"INT64 {ints[i]} is printed as {observed[i]!r} by _get_const_repr; Export/InlineText.v int_text / int_of_text differ")
    ctx.obligation(f"correspondence: the text _get_const_repr prints for {len(ints)} INT64 scalars = Export/InlineText.v int_text, and int_of_text reads it back", not badi)
    ctx.cover(literal_text_float_elements=measured, literal_text_float_kinds=len(kinds), literal_text_ints=len(ints))


def check_keyword_table(ctx, tab, workdir, cleanup):
    """`cleanup_valid_identifier` is relative to the source's keyword list; that list must contain Python's."""
    missing = sorted(set(keyword.kwlist) - set(tab["kwlist"]))
    ctx.obligation("translator: kwlist of onnx_export.py contains every keyword of the running Python", not missing, ", ".join(missing))
    from onnx import TensorProto as TP
    from onnx import helper as h
    for k in missing:
        nodes = [h.make_node("Neg", ["x"], [k]), h.make_node("Abs", [k], ["y"])]
        g = h.make_graph(nodes, "g", [h.make_tensor_value_info("x", TP.FLOAT, [3])], [h.make_tensor_value_info("y", TP.FLOAT, [3])])
        m = h.make_model(g, opset_imports=[h.make_opsetid("", 18)], ir_version=9)
        case = {"id": f"kw:{k}", "kind": "model", "proto": m, "feeds": [{"x": np.array([1, -2, 3], dtype=np.float32)}], "large_inits": []}
        out = R.round_trip(case, dict.fromkeys(OPT_NAMES, False), workdir, R.reference_outputs(case), cleanup)
        if out["stage"] != "ok":
            ctx.violation(f"C13:names:python-keyword-not-cleaned:{k}", f"a value named {k!r} is exported as is: {out['stage']} {out['exc']} {out['msg'][:200]}",
                          {"name": k, "outcome": {kk: out[kk] for kk in ("stage", "exc", "msg", "code")}})
        else:
            ctx.tie_broken("translator", "kwlist", f"Python keyword {k!r} missing from kwlist but the round trip of a value so named works")


# ----------------------------------------------------------------------------------------------- the round trips

def _replay(case, opts, out):
    import onnx
    d = {"case": case["id"], "options": opts, "stage": out["stage"], "exception": out["exc"], "message": out["msg"], "detail": out["detail"],
         "generated_source": out["code"], "kind": case["kind"]}
    try:
        d["proto_text"] = onnx.printer.to_text(case["proto"])
    except Exception:  # noqa: BLE001
        d["proto_text"] = str(case["proto"])[:4000]
    d["feeds"] = [{k: {"dtype": str(np.asarray(v).dtype), "shape": list(np.asarray(v).shape), "data": np.asarray(v).ravel().tolist()}
                   for k, v in f.items()} for f in case["feeds"]]
    import base64
    d["proto_b64"] = base64.b64encode(case["proto"].SerializeToString()).decode()
    if case["kind"] == "function":
        d["iface_b64"] = [[base64.b64encode(v.SerializeToString()).decode() for v in side] for side in case["iface"]]
        d["call_attrs"] = case.get("call_attrs")
    d["large_inits"] = [[n, {"shape": list(v.shape), "data": v.ravel().tolist()}] for n, v in case.get("large_inits", [])]
    return d


def replay(doc):
    """./check C13 --replay <file>: re-run the recorded round trip on the current /repo and print the outcome."""
    import base64
    import tempfile

    import onnx
    from onnxscript.backend import onnx_export as E
    r = doc["replay"]
    if "proto_b64" not in r:
        print(json.dumps(doc, indent=1)[:4000])
        return 0
    proto = onnx.ModelProto() if r["kind"] == "model" else onnx.FunctionProto()
    proto.ParseFromString(base64.b64decode(r["proto_b64"]))
    feeds = [{k: np.array(v["data"], dtype=v["dtype"]).reshape(v["shape"]) for k, v in f.items()} for f in r["feeds"]]
    case = {"id": r["case"], "kind": r["kind"], "proto": proto, "feeds": feeds,
            "large_inits": [(n, np.array(v["data"], dtype=np.float32).reshape(v["shape"])) for n, v in r.get("large_inits", [])]}
    if r["kind"] == "function":
        sides = []
        for side in r["iface_b64"]:
            vs = []
            for b in side:
                v = onnx.ValueInfoProto()
                v.ParseFromString(base64.b64decode(b))
                vs.append(v)
            sides.append(vs)
        case["iface"] = tuple(sides)
        case["call_attrs"] = r.get("call_attrs")
    out = R.round_trip(case, r["options"], tempfile.mkdtemp(prefix="c13-replay-"), R.reference_outputs(case), E._cleanup_variable_name,
                       check_input_names=False)
    print(f"key: {doc['key']}")
    print(onnx.printer.to_text(proto))
    print("options:", r["options"])
    print("generated source:\n" + (out["code"] or "<none>"))
    print(f"outcome: stage={out['stage']} exception={out['exc']} {out['msg']} {out['detail']}")
    return 0 if out["stage"] == "ok" else 1


def run_cases(ctx, cases, workdir, cleanup, stats):
    from harness import c13_subinit as SI
    # verified checker, evaluated in Coq on the real names of every case
    name_lists = [G.all_names(c["proto"]) for c in cases]
    for c, nl in zip(cases, name_lists):
        for s in nl:
            if not s.isascii() or any(ord(ch) < 32 or ord(ch) > 126 for ch in s):
                raise RuntimeError(f"generator produced a non-printable-ASCII name in {c['id']}: {s!r}")
    body = f"Definition models : list (list string) := {clist([clist(nl, cstr) for nl in name_lists])}.\n" \
           "Eval vm_compute in (map (collision_freeb kwlist) models)."
    ok, vals, raw = ctx.coq_eval(["OV.Gen.ExportTables", "OV.Export.Cleanup"], body)
    if not ok or not vals:
        ctx.tie_broken("checker", "collision_freeb", raw[-800:])
        return
    flags = re.findall(r"true|false", vals[0])
    if len(flags) != len(cases):
        ctx.tie_broken("checker", "collision_freeb", f"{len(flags)} verdicts for {len(cases)} models")
        return
    free = [f == "true" for f in flags]
    # cross-check the verdicts with the real clean-up (model 1 correspondence on the model's own names)
    for c, nl, fr in zip(cases, name_lists, free):
        real_free = len({cleanup(n) for n in nl}) == len(set(nl))
        if real_free != fr:
            ctx.tie_broken("correspondence", "collision_freeb", f"{c['id']}: Coq says collision-free={fr}, real clean-up says {real_free}")
    stats["models_with_collisions"] += sum(1 for f in free if not f)

    for c, nl, fr in zip(cases, name_lists, free):
        info = analyze(c["proto"])
        try:
            ref = R.reference_outputs(c)
        except Exception as e:  # noqa: BLE001  -- the generator made a model onnxruntime cannot run: not a case
            stats["unrunnable_originals"] += 1
            stats.setdefault("unrunnable_example", f"{c['id']}: {type(e).__name__}: {str(e)[:200]}")
            continue
        if c.get("opts") is not None:
            opt_list = list(c["opts"])
        elif ctx.tier == "thorough":
            opt_list = list(ALL_OPTS)
        else:
            others = ALL_OPTS[1:]
            opt_list = [ALL_OPTS[0]] + ctx.rng.sample(others, 3)
            if c["profile"] == "consts" and not any(o["inline_const"] and not o["rename"] for o in opt_list):
                opt_list[-1] = dict(zip(OPT_NAMES, (False, ctx.rng.random() < 0.5, True, False)))
        if c["kind"] == "function":
            opt_list = [o for o in opt_list if not o["skip_initializers"]] or [ALL_OPTS[0]]
        for opts in opt_list:
            # input names are compared with the cleaned ONNX names only when the clean-up is injective on this model
            out = R.round_trip(c, opts, workdir, ref, cleanup, check_input_names=fr)
            stats["runs"] += 1
            stats["by_option"][opt_tag(opts)] = stats["by_option"].get(opt_tag(opts), 0) + 1
            shape = (c["profile"], c["kind"], info["ifs"] > 0, info["while"] > 0, info["pure_for"] > 0, info["depth"], not fr)
            if out["stage"] == "ok":
                stats["ok"] += 1
                stats["ok_by_option"][opt_tag(opts)] = stats["ok_by_option"].get(opt_tag(opts), 0) + 1
                if out.get("output_names_kept") is False:
                    stats["output_names_changed"] += 1
                if out.get("protocol") == "make_model":
                    stats["make_model_protocol"] += 1
                ctx.case(shape + (opt_tag(opts), "ok"))
                if stats["ok"] % 97 == 1:
                    ctx.sample({"case": c["id"], "options": opt_tag(opts), "outcome": "round trip equal on %d feeds" % len(c["feeds"]),
                                "nodes": info["nodes"], "depth": info["depth"], "collision_free": fr})
                continue
            if out["stage"] == "export" and out["exc"] == "RuntimeError" and opts["skip_initializers"] and c["kind"] == "model" and (
                    ("already present in skipped_initializers" in out["msg"] and c.get("dup_skipped")) or
                    ("shares its name with another value" in out["msg"] and (c.get("dup_skipped") or SI.reuse_features(c["proto"])["skipped_assigned"]))):
                # two skipped initializers of different graphs under one name: one make_model parameter cannot stand for both;
                # the descriptive refusal is an allowed outcome (Props/C13_subinit.v: refused iff two of them get the same Python name)
                stats["refused_descriptively"] += 1
                stats["refused_same_name_skipped_initializers"] += 1
                ctx.case(shape + (opt_tag(opts), "refused:same-name-skipped-initializers"))
                continue
            if out["stage"] == "export" and out["exc"] == "RuntimeError" and "sequential assignments" in out["msg"] and info["swap"]:
                # a descriptive refusal of a model outside the exportable class (C13_12): what the property asks for
                stats["refused_descriptively"] += 1
                ctx.case(shape + (opt_tag(opts), "refused:sequential-assignment-hazard"))
                continue
            key = classify(c, info, not fr, opts, out, cleanup)
            stats["failures"][key] = stats["failures"].get(key, 0) + 1
            ctx.case(shape + (opt_tag(opts), key))
            what = KNOWN_CLASSES.get(key) or f"{c['id']} [{opt_tag(opts)}]: {out['stage']} {out['exc'] or ''} {out['msg'] or out['detail']}"[:400]
            ctx.violation(key, what, _replay(c, opts, out))


def probes(ctx, workdir, cleanup, stats):
    """Directed inputs: the witnesses of the refutation theorems replayed on the real exporter, non-ASCII names."""
    from onnx import TensorProto as TP
    from onnx import helper as h
    x3 = [np.array(a, dtype=np.float32) for a in ([1, -2, 3], [0, 0.5, -1], [4, 4, 4])]

    def mk(nodes, ins, outs):
        g = h.make_graph(nodes, "g", [h.make_tensor_value_info(n, TP.FLOAT, [3]) for n in ins],
                         [h.make_tensor_value_info(n, TP.FLOAT, [3]) for n in outs])
        return h.make_model(g, opset_imports=[h.make_opsetid("", 18)], ir_version=9)

    none = dict.fromkeys(OPT_NAMES, False)
    # witness of C13_cleanup_injective_refuted on the real exporter
    for a, b in (("a.b", "a_b"), ("1x", "__1x")):
        m = mk([h.make_node("Neg", ["x"], [a]), h.make_node("Abs", ["x"], [b]), h.make_node("Sub", [a, b], ["y"])], ["x"], ["y"])
        case = {"id": f"probe:collision:{a}|{b}", "kind": "model", "proto": m, "feeds": [{"x": v} for v in x3], "large_inits": [], "profile": "probe"}
        out = R.round_trip(case, none, workdir, R.reference_outputs(case), cleanup)
        stats["runs"] += 1
        ctx.case(("probe", "collision", a, out["stage"]))
        if out["stage"] != "ok":
            key = "C13:names:collision-after-cleanup:silently-merged" if out["stage"] in ("mismatch", "load", "run", "interface") \
                else "C13:names:collision-after-cleanup:error-only-at-exec"
            if out["stage"] == "export":
                stats["collision_refused_by_exporter"] += 1  # a descriptive error is what the property asks for
                continue
            ctx.violation(key, KNOWN_CLASSES[key], _replay(case, none, out))
    # witness of C13_loop_swap_refuted: one iteration of a body that returns its two inputs swapped (as a FunctionProto)
    body = h.make_graph([h.make_node("Identity", ["c"], ["c2"])], "body",
                        [h.make_tensor_value_info("i", TP.INT64, []), h.make_tensor_value_info("c", TP.BOOL, []),
                         h.make_tensor_value_info("a", TP.FLOAT, [3]), h.make_tensor_value_info("b", TP.FLOAT, [3])],
                        [h.make_tensor_value_info("c2", TP.BOOL, []), h.make_tensor_value_info("b", TP.FLOAT, [3]),
                         h.make_tensor_value_info("a", TP.FLOAT, [3])])
    fp = h.make_function("this", "swap_once", ["x", "y"], ["p", "q"],
                         [h.make_node("Constant", [], ["one"], value_int=1), h.make_node("Loop", ["one", "", "x", "y"], ["p", "q"], body=body)],
                         opset_imports=[h.make_opsetid("", 18)])
    vis = lambda names: [h.make_tensor_value_info(n, TP.FLOAT, [3]) for n in names]  # noqa: E731
    case = {"id": "probe:swap-loop", "kind": "function", "proto": fp, "iface": (vis(["x", "y"]), vis(["p", "q"])),
            "feeds": [{"x": v, "y": v * 2 + 1} for v in x3], "profile": "probe"}
    out = R.round_trip(case, none, workdir, R.reference_outputs(case), cleanup)
    stats["runs"] += 1
    ctx.case(("probe", "swap-loop", out["stage"]))
    if out["stage"] not in ("ok", "export"):
        key = "C13:loop:body-output-is-body-input:sequential-assignment" if out["stage"] == "mismatch" else \
            f"C13:unexpected:function:{out['stage']}:{out['exc']}:default:swap-loop-probe"
        ctx.violation(key, KNOWN_CLASSES.get(key, f"swap loop probe: {out['stage']} {out['exc']} {out['msg'][:200]}"), _replay(case, none, out))
    # the placeholder `_1` printed for an omitted second output meets a real value called `_1`
    m = mk([h.make_node("Neg", ["x"], ["_1"]), h.make_node("Dropout", ["x"], ["d", ""]), h.make_node("Add", ["_1", "d"], ["y"])], ["x"], ["y"])
    case = {"id": "probe:placeholder:_1", "kind": "model", "proto": m, "feeds": [{"x": v} for v in x3], "large_inits": [], "profile": "probe"}
    out = R.round_trip(case, none, workdir, R.reference_outputs(case), cleanup)
    stats["runs"] += 1
    ctx.case(("probe", "placeholder", out["stage"]))
    if out["stage"] not in ("ok", "export"):
        ctx.violation("C13:names:missing-output-placeholder-collides", KNOWN_CLASSES["C13:names:missing-output-placeholder-collides"], _replay(case, none, out))
    # free text of the model that reaches the generated source: node names (comments) and doc strings
    m = mk([h.make_node("Neg", ["x"], ["t"], name="first\n    t = opset18.Abs(x)"), h.make_node("Identity", ["t"], ["y"])], ["x"], ["y"])
    case = {"id": "probe:node-name-line-break", "kind": "model", "proto": m, "feeds": [{"x": v} for v in x3], "large_inits": [], "profile": "probe"}
    out = R.round_trip(case, none, workdir, R.reference_outputs(case), cleanup)
    stats["runs"] += 1
    ctx.case(("probe", "node-name-line-break", out["stage"]))
    if out["stage"] not in ("ok", "export"):
        key = "C13:comments:node-name-with-line-break:code-injected"
        ctx.violation(key, KNOWN_CLASSES[key], _replay(case, none, out))
    for doc in ('say """hi""" there', "ends with a backslash \\", "plain words", "it's 'quoted' and \"double\"", "two\nlines"):
        m = mk([h.make_node("Neg", ["x"], ["y"])], ["x"], ["y"])
        m.graph.doc_string = doc
        case = {"id": f"probe:doc-string:{doc[:12]!a}", "kind": "model", "proto": m, "feeds": [{"x": v} for v in x3], "large_inits": [], "profile": "probe"}
        out = R.round_trip(case, none, workdir, R.reference_outputs(case), cleanup)
        stats["runs"] += 1
        ctx.case(("probe", "doc-string", '"""' in doc, doc.endswith("\\"), out["stage"]))
        if out["stage"] not in ("ok", "export"):
            key = "C13:docstring:quotes-or-trailing-backslash:SyntaxError" if out["stage"] == "syntax" else \
                f"C13:unexpected:model:{out['stage']}:{out['exc']}:default:doc-string-probe"
            ctx.violation(key, KNOWN_CLASSES.get(key, f"doc string {doc!r}: {out['stage']} {out['exc']} {out['msg'][:200]}"), _replay(case, none, out))
    # use_operators looks at op_type only: a model-local function custom.Add (computing a - b) is printed as `a + b`
    # (Props/C13_nested.v C13_export_foreign_domain_operator is the same line in the emission model)
    import onnx as _onnx
    fn = h.make_function("custom", "Add", ["a", "b"], ["c"], [h.make_node("Sub", ["a", "b"], ["c"])], opset_imports=[h.make_opsetid("", 18)])
    g = h.make_graph([h.make_node("Add", ["x", "w"], ["t"], domain="custom"), h.make_node("Identity", ["t"], ["y"])], "g",
                     [h.make_tensor_value_info(n, TP.FLOAT, [3]) for n in ("x", "w")], [h.make_tensor_value_info("y", TP.FLOAT, [3])])
    m = h.make_model(g, opset_imports=[h.make_opsetid("", 18), h.make_opsetid("custom", 1)], ir_version=9, functions=[fn])
    case = {"id": "probe:operator-name-of-another-domain", "kind": "model", "proto": m, "feeds": [{"x": v, "w": v * 3 + 1} for v in x3], "large_inits": [],
            "profile": "probe"}
    opts = dict(zip(OPT_NAMES, (False, True, False, False)))
    try:
        out = R.round_trip(case, opts, workdir, R.reference_outputs(case), cleanup)
    except Exception as e:  # noqa: BLE001 -- onnxruntime cannot run the original: no verdict
        out = {"stage": "ok", "exc": type(e).__name__, "msg": str(e)[:200], "detail": "", "code": None}
    stats["runs"] += 1
    ctx.case(("probe", "operator-name-of-another-domain", out["stage"]))
    if out["stage"] == "mismatch":  # (a failure to load / run the regenerated model is the missing support for local functions, not this)
        key = "C13:use_operators:operator-name-of-another-domain:printed-as-python-operator"
        ctx.violation(key, KNOWN_CLASSES[key], _replay(case, opts, out))
    # non-ASCII names (outside the Coq model; oracle only)
    for nm in ("x²", "été", "名前", "a·b", "①"):
        m = mk([h.make_node("Neg", ["x"], [nm]), h.make_node("Abs", [nm], ["y"])], ["x"], ["y"])
        case = {"id": f"probe:non-ascii:{nm!a}", "kind": "model", "proto": m, "feeds": [{"x": v} for v in x3], "large_inits": [], "profile": "probe"}
        out = R.round_trip(case, none, workdir, R.reference_outputs(case), cleanup)
        stats["runs"] += 1
        ctx.case(("probe", "non-ascii", nm.isidentifier(), out["stage"]))
        if out["stage"] != "ok":
            ctx.violation("C13:names:non-ascii-alnum-not-identifier", KNOWN_CLASSES["C13:names:non-ascii-alnum-not-identifier"], _replay(case, none, out))


def probe_operator_table(ctx, tab, workdir, cleanup, stats):
    """Every entry of the use_operators table (regenerated from the source): a two-input model of that op must come
    back equal when printed as the Python operator -- feeds include ties, so `>` vs `>=` is visible."""
    import onnx
    from onnx import TensorProto as TP
    from onnx import helper as h
    dead, printed = [], 0
    a = np.array([[1, 2], [3, 0.5]], dtype=np.float32)
    b = np.array([[2, 2], [1, 0.5]], dtype=np.float32)
    for op, sym in tab["ops"]:
        if not onnx.defs.has(op):
            dead.append(op)  # e.g. "Lesser": no such operator, the entry can never fire
            continue
        boolean = op in ("And", "Or")
        it = TP.BOOL if boolean else TP.FLOAT
        ot = TP.BOOL if (boolean or op in ("Greater", "Less", "Equal", "GreaterOrEqual", "LessOrEqual")) else TP.FLOAT
        g = h.make_graph([h.make_node(op, ["x", "y"], ["z"]), h.make_node("Identity", ["z"], ["w"])], "g",
                         [h.make_tensor_value_info("x", it, [2, 2]), h.make_tensor_value_info("y", it, [2, 2])],
                         [h.make_tensor_value_info("w", ot, [2, 2])])
        m = h.make_model(g, opset_imports=[h.make_opsetid("", 18)], ir_version=9)
        if boolean:
            feeds = [{"x": a > 1.5, "y": b > 1.5}, {"x": a > 0, "y": b > 5}, {"x": a > 5, "y": b > 5}]
        else:
            feeds = [{"x": a, "y": b}, {"x": b, "y": a}, {"x": a, "y": a}]
        case = {"id": f"probe:operator:{op}", "kind": "model", "proto": m, "feeds": feeds, "large_inits": [], "profile": "probe"}
        opts = dict(zip(OPT_NAMES, (False, True, False, False)))
        out = R.round_trip(case, opts, workdir, R.reference_outputs(case), cleanup)
        stats["runs"] += 1
        ctx.case(("probe", "operator", op, out["stage"]))
        printed += bool(out["code"] and f"x {sym} y" in out["code"])
        if out["stage"] != "ok":
            ctx.violation(f"C13:use_operators:table-entry:{op}", f"{op} printed as `{sym}` does not come back: {out['stage']} {out['exc'] or ''} {out['msg'] or out['detail']}"[:300],
                          _replay(case, opts, out))
    ctx.cover(operator_table_entries=len(tab["ops"]), operator_entries_printed=printed, operator_entries_without_onnx_op=dead)


# ----------------------------------------------------------------------------------------------- entry

def run(ctx):
    import tempfile
    ctx.assume("names: the Coq model works on bytes; correspondence and the collision checker are exercised on printable-ASCII names only "
               "(str.isalpha/isalnum coincide with the model there); non-ASCII names are probed through the direct oracle only")
    ctx.assume("kernel semantics: onnxruntime CPU with ORT_DISABLE_ALL on both the original and the re-translated model; float outputs compared "
               "with rtol 1e-5 / atol 1e-6 and NaN = NaN (inlined literals re-enter through CastLike), other dtypes exactly")
    ctx.assume("graph outputs are compared by position, count and type; output *names* of Loop/If results are not preserved by design "
               "(the Python variable is an alias) and are only counted; input names are compared modulo the clean-up")
    ctx.assume("emission theorem (Export/Emit.v): straight-line graphs of default-domain operators; attribute values abstract (their printed text is "
               "evaluated and re-encoded by the harness before the comparison); use_operators / inline_const / skip_initializers off; "
               "an omitted node output is the empty name at its position; Python reading of the program = Script/PySem.v")
    ctx.assume("nested emission theorems (Export/EmitCF.v, EmitOpts.v): plain nodes, If, Loop in the while / for / for+break forms whose body does not read its "
               "condition input, nested to any depth; use_operators on or off (a table node printed as an operator must be the default-domain operator with two "
               "operands, one output, no attribute); skip_initializers read as: the parameters of make_model are leading parameters of the function; inline_const off "
               "(literal-text and line-level theorems only); one iteration bound for Python `while` and for ONNX Loop without trip count; the exporter's two "
               "dictionaries (remapping scope, inlined constants) are computed in traversal order before the emission")
    ctx.assume("operator text (Export/OpText.v): the reader is a precedence parser for names, non-negative NUMBER tokens, parentheses, unary minus, the binary "
               "operators of the table and `%` / `!=`; a list display is one atom; it is compared with ast.parse on every generated operator line and on generated expressions")
    ctx.assume("literal text (Export/InlineText.v): the float printer / reader are Section variables; their round trip is measured on the real _get_const_repr, not proved")
    ctx.assume("un-SSA theorem (Export/Unssa.v): the translated loop body is an abstract state transformer satisfying its specification "
               "(Section hypothesis body_spec); abstract values, no scan outputs")
    ctx.trust("onnx.checker (full_check) filters generator output; onnxruntime executes both sides; ast.parse/importlib execute the generated text")
    tab = T.extract()
    ctx.check_props()
    from onnxscript.backend import onnx_export as E
    cleanup = E._cleanup_variable_name
    from collections import Counter
    stats = Counter()
    stats["by_option"], stats["ok_by_option"], stats["failures"] = {}, {}, {}
    workdir = tempfile.mkdtemp(prefix="c13-", dir=ctx.scratch)

    corr_names(ctx, tab)
    corr_const_repr(ctx, workdir)
    measure_literal_text(ctx)
    check_keyword_table(ctx, tab, workdir, cleanup)
    templ = corr_emit(ctx, workdir, cleanup, stats)
    cf_feats = corr_cf(ctx, workdir, cleanup, stats, tab)

    quick = ctx.tier == "quick"
    models, rej1 = G.random_models(ctx.rng, 76 if quick else 180)
    funcs, rej2 = G.random_functions(ctx.rng, 20 if quick else 40)
    scripts, modname = G.script_cases(workdir, R.load_module)
    hand = G.attr_conflict_cases()
    # attribute parameters referenced inside nested bodies, value names <attr>, <attr>_0, <attr>_1 at every level:
    # functions never use skip_initializers and rename works on FunctionProtos, so all 8 tuples run on the unmodified tree
    attrs, rej3 = S.attr_nesting_cases(ctx.rng, 20 if quick else 96)
    fn_opts = [o for o in ALL_OPTS if not o["skip_initializers"]]
    for c in attrs:
        c["opts"] = fn_opts  # all 8 tuples in both tiers (session 6)
    # small constants in rank-sensitive operand positions: rename / skip_initializers are masked on models of the
    # unmodified tree, so only use_operators x inline_const vary
    ranks, rej4 = S.rank_const_cases(ctx.rng)
    m_opts = [dict(zip(OPT_NAMES, (False, u, i, False))) for i in (True, False) for u in (False, True)]
    for k, c in enumerate(ranks):
        if quick:  # Constant-node form: always with inline_const; initializer form: a third of the cases
            if c["id"].endswith(":node"):
                c["opts"] = [m_opts[0], m_opts[1 + k % 3]] if k % 4 == 0 else [m_opts[0]]
            else:
                c["opts"] = [m_opts[0]] if k % 3 == 1 else []
        else:
            c["opts"] = m_opts
    ranks = [c for c in ranks if c["opts"]]
    # the emission templates (omitted middle inputs, omitted / several outputs, attribute kinds) through the oracle as well
    templ = templ[: (26 if quick else 140)]
    for c in templ:
        c["opts"] = [ALL_OPTS[0]] + ([ctx.rng.choice([o for o in ALL_OPTS[1:] if not o["rename"] and not o["skip_initializers"]])] if not quick else [])
    # the hand-made nested features through the oracle: default options, and operators + inlined literals
    for c in cf_feats:
        c["opts"] = [ALL_OPTS[0], dict(zip(OPT_NAMES, (False, True, True, False)))]
    sub_inits = stats.pop("subinit_cases", [])
    from harness import c13_subinit as SI
    sub_inits = sub_inits + SI.round6_cases(ctx.rng)  # directed families: sibling constants, STRING tensors, value_info types
    for c in sub_inits:
        c["opts"] = list(ALL_OPTS)  # every option tuple in both tiers
    cases = scripts + hand + attrs + ranks + models + funcs + templ + cf_feats + sub_inits
    stats["generated_invalid_skipped"] = rej1 + rej2 + rej3
    stats["rank_const_illegal_combinations"] = rej4
    run_cases(ctx, cases, workdir, cleanup, stats)
    R.unload(modname)
    probes(ctx, workdir, cleanup, stats)
    probe_operator_table(ctx, tab, workdir, cleanup, stats)

    n_cases = len(cases)
    ctx.obligation("generator health: at most 10% of generated models rejected by onnx.checker / onnxruntime",
                   (rej1 + rej2 + stats["unrunnable_originals"]) <= 0.1 * max(1, n_cases),
                   f"rejected {rej1 + rej2}, unrunnable {stats['unrunnable_originals']} {stats.get('unrunnable_example', '')}")
    ctx.obligation("oracle health: at least a fifth of the round trips complete and agree (the check is not blind)",
                   stats["ok"] >= 0.2 * max(1, stats["runs"]), f"{stats['ok']} of {stats['runs']}")
    ctx.cover(attr_nesting_functions=len(attrs), rank_const_models=len(ranks), rank_const_illegal_combinations=rej4)
    ctx.cover(subgraph_initializer_models=len(sub_inits), subgraph_initializer_models_with_two_skipped_of_one_name=sum(1 for c in sub_inits if c["dup_skipped"]),
              refused_same_name_skipped_initializers=stats["refused_same_name_skipped_initializers"])
    ctx.obligation("generator health: the subgraph-initializer family contains models with two skipped initializers of one name and models without",
                   any(c["dup_skipped"] for c in sub_inits) and any(not c["dup_skipped"] for c in sub_inits), f"{len(sub_inits)} models")
    ctx.cover(models=len(models), functions=len(funcs), script_cases=len(scripts), hand_cases=len(hand),
              round_trips=stats["runs"], round_trips_equal=stats["ok"], by_option=stats["by_option"], equal_by_option=stats["ok_by_option"],
              failures_by_class=stats["failures"], models_with_name_collisions=stats["models_with_collisions"],
              output_names_changed=stats["output_names_changed"], make_model_protocol_runs=stats["make_model_protocol"],
              generated_invalid_skipped=stats["generated_invalid_skipped"], refused_descriptively=stats["refused_descriptively"], unrunnable_originals=stats["unrunnable_originals"],
              option_tuples="all 16" if not quick else "default + 3 random per case (structure correspondence and attribute-parameter functions: every tuple)",
              not_modelled="attribute pretty-printing (observed through execution only); _handle_attrname_conflict is modelled (Export/AttrNames.v) and compared, no theorem; inline_const is modelled (Export/EmitCF.v) and "
                           "compared, covered by literal-text and line-level theorems only; bodies reading their condition input are compared, not in a theorem; "
                           "If nodes whose outputs are all unused are not generated (the converter refuses them)")
    if ctx.tier == "thorough":
        ctx.coqchk(["Props.C13", "Props.C13_unssa", "Props.C13_constrepr", "Props.C13_emit", "Props.C13_nested", "Props.C13_unique", "Props.C13_options", "Props.C13_roundtrip", "Props.C13_findings", "Props.C13_loopforms", "Props.C13_optsem", "Props.C13_inline", "Props.C13_rename"])
