(* C13 property theorems (the heart: the exported program means what the graph means).
   Statements only, each closed by `exact`, Print Assumptions beneath.

   Export/Emit.v `export_graph kw prename rename fname ivals g` is the Python function the exporter prints for a
   straight-line graph g with initializer values ivals (one assignment per initializer and per node, in order;
   `None` for an omitted input, `_<i>` for an omitted output, tuple assignment for several outputs, parameters
   named by `prename`, everything else by `rename`, `return` of the outputs).  Its meaning is Script/PySem.v
   `eval_script`; the graph's meaning is Graph/Sem.v `eval_graph`; `sem` (the kernels) is arbitrary.

   NOT covered here: control flow (If / Loop / Scan bodies: export_graph = None there; the assignments emitted
   around a Loop are the subject of Props/C13_unssa.v), the *text* of attribute values (attributes are carried as
   values; the printed text is compared by evaluation in the harness), the options use_operators, inline_const
   (Props/C13_constrepr.v) and skip_initializers, nodes of other domains, attribute parameters of functions,
   type annotations, and the way back (converter: C01). *)
From Coq Require Import List String ZArith.
Import ListNotations.
Require Import OV.Gen.ExportTables OV.Export.Cleanup OV.Graph.Syntax OV.Graph.Names OV.Graph.Sem OV.Script.Syntax OV.Script.PySem
               OV.Export.Emit OV.Export.EmitProofs.
Local Open Scope string_scope.

(* The full statement, for an exporter `ex` defined on every tensor-typed graph with If and Loop bodies: kept
   visible; what is proved below is this statement for ex = export_graph, which is None on control flow. *)
Definition C13_export_sound_full
  (ex : list string -> (vname -> string) -> (vname -> string) -> string -> list (vname * attrv) -> graph -> option func) : Prop :=
  forall (V : Type) sem truth trip of_nat of_bool loop_limit while_limit globals kw prename rename fname ivals g f,
    ex kw prename rename fname ivals g = Some f ->
    rename_injb rename g = true -> placeholders_freeb rename g = true -> reserved_freeb rename g = true ->
    params_agreeb prename rename g = true -> inits_stableb rename g = true ->
    exists fuel0, forall fu1 fu2 xs, fuel0 <= fu1 -> fuel0 <= fu2 ->
      eval_script V sem truth trip of_nat while_limit globals fu1 f xs =
      match init_env V sem ivals with
      | Some outer => eval_graph V sem truth trip of_nat of_bool loop_limit fu2 outer g xs
      | None => None
      end.

(* For every kernel semantics: if the exporter's renamer is injective on the value names of g (rename_injb; with
   the exporter's own clean-up this IS collision_freeb), prints no placeholder / None / empty name that is also a
   value's name, names the parameters as the body does, and g is straight-line well formed (every name defined
   once and before its uses, outputs defined, input counts within the operator schemas) -- all of it decided by
   the executable `emit_okb` -- then calling the exported function and evaluating the graph give the SAME result:
   both Some of the same values, or both None (a kernel fails, or the argument count differs). *)
Theorem C13_export_straightline_sound_partial :
  forall (V : Type) sem truth trip of_nat of_bool loop_limit while_limit globals kw prename rename fname ivals g f,
    export_graph kw prename rename fname ivals g = Some f ->
    emit_okb kw prename rename ivals g = true ->
    forall fu1 fu2 xs,
      eval_script V sem truth trip of_nat while_limit globals (S fu1) f xs =
      match init_env V sem ivals with
      | Some outer => eval_graph V sem truth trip of_nat of_bool loop_limit (S fu2) outer g xs
      | None => None
      end.
Proof. exact export_sound. Qed.
Print Assumptions C13_export_straightline_sound_partial.

(* the hypothesis on the renamer is exactly injectivity on the value names of the graph ... *)
Theorem C13_export_rename_check_sound : forall rename g, rename_injb rename g = true ->
  forall a b, In a (names_graph g) -> In b (names_graph g) -> a <> "" -> b <> "" -> rename a = rename b -> a = b.
Proof. exact rename_injb_sound. Qed.
Print Assumptions C13_export_rename_check_sound.

Theorem C13_export_rename_check_complete : forall rename g, rename_injb rename g = false ->
  exists a b, In a (names_graph g) /\ In b (names_graph g) /\ a <> "" /\ b <> "" /\ a <> b /\ rename a = rename b.
Proof. exact rename_injb_complete. Qed.
Print Assumptions C13_export_rename_check_complete.

(* ... and with the exporter's clean-up as renamer it is the collision check of Props/C13.v *)
Theorem C13_export_rename_check_is_collision_free : forall g,
  rename_injb (cleanup kwlist) g = collision_freeb kwlist (filter nonempty (names_graph g)).
Proof. exact (rename_injb_cleanup kwlist). Qed.
Print Assumptions C13_export_rename_check_is_collision_free.

(* Without injectivity the statement is false of the faithful model: `a.b` and `a_b` become one variable and the
   exported program computes something else (0 instead of -2 on input 1).  Every other side condition holds.
   Replayed on the real exporter by the harness: known finding C13:names:collision-after-cleanup:silently-merged. *)
Theorem C13_export_collision_refuted :
  exists g f xs a b,
    okb_but_inj kwlist (cleanup kwlist) (cleanup kwlist) [] g = true /\
    rename_injb (cleanup kwlist) g = false /\
    export_graph kwlist (cleanup kwlist) (cleanup kwlist) "g" [] g = Some f /\
    zscript f xs = Some a /\ zgraph [] g xs = Some b /\ a <> b.
Proof. exact export_collision_refuted. Qed.
Print Assumptions C13_export_collision_refuted.

(* rename=True on a ModelProto: parameters keep their cleaned names, the body uses v1, v2, ...: the program
   fails (unbound name) where the graph has a value.  Known finding C13:rename:model-signature-not-renamed. *)
Theorem C13_export_model_signature_refuted :
  exists g seq f xs b,
    okb_but_params kwlist (short_map kwlist seq) [] g = true /\
    params_agreeb (cleanup kwlist) (short_map kwlist seq) g = false /\
    export_graph kwlist (cleanup kwlist) (short_map kwlist seq) "g" [] g = Some f /\
    zscript f xs = None /\ zgraph [] g xs = Some b.
Proof. exact export_model_signature_refuted. Qed.
Print Assumptions C13_export_model_signature_refuted.

(* the placeholder `_1` of an omitted second output overwrites a value named `_1`.
   Known finding C13:names:missing-output-placeholder-collides. *)
Theorem C13_export_placeholder_refuted :
  exists g f xs a b,
    okb_but_placeholders kwlist (cleanup kwlist) (cleanup kwlist) [] g = true /\
    placeholders_freeb (cleanup kwlist) g = false /\
    export_graph kwlist (cleanup kwlist) (cleanup kwlist) "g" [] g = Some f /\
    zscript f xs = Some a /\ zgraph [] g xs = Some b /\ a <> b.
Proof. exact export_placeholder_refuted. Qed.
Print Assumptions C13_export_placeholder_refuted.

(* non-vacuity of the soundness theorem: an initializer, an omitted middle input, an omitted output, a
   two-output node, a keyword and a dotted name, attributes -- emit_okb holds, the export is the expected
   program, and both sides evaluate to the same two values *)
Example C13_export_example :
  emit_okb kwlist (cleanup kwlist) (cleanup kwlist) iv_example g_example = true /\
  export_graph kwlist (cleanup kwlist) (cleanup kwlist) "g" iv_example g_example = Some f_example /\
  zscript f_example [9%Z] = Some [11%Z; 5%Z] /\
  option_map (fun outer => zgraph outer g_example [9%Z]) (init_env Z zsem iv_example) = Some (Some [11%Z; 5%Z]).
Proof. exact export_example. Qed.
