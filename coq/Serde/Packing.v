(* Sub-byte tensor payload codecs of onnx_ir (C15): onnx_ir/_type_casting.py pack_4bitx2 / unpack_4bitx2 and
   pack_2bitx4 / unpack_2bitx4, as used by ir.Tensor.tobytes / TensorProtoTensor.numpy for INT4, UINT4, FLOAT4E2M1,
   INT2, UINT2.  Elements are the int8/uint8 storage values of the array; bytes are integers.  No proofs here. *)
From Coq Require Import ZArith List Bool.
Import ListNotations.
Open Scope Z_scope.

(* array.view(uint8) & 0x0F  -- two's complement storage, so a signed element e contributes e mod 16 *)
Definition nib (e : Z) : Z := e mod 16.
Definition crumb (e : Z) : Z := e mod 4.

(* pack_4bitx2: odd length padded with one zero element; even index -> low nibble, odd index -> high nibble *)
Fixpoint pack4 (l : list Z) : list Z :=
  match l with
  | [] => []
  | [a] => [nib a]
  | a :: b :: r => (nib a + 16 * nib b) :: pack4 r
  end.

Fixpoint unpack4_all (bs : list Z) : list Z :=
  match bs with [] => [] | b :: r => (b mod 16) :: (b / 16) :: unpack4_all r end.
(* ndarray.resize(dims): truncate or zero-fill to n elements *)
Definition resize (n : nat) (l : list Z) : list Z := firstn n (l ++ repeat 0 (n - length l)).
(* unpack_4bitx2(data, dims) with n = prod(dims): drop the padding nibble when there is exactly one, then resize *)
Definition unpack4 (n : nat) (bs : list Z) : list Z :=
  let r := unpack4_all bs in
  resize n (if Nat.eqb (length r) (S n) then removelast r else r).

(* .view(int4): the nibble read back as a signed 4-bit value *)
Definition sext4 (v : Z) : Z := if v <? 8 then v else v - 16.
Definition sext2 (v : Z) : Z := if v <? 2 then v else v - 4.

(* pack_2bitx4: padded to a multiple of 4 with zero elements; element i of each group at bits 2i..2i+1 *)
Fixpoint pack2 (l : list Z) : list Z :=
  match l with
  | [] => []
  | [a] => [crumb a]
  | [a; b] => [crumb a + 4 * crumb b]
  | [a; b; c] => [crumb a + 4 * crumb b + 16 * crumb c]
  | a :: b :: c :: d :: r => (crumb a + 4 * crumb b + 16 * crumb c + 64 * crumb d) :: pack2 r
  end.
Fixpoint unpack2_all (bs : list Z) : list Z :=
  match bs with
  | [] => []
  | b :: r => (b mod 4) :: ((b / 4) mod 4) :: ((b / 16) mod 4) :: (b / 64) :: unpack2_all r
  end.
(* unpack_2bitx4: keep the first prod(dims) elements, then resize *)
Definition unpack2 (n : nat) (bs : list Z) : list Z :=
  let r := unpack2_all bs in
  resize n (if Nat.ltb n (length r) then firstn n r else r).

(* ---- byte-sized and two-byte element types.  onnx_ir does not pack these: Tensor.tobytes is the little-endian array,
   TensorProtoTensor.numpy reads raw_data with np.frombuffer(dtype '<'), and the int32_data carrier is narrowed with
   astype(uint16) / astype(uint8) (FLOAT16, BFLOAT16, INT16, UINT16 / FLOAT8E4M3FN, FLOAT8E4M3FNUZ, FLOAT8E5M2,
   FLOAT8E5M2FNUZ, FLOAT8E8M0, INT8, UINT8, BOOL, and the already packed bytes of the 4-bit and 2-bit types).
   Elements are bit patterns. *)
Fixpoint enc16 (l : list Z) : list Z :=
  match l with [] => [] | v :: r => (v mod 256) :: ((v / 256) mod 256) :: enc16 r end.
Fixpoint dec16 (bs : list Z) : list Z :=
  match bs with lo :: hi :: r => (lo + 256 * hi) :: dec16 r | _ => [] end.
Definition enc8 (l : list Z) : list Z := map (fun v => v mod 256) l.
Definition dec8 (bs : list Z) : list Z := bs.
(* int32_data -> payload bytes (TensorProtoTensor.tobytes) *)
Definition int32_to_bytes16 (l : list Z) : list Z := enc16 (map (fun v => v mod 65536) l).
Definition int32_to_bytes8 (l : list Z) : list Z := map (fun v => v mod 256) l.
(* int32_data -> elements (TensorProtoTensor.numpy().view(uintN)) *)
Definition int32_to_elems16 (l : list Z) : list Z := map (fun v => v mod 65536) l.
Definition int32_to_elems8 (l : list Z) : list Z := map (fun v => v mod 256) l.

(* correspondence helpers *)
Fixpoint zs_eqb (a b : list Z) : bool :=
  match a, b with [], [] => true | x :: r, y :: s => Z.eqb x y && zs_eqb r s | _, _ => false end.
Fixpoint disagreeing (i : nat) (cs : list bool) : list nat :=
  match cs with [] => [] | c :: t => (if c then [] else [i]) ++ disagreeing (S i) t end.
