(* C10 -- the C-API fallback (Fallback.v): whatever the oracle returns, initializers, graph inputs and -- on failure --
   the whole model are what they were; torch_2_9.convert_version never raises on a natively unsupported request. *)
From Coq Require Import ZArith List Bool String Lia.
Import ListNotations.
Require Import OV.Gen.VersionTables OV.Version.Model OV.Version.Model2 OV.Version.Adapters OV.Version.Std OV.Version.CApi
               OV.Version.CApiProofs OV.Version.ConvertProofs OV.Version.Model2Proofs OV.Version.Fallback OV.Version.FallbackStd.
Local Open Scope Z_scope.

(* ---------------------------------------------------------------- lists of names *)
Lemma smemb_In : forall k l, smemb k l = true -> In k l.
Proof.
  intros k l H. unfold smemb in H. apply existsb_exists in H as (x & Hin & E). apply String.eqb_eq in E. now subst.
Qed.
Lemma In_smemb : forall k l, In k l -> smemb k l = true.
Proof. intros k l H. unfold smemb. apply existsb_exists. exists k. split; [exact H|apply String.eqb_refl]. Qed.

Lemma lookup_some_in : forall k l v, lookup_init k l = Some v -> In k (keys l).
Proof.
  intros k. induction l as [|[a w] r IH]; intros v H; [discriminate|]. cbn in *.
  destruct (String.eqb a k) eqn:E; [left; now apply String.eqb_eq|right; eauto].
Qed.

(* every saved initializer is a graph input of what func is given *)
Lemma prepare_keys_in_inputs : forall limit saved g k,
  In k (keys saved) -> In k (map fst (g_inputs (prepare limit saved g))).
Proof.
  intros limit. induction saved as [|[a v] r IH]; intros g k H; [contradiction|]. cbn [prepare].
  set (g' := GSig (if smemb a (map fst (g_inputs g)) then g_inputs g else (g_inputs g ++ [(a, t_ty v)])%list) (g_outputs g)
                  (if t_size v >? limit then remove_key a (g_inits g) else g_inits g)).
  cbn [keys map fst] in H. destruct H as [<-|H]; [|now apply IH].
  destruct (prepare_inputs limit r g') as (extra & E). rewrite E, map_app. apply in_or_app. left.
  subst g'. cbn [g_inputs]. destruct (smemb a (map fst (g_inputs g))) eqn:Em; [now apply smemb_In|].
  rewrite map_app. apply in_or_app. right. now left.
Qed.

(* ---------------------------------------------------------------- the recovery loop, as a map *)
Lemma recover_lookup : forall k orig ins its,
  lookup_init k (fold_left (recover_step orig) ins its)
  = match lookup_init k orig with
    | Some v => if smemb k (map fst ins) then Some v else lookup_init k its
    | None => lookup_init k its
    end.
Proof.
  intros k orig. induction ins as [|[a ty] r IH]; intros its.
  - cbn. now destruct (lookup_init k orig).
  - cbn [fold_left map fst]. rewrite IH. unfold recover_step. cbn [fst].
    unfold smemb. cbn [existsb]. fold (smemb k (map fst r)).
    destruct (String.eqb k a) eqn:E.
    + apply String.eqb_eq in E. subst a. destruct (lookup_init k orig) as [v|] eqn:Eo; [|reflexivity].
      cbn [orb]. rewrite lookup_assign, String.eqb_refl. now destruct (smemb k (map fst r)).
    + cbn [orb]. destruct (lookup_init k orig) as [v|]; destruct (lookup_init a orig) as [w|]; try reflexivity;
        rewrite lookup_assign; rewrite String.eqb_sym in E; now rewrite E.
Qed.

Lemma keys_assign_in : forall k v l, In k (keys l) -> keys (assign_key k v l) = keys l.
Proof.
  intros k v. induction l as [|[a w] r IH]; intros H; [contradiction|]. cbn.
  destruct (String.eqb a k) eqn:E; [apply String.eqb_eq in E; now subst|].
  cbn. f_equal. apply IH. destruct H as [H|H]; [|exact H]. cbn in H. subst a. now rewrite String.eqb_refl in E.
Qed.

Lemma recover_keys_same : forall orig ins its, keys its = keys orig ->
  keys (fold_left (recover_step orig) ins its) = keys orig.
Proof.
  intros orig. induction ins as [|[a ty] r IH]; intros its H; [exact H|]. cbn [fold_left]. apply IH.
  unfold recover_step. cbn [fst]. destruct (lookup_init a orig) as [v|] eqn:E; [|exact H].
  rewrite keys_assign_in; [exact H|]. rewrite H. eapply lookup_some_in; eauto.
Qed.

(* two tables with the same keys in the same order and the same contents are the same list *)
Lemma inits_ext : forall a b, keys a = keys b -> NoDup (keys a) ->
  (forall k, lookup_init k a = lookup_init k b) -> a = b.
Proof.
  induction a as [|[k v] a' IH]; intros [|[k' w] b'] Hk Hn Hl; try discriminate; [reflexivity|].
  cbn in Hk. injection Hk as <- Hk'. cbn [keys map fst] in Hn. inversion Hn as [|? ? Hnotin Hn']; subst.
  pose proof (Hl k) as H0. cbn in H0. rewrite String.eqb_refl in H0. injection H0 as <-.
  f_equal. apply IH; auto. intros x. pose proof (Hl x) as Hx. cbn in Hx.
  destruct (String.eqb k x) eqn:E; [|exact Hx].
  apply String.eqb_eq in E. subst x. rewrite (lookup_none_notin k a' Hnotin).
  symmetry. apply lookup_none_notin. unfold keys in *. now rewrite <- Hk'.
Qed.

(* ---------------------------------------------------------------- the C-API branch *)
Section Branch.
  Variable limit : Z.
  Variable capi : state -> Z -> option state.

  Definition seen_of (S0 : state) : gsig := fst (call_onnx_api true limit (st_sig S0)).

  (* FAILURE (func raised anything): "never half-converted" -- the model part is the very one passed in, the graph
     signature is restored: inputs (names, order, types) and outputs exactly, the initializer table as a map with the
     original payloads; exactly, order included, when no initializer is above the size limit *)
  Theorem capi_failure_unchanged : forall S0 t, NoDup (keys (g_inits (st_sig S0))) ->
    capi (serialized S0 (seen_of S0)) t = None ->
    exists g', capi_branch limit capi S0 t = FDone (St (st_model S0) g') false [] /\
      g_inputs g' = g_inputs (st_sig S0) /\ g_outputs g' = g_outputs (st_sig S0) /\
      (forall k, lookup_init k (g_inits g') = lookup_init k (g_inits (st_sig S0))) /\
      (Forall (fun kv => t_size (snd kv) <= limit) (g_inits (st_sig S0)) -> St (st_model S0) g' = S0).
  Proof.
    intros S0 t Hn Hc. unfold capi_branch. unfold seen_of in Hc.
    destruct (call_onnx_api true limit (st_sig S0)) as [seen after] eqn:Ec. cbn [fst] in Hc. rewrite Hc.
    exists after. split; [reflexivity|].
    pose proof (call_onnx_api_restores limit (st_sig S0) Hn) as R. cbn zeta in R. rewrite Ec in R. cbn [snd] in R.
    destruct R as (Ri & Ro & Rl). repeat split; auto.
    intros Hs. pose proof (call_onnx_api_restores_exactly_small limit (st_sig S0) Hn Hs) as Re. rewrite Ec in Re. cbn [snd] in Re.
    destruct S0 as [M0 g0]. cbn in *. f_equal. destruct after, g0. cbn in *. now subst.
  Qed.

  (* SUCCESS, oracle keeps the interface it was given (the inputs it returns start with the inputs it got -- names, order
     and types; it may append): graph inputs are the original ones exactly; EVERY original initializer is present with its
     ORIGINAL payload whatever the oracle did to the copy it saw; names that were not initializers are what the oracle
     returned; the functions stay; nodes and imports are the oracle's *)
  Theorem capi_success_frame : forall S0 t P, NoDup (keys (g_inits (st_sig S0))) ->
    capi (serialized S0 (seen_of S0)) t = Some P ->
    (exists extra, g_inputs (st_sig P) = (g_inputs (seen_of S0) ++ extra)%list) ->
    exists S', capi_branch limit capi S0 t = FDone S' true [] /\
      g_inputs (st_sig S') = g_inputs (st_sig S0) /\
      g_outputs (st_sig S') = g_outputs (st_sig P) /\
      (forall k, lookup_init k (g_inits (st_sig S'))
                 = match lookup_init k (g_inits (st_sig S0)) with Some v => Some v | None => lookup_init k (g_inits (st_sig P)) end) /\
      m_funcs (st_model S') = m_funcs (st_model S0) /\ m_graph (st_model S') = m_graph (st_model P) /\
      m_decl (st_model S') = m_decl (st_model P) /\ m_ai (st_model S') = m_ai (st_model P).
  Proof.
    intros S0 t P Hn Hc (extra & Hp). unfold capi_branch. unfold seen_of in Hc, Hp.
    destruct (call_onnx_api true limit (st_sig S0)) as [seen after] eqn:Ec. cbn [fst] in Hc, Hp. rewrite Hc.
    eexists. split; [reflexivity|]. unfold adopt. cbn [st_sig st_model g_inputs g_outputs g_inits m_funcs m_graph m_decl m_ai].
    pose proof (call_onnx_api_restores limit (st_sig S0) Hn) as R. cbn zeta in R. rewrite Ec in R. cbn [snd] in R.
    destruct R as (Ri & Ro & Rl).
    assert (Es : seen = prepare limit (g_inits (st_sig S0)) (st_sig S0)) by (unfold call_onnx_api in Ec; now injection Ec).
    repeat split.
    - rewrite Hp, Es. destruct (prepare_inputs limit (g_inits (st_sig S0)) (st_sig S0)) as (e1 & E1). rewrite E1, <- app_assoc.
      rewrite firstn_app, Nat.sub_diag, firstn_all. cbn. now rewrite app_nil_r.
    - intros k. unfold recover. rewrite recover_lookup, Rl.
      destruct (lookup_init k (g_inits (st_sig S0))) as [v|] eqn:El; [|reflexivity].
      assert (Hin : In k (map fst (g_inputs (st_sig P)))).
      { rewrite Hp, map_app. apply in_or_app. left. rewrite Es. apply prepare_keys_in_inputs. eapply lookup_some_in; eauto. }
      now rewrite (In_smemb _ _ Hin).
  Qed.

  (* ... exactly, ORDER included, when no initializer is above the size limit and the oracle returns the table it saw
     with the same names in the same order (whatever payloads) *)
  Theorem capi_success_inits_exact_small : forall S0 t P, NoDup (keys (g_inits (st_sig S0))) ->
    Forall (fun kv => t_size (snd kv) <= limit) (g_inits (st_sig S0)) ->
    capi (serialized S0 (seen_of S0)) t = Some P ->
    (exists extra, g_inputs (st_sig P) = (g_inputs (seen_of S0) ++ extra)%list) ->
    keys (g_inits (st_sig P)) = keys (g_inits (st_sig S0)) ->
    exists S', capi_branch limit capi S0 t = FDone S' true [] /\ g_inits (st_sig S') = g_inits (st_sig S0).
  Proof.
    intros S0 t P Hn Hs Hc Hp Hk.
    destruct (capi_success_frame S0 t P Hn Hc Hp) as (S' & E & _ & _ & Hl & _). exists S'. split; [exact E|].
    unfold capi_branch in E. destruct (call_onnx_api true limit (st_sig S0)) as [seen after] eqn:Ec.
    unfold seen_of in Hc. rewrite Ec in Hc. cbn [fst] in Hc. rewrite Hc in E. injection E as <-.
    pose proof (call_onnx_api_restores_exactly_small limit (st_sig S0) Hn Hs) as Re. rewrite Ec in Re. cbn [snd] in Re.
    unfold adopt in *. cbn [st_sig g_inits] in *. rewrite Re in *.
    apply inits_ext.
    - unfold recover. apply recover_keys_same. exact Hk.
    - unfold recover. rewrite recover_keys_same; auto.
    - intros k. rewrite Hl. destruct (lookup_init k (g_inits (st_sig S0))) eqn:E0; [reflexivity|].
      apply lookup_none_notin. rewrite Hk. intros Hin.
      assert (exists v, lookup_init k (g_inits (st_sig S0)) = Some v).
      { clear -Hin. induction (g_inits (st_sig S0)) as [|[a w] r IH]; [contradiction|]. cbn in *.
        destruct (String.eqb a k) eqn:E; [eauto|]. destruct Hin as [H|H]; [subst; now rewrite String.eqb_refl in E|auto]. }
      destruct H as (v & Hv). congruence.
  Qed.

  (* the model part after a success: the oracle's answer is a deserialized proto (no node carries a version), so it is
     consistent with WHATEVER default-domain opset it declares -- declared opset matches the nodes *)
  Theorem capi_success_consistent : forall S0 t P X c,
    capi (serialized S0 (seen_of S0)) t = Some P -> st_model P = of_proto X ->
    m_decl X = Some c -> oz_none_or (m_ai X) c = true -> m_funcs (st_model S0) = [] ->
    exists S', capi_branch limit capi S0 t = FDone S' true [] /\ state_consistent_at c S' = true.
  Proof.
    intros S0 t P X c Hc HX Hd Ha Hf. unfold capi_branch. unfold seen_of in Hc.
    destruct (call_onnx_api true limit (st_sig S0)) as [seen after] eqn:Ec. cbn [fst] in Hc. rewrite Hc.
    eexists. split; [reflexivity|]. unfold state_consistent_at, adopt, consistent_at. cbn [st_model m_decl m_ai m_graph m_funcs].
    rewrite HX, Hf. unfold of_proto. cbn [m_decl m_ai m_graph m_funcs forallb]. rewrite Hd, Ha. cbn [oz_is]. rewrite Z.eqb_refl. cbn [andb].
    rewrite andb_true_r. apply forallb_forall. intros n Hin. apply in_map_iff in Hin as (m & <- & _). apply at_version_strip.
  Qed.
End Branch.

(* ---------------------------------------------------------------- the pass and the torch wrapper *)
Section Pass.
  Variables own refuse : bool.
  Variable minchk : minvar.
  Variable adapt : adapter.
  Variables smin smax : Z.
  Variable fuel : nat.
  Variable limit : Z.
  Variable capi : state -> Z -> option state.
  Variables inline cleanup : state -> state.

  Let call := requires_inline_call own refuse minchk adapt smin smax fuel limit capi.
  Let torch := torch_2_9_convert own refuse minchk adapt smin smax fuel limit capi inline cleanup.

  (* the native branch never touches inputs, outputs or initializers (frame), raising or not *)
  Theorem native_branch_frame : forall fb S0 t r,
    oz_is (m_decl (st_model S0)) t = false -> negb fb || supported smin smax (st_model S0) t = true ->
    call fb S0 t = r ->
    match r with FDone S' _ _ => st_sig S' = st_sig S0 | FRaised _ S' _ => st_sig S' = st_sig S0 end.
  Proof.
    intros fb S0 t r H1 H2 <-. unfold call, requires_inline_call. rewrite H1, H2.
    now destruct (convert_native2 own refuse minchk adapt smin smax fuel (st_model S0) t).
  Qed.

  (* fallback on, request natively unsupported: NEVER an exception; the state is the C API's answer adopted, or -- when the
     C API fails -- the state passed in with its signature restored *)
  Theorem fallback_never_raises : forall S0 t,
    supported smin smax (st_model S0) t = false ->
    exists S' md, call true S0 t = FDone S' md [] /\
      (md = false -> st_model S' = st_model S0).
  Proof.
    intros S0 t Hs. unfold call, requires_inline_call.
    destruct (oz_is (m_decl (st_model S0)) t); [eauto|]. rewrite Hs. cbn [negb orb]. unfold capi_branch.
    destruct (call_onnx_api true limit (st_sig S0)) as [seen after].
    destruct (capi (serialized S0 seen) t); [do 2 eexists; split; [reflexivity|discriminate]|eauto].
  Qed.

  (* _framework_apis.torch_2_9.convert_version on a request outside smin <= s <= t <= smax (inlining succeeded):
     it returns; the result is
       (a) the C API's answer (consistent at the opset c it declares -- any c), or
       (b) the inlined model as it was (same model part; signature restored; consistent at s),
     cleaned up either way: declared opset matches the nodes in both cases *)
  Theorem torch_2_9_unsupported_returns : forall S0 s t,
    (forall v S1, state_consistent_at v S1 = true -> state_consistent_at v (cleanup S1) = true) ->
    state_consistent_at s (inline S0) = true -> m_funcs (st_model (inline S0)) = [] ->
    NoDup (keys (g_inits (st_sig (inline S0)))) ->
    (forall P, capi (serialized (inline S0) (seen_of limit (inline S0))) t = Some P ->
               exists X c, st_model P = of_proto X /\ m_decl X = Some c /\ oz_none_or (m_ai X) c = true) ->
    supported smin smax (st_model (inline S0)) t = false -> s <> t ->
    exists S' md, torch S0 t = FDone S' md [] /\
      ((md = true /\ exists c, state_consistent_at c S' = true) \/
       (md = false /\ state_consistent_at s S' = true /\
        exists g', S' = cleanup (St (st_model (inline S0)) g') /\
                   g_inputs g' = g_inputs (st_sig (inline S0)) /\ g_outputs g' = g_outputs (st_sig (inline S0)) /\
                   forall k, lookup_init k (g_inits g') = lookup_init k (g_inits (st_sig (inline S0))))).
  Proof.
    intros S0 s t Hclean Hcons Hf Hn Horacle Hs Hne.
    unfold torch, torch_2_9_convert, pass_call, requires_inline_call.
    assert (Hd : oz_is (m_decl (st_model (inline S0))) t = false).
    { unfold state_consistent_at in Hcons. apply consistent_at_inv in Hcons as (H1 & _). apply oz_is_eq in H1. rewrite H1. cbn.
      apply Z.eqb_neq. exact Hne. }
    rewrite Hd, Hs. cbn [negb orb].
    destruct (capi (serialized (inline S0) (seen_of limit (inline S0))) t) as [P|] eqn:Ec.
    - destruct (Horacle P eq_refl) as (X & c & HX & HdX & HaX).
      destruct (capi_success_consistent limit capi (inline S0) t P X c Ec HX HdX HaX Hf) as (S' & E & Hc'). rewrite E.
      do 2 eexists. split; [reflexivity|]. left. split; [reflexivity|]. exists c. now apply Hclean.
    - destruct (capi_failure_unchanged limit capi (inline S0) t Hn Ec) as (g' & E & Hi & Ho & Hl & _). rewrite E.
      do 2 eexists. split; [reflexivity|]. right. split; [reflexivity|]. split; [now apply Hclean|].
      exists g'. auto.
  Qed.

  (* the whole pass (any fallback flag), function-opset repair in (own = true), any variant of the two pre-checks: a run
     that returns without a logged skip leaves a model whose declared opset matches its nodes --
       at the target (native branch, or already there), or
       at the opset the C API's answer declares (fallback branch, success), or
       at the source, the model part untouched (fallback branch, the C API failed) *)
  Hypothesis adapt_flat : forall op k n news,
    adapt op k n = AReplace news -> Forall (fun m => n_subs m = []) news.

  Theorem pass_call_consistent : forall fb S0 s t S' md,
    own = true ->
    (forall v S1, state_consistent_at v S1 = true -> state_consistent_at v (cleanup S1) = true) ->
    state_consistent_at s (inline S0) = true -> m_funcs (st_model (inline S0)) = [] ->
    (forall P, capi (serialized (inline S0) (seen_of limit (inline S0))) t = Some P ->
               exists X c, st_model P = of_proto X /\ m_decl X = Some c /\ oz_none_or (m_ai X) c = true) ->
    pass_call own refuse minchk adapt smin smax fuel limit capi inline cleanup fb S0 t = FDone S' md [] ->
    state_consistent_at t S' = true \/
    (md = true /\ fb = true /\ supported smin smax (st_model (inline S0)) t = false /\ exists c, state_consistent_at c S' = true) \/
    (md = false /\ fb = true /\ supported smin smax (st_model (inline S0)) t = false /\ state_consistent_at s S' = true /\
     exists g', S' = cleanup (St (st_model (inline S0)) g')).
  Proof.
    intros fb S0 s t S' md Hown Hclean Hcons Hf Horacle H. subst own.
    unfold pass_call, requires_inline_call in H.
    pose proof Hcons as Hc0. unfold state_consistent_at in Hc0. apply consistent_at_inv in Hc0 as (H1 & H2 & H3 & H4).
    destruct (oz_is (m_decl (st_model (inline S0))) t) eqn:Ed.
    - injection H as <- _. left. apply oz_is_eq in H1. rewrite H1 in Ed. cbn in Ed. apply Z.eqb_eq in Ed. subst t. now apply Hclean.
    - destruct (negb fb || supported smin smax (st_model (inline S0)) t) eqn:Eb.
      + destruct (convert_native2 true refuse minchk adapt smin smax fuel (st_model (inline S0)) t) as [M l|e M l] eqn:En; [|discriminate].
        injection H as <- _ ->. left. apply Hclean. unfold state_consistent_at. cbn [st_model].
        eapply (native2_own_consistent adapt smin smax fuel adapt_flat refuse minchk s t); [|exact En].
        unfold locally_consistent. rewrite H1, H2, H3, Hf. reflexivity.
      + apply orb_false_iff in Eb as [Efb Es]. apply negb_false_iff in Efb.
        destruct (capi (serialized (inline S0) (seen_of limit (inline S0))) t) as [P|] eqn:Ec.
        * destruct (Horacle P eq_refl) as (X & c & HX & HdX & HaX).
          destruct (capi_success_consistent limit capi (inline S0) t P X c Ec HX HdX HaX Hf) as (S2 & E & Hc'). rewrite E in H.
          injection H as <- <-. right. left. repeat split; auto. exists c. now apply Hclean.
        * unfold capi_branch in H. unfold seen_of in Ec.
          destruct (call_onnx_api true limit (st_sig (inline S0))) as [seen after]. cbn [fst] in Ec. rewrite Ec in H.
          injection H as <- <-. right. right. repeat split; auto. exists after. reflexivity.
  Qed.
End Pass.

(* ---------------------------------------------------------------- witnesses *)
(* both outcomes on a concrete state: big initializer before a small one, limit 1000 *)
Lemma fallback_example :
  let call := requires_inline_call true true MinDecl (std_adapt flags_fixed) supported_min supported_max big_fuel 1000 in
  supported supported_min supported_max w_fb_model 19 = false /\
  (exists S', call relabel_capi true w_fb_state 19 = FDone S' true [] /\
              g_inputs (st_sig S') = [("x"%string, 5)] /\ m_decl (st_model S') = Some 19 /\
              lookup_init "w_big" (g_inits (st_sig S')) = Some big /\ lookup_init "w_small" (g_inits (st_sig S')) = Some small /\
              state_consistent_at 19 S' = true) /\
  (exists g', call failing_capi true w_fb_state 19 = FDone (St w_fb_model g') false [] /\
              g_inputs g' = [("x"%string, 5)] /\ lookup_init "w_big" (g_inits g') = Some big) /\
  (* fallback off: the native converter refuses the downgrade, nothing touched *)
  (exists e, call relabel_capi false w_fb_state 19 = FRaised e w_fb_state []).
Proof. vm_compute. repeat split; eexists; repeat split; reflexivity. Qed.

(* REFUTED: the ORDER of the initializer table after a successful fallback (the big one is recovered after the small one) *)
Lemma fallback_success_order_refuted :
  exists S', requires_inline_call true true MinDecl (std_adapt flags_fixed) supported_min supported_max big_fuel 1000 relabel_capi true w_fb_state 19
             = FDone S' true [] /\
  keys (g_inits (st_sig S')) = ["w_small"%string; "w_big"%string] /\ keys (g_inits (st_sig w_fb_state)) = ["w_big"%string; "w_small"%string].
Proof. eexists. vm_compute. repeat split; reflexivity. Qed.

(* an oracle that does NOT keep the interface (renames the input that stands for the big initializer): the initializer
   is lost -- the hypothesis of capi_success_frame is needed (replayed by the harness with a renaming stub) *)
Definition renaming_capi (S0 : state) (t : Z) : option state :=
  Some (St (Model (Some t) None (m_graph (st_model S0)) [])
           (GSig (map (fun p => if String.eqb (fst p) "w_big" then ("w_big_renamed"%string, snd p) else p) (g_inputs (st_sig S0)))
                 (g_outputs (st_sig S0)) (g_inits (st_sig S0)))).
Lemma fallback_renaming_oracle_loses_initializer :
  exists S', requires_inline_call true true MinDecl (std_adapt flags_fixed) supported_min supported_max big_fuel 1000 renaming_capi true w_fb_state 19
             = FDone S' true [] /\
  lookup_init "w_big" (g_inits (st_sig S')) = None /\ lookup_init "w_small" (g_inits (st_sig S')) = Some small.
Proof. eexists. vm_compute. repeat split; reflexivity. Qed.
